#!/usr/bin/env python3
"""tools/benign_status.py : rewrite benign/STATUS.md from the "check" records that tools/benign_sweep.py left in benign/*/meta.json"""
import json, os
R = os.path.join(os.path.dirname(os.path.dirname(os.path.abspath(__file__))), "benign")
ids = sorted(d for d in os.listdir(R) if os.path.isdir(os.path.join(R, d)))
count = {}
with open(os.path.join(R, "STATUS.md"), "w") as f:
    f.write("| behaviour-preserving change | quick check | clauses not OK | last run |\n|---|---|---|---|\n")
    for s in ids:
        mp = os.path.join(R, s, "meta.json")
        k = json.load(open(mp)).get("check", {}) if os.path.exists(mp) else {}
        st = k.get("status", "NOT-RUN")
        count[st] = count.get(st, 0) + 1
        f.write("| %s | %s | %s | %s |\n" % (s, st, ", ".join(k.get("clauses_not_ok", [])), k.get("when", "")))
print(len(ids), count)
