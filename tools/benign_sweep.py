#!/usr/bin/env python3
"""tools/benign_sweep.py [ids...] : run every behaviour-preserving refactoring kept under benign/<prop>_<k>/patch.diff (on a scratch
copy of /repo/src, never /repo itself) against its property's quick check. The expected answer is exit 0 and no VIOLATION line:
anything else on such a tree is a false alarm (exit 1) or an avoidable loss of decision (exit 2 / 3). Writes benign/STATUS.md."""
import json, os, re, shutil, subprocess, sys, tempfile, time
ROOT = os.path.dirname(os.path.dirname(os.path.abspath(__file__)))
ids = sys.argv[1:] or sorted(d for d in os.listdir(ROOT + "/benign") if os.path.isdir(ROOT + "/benign/" + d))
rows = []
for bid in ids:
    prop = bid.split("_")[0]
    patch = "%s/benign/%s/patch.diff" % (ROOT, bid)
    scratch = tempfile.mkdtemp(prefix="benignsweep_")
    t0 = time.time()
    try:
        subprocess.run(["rsync", "-a", "--exclude", "__pycache__", "/repo/src", scratch + "/"], check=True)
        r = subprocess.run(["patch", "-p1", "-s", "-F3", "-d", scratch, "-i", patch], capture_output=True, text=True)
        if r.returncode != 0:
            rows.append((bid, "PATCH-DOES-NOT-APPLY", "", 0))
            print(rows[-1], flush=True)
            continue
        r = subprocess.run([ROOT + "/check", prop, "--tier", "quick"], capture_output=True, text=True, env=dict(os.environ, VERIF_REPO=scratch))
        out = r.stdout
        bad = sorted(set(re.findall(r"^\[%s\] (?:VIOLATION|UNDECIDED|ERROR)\s+\w*\s*(\S+)" % prop, out, re.M)))
        status = {0: "HELD (exit 0)", 1: "FALSE ALARM (exit 1)", 2: "UNDECIDED (exit 2)", 3: "CHECKER ERROR (exit 3)"}.get(r.returncode, "exit %d" % r.returncode)
        rows.append((bid, status, ", ".join(bad)[:400], round(time.time() - t0)))
        mp = "%s/benign/%s/meta.json" % (ROOT, bid)
        meta = json.load(open(mp)) if os.path.exists(mp) else {"property": prop, "id": bid}
        meta["check"] = {"command": "VERIF_REPO=<scratch copy with patch> ./check %s --tier quick" % prop, "exit": r.returncode, "status": status,
                         "clauses_not_ok": bad, "when": time.strftime("%Y-%m-%d %H:%M")}
        json.dump(meta, open(mp, "w"), indent=1)
        lo = "%s/benign/%s/last_output.txt" % (ROOT, bid)
        if r.returncode == 0 and os.path.exists(lo):
            os.remove(lo)  # output of an earlier, not-held run
        if r.returncode != 0:
            open("%s/benign/%s/last_output.txt" % (ROOT, bid), "w").write("\n".join(l[:400] for l in out.splitlines() if re.match(r"^\[%s\] (VIOLATION|UNDECIDED|ERROR)|^VIOLATION|^ERROR|^UNDECIDED" % prop, l))[:20000])
    finally:
        shutil.rmtree(scratch, ignore_errors=True)
    print(rows[-1], flush=True)
if not sys.argv[1:]:
    with open(ROOT + "/benign/STATUS.md", "w") as f:
        f.write("| behaviour-preserving change | quick check | clauses not OK | wall s |\n|---|---|---|---|\n")
        for r in rows:
            f.write("| %s | %s | %s | %s |\n" % r)
