#!/usr/bin/env python3
"""tools/seed_sweep.py [ids...] : run every seeded change (on a scratch copy of /repo, never /repo itself) against its
property's quick check; record which clauses caught it in seeded/<id>/meta.json and write seeded/STATUS.md."""
import json, os, re, shutil, subprocess, sys, tempfile, time
ROOT = "/verif"
ids = sys.argv[1:] or sorted(d for d in os.listdir(ROOT + "/seeded") if os.path.isdir(ROOT + "/seeded/" + d))
rows = []
for sid in ids:
    prop = sid.split("_")[0]
    patch = "%s/seeded/%s/patch.diff" % (ROOT, sid)
    scratch = tempfile.mkdtemp(prefix="seedsweep_")
    t0 = time.time()
    try:
        subprocess.run(["rsync", "-a", "--exclude", "__pycache__", "/repo/src", scratch + "/"], check=True)
        r = subprocess.run(["patch", "-p1", "-s", "-F3", "-d", scratch, "-i", patch], capture_output=True, text=True)
        if r.returncode != 0:
            rows.append((sid, "PATCH-DOES-NOT-APPLY", "", 0))
            continue
        r = subprocess.run([ROOT + "/check", prop, "--tier", "quick"], capture_output=True, text=True, env=dict(os.environ, VERIF_REPO=scratch))
        out = r.stdout
        viol = [l for l in out.splitlines() if l.startswith("VIOLATION")]
        clauses = sorted(set(re.findall(r"^\[%s\] VIOLATION\s+\w+\s+(\S+)" % prop, out, re.M)))
        status = "CAUGHT" if r.returncode == 1 and viol else ("UNDECIDED(exit %d)" % r.returncode if r.returncode in (2, 3) else "MISSED")
        rows.append((sid, status, ", ".join(clauses), round(time.time() - t0)))
        mp = "%s/seeded/%s/meta.json" % (ROOT, sid)
        meta = json.load(open(mp))
        meta["check"] = {"command": "VERIF_REPO=<scratch copy with patch> ./check %s --tier quick" % prop, "exit": r.returncode, "violation_lines": len(viol),
                         "clauses_reporting_violation": clauses, "status": status, "when": time.strftime("%Y-%m-%d %H:%M")}
        json.dump(meta, open(mp, "w"), indent=1)
    finally:
        shutil.rmtree(scratch, ignore_errors=True)
    print(rows[-1], flush=True)
if not sys.argv[1:]:
    with open(ROOT + "/seeded/STATUS.md", "w") as f:
        f.write("| seeded change | result | clauses that reported the violation | wall s |\n|---|---|---|---|\n")
        for r in rows:
            f.write("| %s | %s | %s | %s |\n" % r)
