HOOK_COMMITS = []
_T_S = "contract-based deductive verification of the real source in concrete-shape symbolic mode (VCs over all tensor contents per enumerated shape, z3/cvc5) + bounded run-time contracts against an independent spec"
_T_B = "bounded run-time contracts on the real functions against an independent spec function (exhaustive within a stated bound); the deductive verifier does not reach these functions"
_N = "Bounded clauses are never counted as proved. Trusted: Python/torch semantics as encoded by vf/pyvc (differentially tested), float-as-real, z3/cvc5, the spec functions' reading of the property."
CHECKS = {
 "C01": dict(category="other", technique=_T_S,
   text="Real edit_distance/prefix_edit_distances source symbolically executed per shape (R,H<=2 quick, <=3 thorough): every pair's result proved equal to the weighted-Levenshtein spec at the first-eos lengths for ALL token/eos/cost/padding values; plus exhaustive run-time contracts (strings <=3/5 over small alphabets, ragged batches, independence, wrappers) against an exact-rational DP. Bounded in shapes, so level 'other'.",
   note=_N),
 "C02": dict(category="other", technique=_T_S,
   text="Real error_rate/prefix_error_rates source symbolically executed per shape: result within [fewest, most] edits of minimum-cost alignments, equal-cost case = Levenshtein, normalisation/empty-reference convention, padding, for all contents; MER loss and modules by bounded run-time contracts.",
   note=_N),
 "C07": dict(category="other", engine="rtc", technique=_T_B,
   text="Sequence log-probs (tensor and packed), random walks via a forced-choice sampler visiting every walk of the bounded tree, distribution wrapper support/sample/log_prob, greedy CTC: exhaustive within the stated bounds against a pure-Python oracle.",
   note=_N + " Known finding KF-C07-2 (documented: eos ignored for packed input) is printed, not suppressed for other inputs."),
 "C09": dict(category="other", engine="rtc", technique=_T_B,
   text="pad_variable / chunk_by_slices / pad_masked_sequence / RandomShift against per-sequence pad-and-slice oracle (cross-checked with torch.nn.functional.pad), exhaustive over lens/pads/slices within the bound incl. pads beyond T, slices in the padding, empty/inverted slices.",
   note=_N),
 "C12": dict(category="other", technique="contract-based deductive verification: fragment contracts on the real _info_and_validate source and _utts_in_dir (VCs by z3/cvc5, integers and strings) + bounded run-time contracts on generated directories",
   text="Proved for all inputs: reference-boundary check/repair (raises iff not well-formed / not documented-repairable, repaired row passes a strict pass, only documented field changes), alignment-length crop rule, utterance discovery by prefix/suffix. Directory-level clauses bounded.",
   note=_N + " Fragment contracts assume the row/tensor abstractions stated in contracts/C12.py."),
 "C13": dict(category="proof", engine="pyvc+rtc",
   technique="contract-based deductive verification: VCs from the real sampler methods' AST, discharged by z3/cvc5 (symbolic N, W, rank, seed, epoch)",
   text="Every clause (init modes incl. raise-iff, len = number of yielded indices, rank-strided partition, order = f(seed, epoch) with frame conditions, history independence) is a postcondition or lemma over contracts on the real methods and is discharged for all N, world sizes, ranks, seeds and epochs. A bounded run-time cross-check of the same contracts on the real classes is kept as replay oracle.",
   note="Trusted: encoding of Python integer semantics; assumed contracts of torch.distributed rank/world queries, itertools.islice and numpy RandomState.permutation (the latter two differentially tested every run); z3/cvc5."),
 "C15": dict(category="other", technique="contract-based deductive verification: real update_for_epoch / get_best_epoch symbolically executed against a history invariant (abstract epoch->record map as SMT arrays), loop invariant for the best-epoch scan; z3/cvc5",
   text="Proved for all histories satisfying the invariant and all parameter settings: one-step early-stopping and lr-reduction transitions, stop decision, lr multiplied iff the criterion fires outside cool-down and the change is not negligible (written to every param group), frame, invariant preservation; get_best_epoch = earliest argmin of the formatted metric. Restart equivalence and typing bounded.",
   note=_N + " cache_hist abstracted to SMT arrays; printing/rounding abstracted to a monotone function; single process."),
 "C17": dict(category="other", technique="contract-based deductive verification: every os.listdir filter of command_line.py evaluated symbolically over strings (z3 seq + cvc5) + bounded run-time contracts on the real CLI entry points",
   text="Proved for all file names/prefixes/suffixes: each of the six directory filters selects exactly startswith(prefix) and endswith(suffix) and derives the documented id. Conversions, error-rate totals, subsetting, statistics and worker-count invariance bounded.",
   note=_N + " Worker-pool completion orders (schedules) are not decided by this technique."),
}
_PENDING = "check under construction in this session (design in DESIGN.md section 3); not yet claimed"
NOT_APPLICABLE = {("C%02d" % i): _PENDING for i in range(1, 21) if ("C%02d" % i) not in CHECKS}
