HOOK_COMMITS = []
CHECKS = {
 "C13": dict(category="proof", engine="pyvc+rtc",
   technique="contract-based deductive verification: VCs from the real sampler methods' AST, discharged by z3/cvc5 (symbolic N, W, rank, seed, epoch)",
   text="Every clause (init modes incl. raise-iff, len = number of yielded indices, rank-strided partition, order = f(seed, epoch) with frame conditions, history independence) is a postcondition or lemma over contracts on the real methods and is discharged for all N, world sizes, ranks, seeds and epochs. A bounded run-time cross-check of the same contracts on the real classes is kept as replay oracle.",
   note="Trusted: encoding of Python integer semantics; assumed contracts of torch.distributed rank/world queries, itertools.islice and numpy RandomState.permutation (the latter two differentially tested every run); z3/cvc5."),
}
_PENDING = "check under construction in this session (design in DESIGN.md section 3); not yet claimed"
NOT_APPLICABLE = {("C%02d" % i): _PENDING for i in range(1, 21) if ("C%02d" % i) not in CHECKS}
