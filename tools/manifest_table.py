HOOK_COMMITS = []
_T_S = "contract-based deductive verification of the real source in concrete-shape symbolic mode (VCs over all tensor contents per enumerated shape, z3/cvc5) + bounded run-time contracts against an independent spec"
_T_B = "bounded run-time contracts on the real functions against an independent spec function (exhaustive within a stated bound); the deductive verifier does not reach these functions"
_N = "Bounded clauses are never counted as proved. Trusted: Python/torch semantics as encoded by vf/pyvc (differentially tested), float-as-real, z3/cvc5, the spec functions' reading of the property."
CHECKS = {
 "C01": dict(category="other", technique="contract-based deductive verification: loop invariant of the real _string_matching DP for symbolic R, H, N (row = Wagner-Fischer table at the first-eos lengths; induction over r and h; quantified recurrence, z3/cvc5) and ghost induction for _lens_from_eos; concrete-shape symbolic VCs; bounded run-time contracts",
   text="Unbounded: the DP loop of the real _string_matching source under a row invariant for symbolic reference length, hypothesis length and batch size in 4 flag configurations, and the first-eos lengths for symbolic sequence length. Per shape: real edit_distance/prefix_edit_distances source symbolically executed (R,H<=2 quick, <=3 thorough): every pair's result proved equal to the weighted-Levenshtein spec at the first-eos lengths for ALL token/eos/cost/padding values; plus exhaustive run-time contracts (strings <=3/5 over small alphabets, ragged batches, independence, wrappers) against an exact-rational DP. Bounded in shapes, so level 'other'.",
   note=_N),
 "C02": dict(category="other", technique=_T_S,
   text="Real error_rate/prefix_error_rates source symbolically executed per shape: result within [fewest, most] edits of minimum-cost alignments, equal-cost case = Levenshtein, normalisation/empty-reference convention, padding, for all contents; MER loss and modules by bounded run-time contracts.",
   note=_N),
 "C07": dict(category="other", technique=_T_S,
   text="Sequence log-probs (tensor and packed), random walks via a forced-choice sampler visiting every walk of the bounded tree, distribution wrapper support/sample/log_prob, greedy CTC: exhaustive within the stated bounds against a pure-Python oracle.",
   note=_N + " Known finding KF-C07-2 (documented: eos ignored for packed input) is printed, not suppressed for other inputs."),
 "C09": dict(category="other", technique=_T_S,
   text="pad_variable / chunk_by_slices / pad_masked_sequence / RandomShift against per-sequence pad-and-slice oracle (cross-checked with torch.nn.functional.pad), exhaustive over lens/pads/slices within the bound incl. pads beyond T, slices in the padding, empty/inverted slices.",
   note=_N),
 "C12": dict(category="other", technique="contract-based deductive verification: fragment contracts on the real _info_and_validate source and _utts_in_dir (VCs by z3/cvc5, integers and strings) + bounded run-time contracts on generated directories",
   text="Proved for all inputs: reference-boundary check/repair (raises iff not well-formed / not documented-repairable, repaired row passes a strict pass, only documented field changes), alignment-length crop rule, utterance discovery by prefix/suffix. Directory-level clauses bounded.",
   note=_N + " Fragment contracts assume the row/tensor abstractions stated in contracts/C12.py."),
 "C13": dict(category="proof", engine="pyvc+rtc",
   technique="contract-based deductive verification: VCs from the real sampler methods' AST, discharged by z3/cvc5 (symbolic N, W, rank, seed, epoch)",
   text="Every clause (init modes incl. raise-iff, len = number of yielded indices, rank-strided partition, order = f(seed, epoch) with frame conditions, history independence) is a postcondition or lemma over contracts on the real methods and is discharged for all N, world sizes, ranks, seeds and epochs. A bounded run-time cross-check of the same contracts on the real classes is kept as replay oracle.",
   note="Trusted: encoding of Python integer semantics; assumed contracts of torch.distributed rank/world queries, itertools.islice and numpy RandomState.permutation (the latter two differentially tested every run); z3/cvc5."),
 "C15": dict(category="other", technique="contract-based deductive verification: real update_for_epoch / get_best_epoch symbolically executed against a history invariant (abstract epoch->record map as SMT arrays), loop invariant for the best-epoch scan; z3/cvc5",
   text="Proved for all histories satisfying the invariant and all parameter settings: one-step early-stopping and lr-reduction transitions, stop decision, lr multiplied iff the criterion fires outside cool-down and the change is not negligible (written to every param group), frame, invariant preservation; get_best_epoch = earliest argmin of the formatted metric. Restart equivalence and typing bounded.",
   note=_N + " cache_hist abstracted to SMT arrays; printing/rounding abstracted to a monotone function; single process."),
 "C17": dict(category="other", technique="contract-based deductive verification: every os.listdir filter of command_line.py evaluated symbolically over strings (z3 seq + cvc5) + bounded run-time contracts on the real CLI entry points",
   text="Proved for all file names/prefixes/suffixes: each of the six directory filters selects exactly startswith(prefix) and endswith(suffix) and derives the documented id. Conversions, error-rate totals, subsetting, statistics and worker-count invariance bounded.",
   note=_N + " Worker-pool completion orders (schedules) are not decided by this technique."),
}
_PENDING0 = "check under construction in this session (design in DESIGN.md section 3); not yet claimed"

_PENDING = "bounded driver still reports unreviewed failures on the unchanged tree in this session; not claimed until triaged (design in DESIGN.md section 3)"

CHECKS.update({
 "C03": dict(category="other", technique=_T_S,
   text="Real _string_matching(return_mask=True) source symbolically executed per shape: the row-minima mask equals the spec for all contents/costs/eos; optimal_completion target sets against a brute-force completion oracle and the OCD loss formula by exhaustive run-time contracts.",
   note=_N),
 "C04": dict(category="other", technique=_T_S,
   text="beam_search_advance post-condition and BeamSearch.forward (distinctness, stop at first eos, chained score recomputed on the table, order, exhaustiveness, batch = solo, stop rule) with state-threading table language models, exhaustive over V, T, width, eos, flags, batch sizes within the bound.",
   note=_N + " 'Histories' are reached only through the seeded score tables."),
 "C05": dict(category="other", engine="rtc", technique=_T_B,
   text="CTC prefix search against brute-force alignment summation and an independent dict-based prefix-beam recursion (cross-checked against each other): exact / pruned / batch / fusion / single advance step, exhaustive over grid tables within the bound, widths to far beyond the reachable prefixes.",
   note=_N),
 "C08": dict(category="other", technique="contract-based deductive verification of spec_augment_draw_parameters (symbolic T, F, lengths, limits and uniform draws; real arithmetic; z3/cvc5) + bounded run-time contracts for masking and warping",
   text="Proved for all lengths, sizes, limits and draws in [0,1): every drawn width/count/start/centre/shift respects the absolute and proportional limits. Masking exactness, evaluation mode and warp numerics (order, pinned ends, range, finiteness) by exhaustive run-time contracts incl. extreme draws.",
   note=_N + " Rounding of float32 in the draws is exercised only by the bounded driver."),
 "C10": dict(category="other", technique=_T_S,
   text="Real chunk_token_sequences_by_slices source symbolically executed per shape (kept tokens, order, ids, slice-relative boundaries, count) for all contents; slicing policies fixed/ali/ref and the directory command by exhaustive run-time contracts against an independent policy oracle.",
   note=_N + " Known findings KF-C10-1/7 (boundaries shifted by +start; the unedited test-suite encodes it) are printed, other failures of the same clauses still alarm."),
 "C11": dict(category="other", technique="contract-based deductive verification: path-or-file dispatch executed symbolically with the recursive call replaced by the function's own contract; token<->transcript time conversion over reals (z3/cvc5) + bounded run-time contracts for the file formats",
   text="Proved: every path branch forwards every parameter (7 functions; write_textgrid's dropped options are known finding KF-C11-1); transcript->token->transcript preserves ids and recovers times within one frame shift for all times and frame shifts. trn/ctm/TextGrid round trips, path-vs-handle byte identity and worker counts bounded.",
   note=_N + " Worker completion orders (schedules) are not decided."),
 "C16": dict(category="other", technique="contract-based deductive verification: real update_for_epoch symbolically executed against a ghost file system; one obligation per (path, cut point) incl. every subset of the clean-up; z3/cvc5 + crash-injection run-time contracts",
   text="Proved for epoch-unique paths, all histories satisfying the invariants and all settings: after every prefix of the file-system events of every path the last and best recorded epochs are loadable with their own parameters; exact-keep / keep-all re-established; refusal iff the best checkpoint would be overwritten. Formats without the epoch field are known finding KF-C16-2. Whole crash/restart histories on the real file system bounded.",
   note=_N + " Atomic events, single process death; callee contracts (save = two replaces, append, remove set) assumed and exercised by the run-time driver."),
 "C18": dict(category="other", technique=_T_S,
   text="Mean-variance statistics over every ordered set partition (exact rational oracle), store() conditions, own statistics, delta features against the recursive regression formula for every layout/order/width/pad mode, discounted returns incl. long sequences, and the CLI accumulation.",
   note=_N + " Known finding KF-C18-2 (|gamma|>1 with tiny rewards overflows a discount factor)."),
 "C19": dict(category="other", technique="contract-based deductive verification of fixed-cardinality sampling (loop invariant, symbolic vector size) and of threshold(csample(b)) = b for the relaxed Bernoulli (z3) + exhaustive enumeration of sample spaces at run time for values and gradients",
   text="Proved: simple_random_sampling_without_replacement returns exactly `given` ones below `total` for every size (bernoulli probabilities proved in [0,1]); LogisticBernoulli threshold∘csample is the identity. Unbiasedness of value and gradient (direct, importance sampling, enumeration), relaxations on quadrature nodes, Metropolis-Hastings acceptance, density factorisation, supports: bounded (whole sample spaces enumerated).",
   note=_N + " Gradients cannot be stated as first-order postconditions over the code; they are bounded only. Known finding KF-C19-1."),
 "C20": dict(category="other", technique=_T_S,
   text="Convexity, blindness to masked positions, permutation consistency, broadcasting vs explicit expansion, negative dims, multi-head composition and bias placement for dot / generalised / concat / multi-headed attention, exhaustive over shapes, dims, masks, permutations and broadcast patterns within the bound with seeded contents.",
   note=_N),
})
NOT_APPLICABLE = {("C%02d" % i): _PENDING for i in range(1, 21) if ("C%02d" % i) not in CHECKS}

CHECKS.update({
 "C06": dict(category="other", engine="rtc", technique=_T_B,
   text="Lookup language model against the Katz back-off recursion written from the property text, over exhaustively enumerated sparse tables (orders 1-3 on 1-3 symbols, absent/finite/-inf entries, sos in/out of vocabulary) plus sampled larger ones; all-at-once, chunked, per-index, per-element index, save/load into a fresh instance; offset-type boundaries (levels of 2**8 / 2**15 nodes); ARPA reader exactness in base 10 and e.",
   note=_N + " The deductive verifier does not reach the trie construction/navigation (dense data-dependent tensor code)."),
 "C14": dict(category="other", technique="contract-based deductive verification: loop invariant on the real BucketBatchSampler.__iter__ for a sampler of symbolic length (pending / full / consumed arrays over buckets) and the len-formula lemma; z3 + bounded run-time contracts for parameters, collation and loaders",
   text="Proved for every sampler length, bucket assignment and size map: per bucket consumed = full*size + pending with 0 <= pending < size; every yielded batch has exactly the bucket's size; with drop_incomplete only the incomplete batch is lost, otherwise it is flushed once; number of batches = the length formula. Bucket parameters, collation, context windows, loaders (len, determinism, purity, coverage, distributed) bounded.",
   note=_N + " `batches` abstracted to arrays over buckets; the flush loop abstracted to 'each non-empty pending list once'."),
})
CHECKS["C07"].update(technique=_T_S, engine="pyvc+rtc", text="Real ctc_greedy_search source symbolically executed per shape (best labels collapsed, lengths, score) for all contents/lengths/blank indices; sequence log-probs (tensor and packed), random walks via a forced-choice sampler visiting every walk of the bounded tree, distribution wrapper support/sample/log_prob by exhaustive run-time contracts against a pure-Python oracle.")
CHECKS["C09"].update(technique=_T_S, engine="pyvc+rtc", text="Real pad_masked_sequence source symbolically executed per shape (selected elements in order, then padding; count) for all contents and masks; pad_variable / chunk_by_slices / RandomShift against a per-sequence pad-and-slice oracle (cross-checked with torch.nn.functional.pad), exhaustive over lens/pads/slices within the bound.")
CHECKS["C04"].update(technique=_T_S, engine="pyvc+rtc", text="Real beam_search_advance source symbolically executed per shape (score = source + extension, path = prefix + token, distinct pairs, best-first, optimal, fillers) for all contents with an assumed top-k contract; BeamSearch.forward with state-threading table language models by exhaustive run-time contracts.")
CHECKS["C18"].update(technique=_T_S, engine="pyvc+rtc", text="Real time_distributed_return source symbolically executed per horizon: Bellman recurrence as a polynomial identity for all rewards and discount factors; mean-variance statistics over every ordered set partition (exact rational oracle), deltas, long-sequence returns and the CLI by exhaustive run-time contracts.")
CHECKS["C20"].update(technique=_T_S, engine="pyvc+rtc", text="Real dot-product / generalised soft-attention forward symbolically executed per shape with an assumed softmax contract: convexity over kept values and blindness to masked keys/values for all contents; permutation, broadcasting, negative dims, multi-head composition and bias placement by exhaustive run-time contracts.")
CHECKS["C12"]["text"] = "Proved for all inputs: reference-boundary check/repair (raises iff not well-formed / not documented-repairable, repaired row passes a strict pass, only documented field changes), alignment-length crop rule, utterance discovery by prefix/suffix. Validation iff well-formed, validate/fix/validate histories, info recount, sos/eos inverse and utterance discovery on generated directories bounded."
CHECKS["C17"]["text"] = "Proved for all file names/prefixes/suffixes: each of the six directory filters selects exactly startswith(prefix) and endswith(suffix) and derives the documented id. Conversions (trn/ctm/TextGrid/alignments round trips), error-rate totals for every batch size, subsetting, statistics and worker-count invariance on the real CLI entry points bounded."
NOT_APPLICABLE = {("C%02d" % i): _PENDING for i in range(1, 21) if ("C%02d" % i) not in CHECKS}

CHECKS["C05"].update(technique=_T_S, engine="pyvc+rtc", text="Real ctc_prefix_search_advance source symbolically executed per beam shape against the scalar prefix-beam recursion (extension / keep / merge masses, tokens, lengths, distinct, best-first, optimal, new prefix relation, fillers) for all probabilities and token ids with an assumed -inf-aware top-k contract; whole searches (exact alignment sums, reference prefix beam, fusion, batch = solo) by exhaustive run-time contracts.")
CHECKS["C12"]["text"] = CHECKS["C12"]["text"].replace("utterance discovery by prefix/suffix.", "utterance discovery by prefix/suffix. Per transcript length, all contents: _load_ref / _write_hyp are inverse for symbolic tokens, sos and eos (0 and negative values included) with arbitrary symbols around the hypothesis.", 1)
CHECKS["C17"]["text"] = CHECKS["C17"]["text"] + " Proved for all file names, prefixes and suffixes: _DirectoryDataset lists the selected files' ids in ascending id order (the order --first-n and the error-rate pairing rely on)."
CHECKS["C18"].update(technique="contract-based deductive verification: the real time_distributed_return for symbolic horizon and batch size (matrix product and pow as assumed recurrence contracts, inductions over the summation index as base/step obligations, z3) and per horizon in concrete-shape symbolic mode; bounded run-time contracts for statistics, deltas and the CLI",
                     text="Unbounded: Bellman recurrence of the real time_distributed_return for every horizon, batch size, reward and discount factor (real arithmetic), both layouts. " + CHECKS["C18"]["text"])
CHECKS["C20"].update(technique="contract-based deductive verification: the real dot-product soft attention forward for symbolic sequence length / key size / value size (sum and softmax as assumed partial-sum contracts, induction over the sequence index as base/step obligations, z3) and per shape in concrete-shape symbolic mode; bounded run-time contracts for permutation, broadcasting and multi-head composition",
                     text="Unbounded: every output coordinate of dot-product soft attention lies between the bounds of the kept values for every sequence length, key size, value size, query, key, value and mask with a kept position. " + CHECKS["C20"]["text"])
