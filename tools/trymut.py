#!/usr/bin/env python3
"""dev aid: tools/trymut.py <prop> <file-rel-to-src/pydrobert/torch> <old> <new> [check args] : apply a textual mutation to a scratch
copy of /repo/src (VERIF_REPO), run the check there, remove the copy. /repo itself is not touched."""
import os, shutil, subprocess, sys, tempfile
prop, rel, old, new = sys.argv[1:5]
extra = sys.argv[5:]
scratch = tempfile.mkdtemp(prefix="trymut_")
try:
    subprocess.run(["rsync", "-a", "--exclude", "__pycache__", "/repo/src", scratch + "/"], check=True)
    p = scratch + "/src/pydrobert/torch/" + rel
    s = open(p).read()
    assert s.count(old) == 1, "pattern occurs %d times" % s.count(old)
    open(p, "w").write(s.replace(old, new))
    r = subprocess.run([os.path.join(os.path.dirname(os.path.dirname(os.path.abspath(__file__))), "check"), prop] + extra, capture_output=True, text=True, env=dict(os.environ, VERIF_REPO=scratch))
    lines = [l for l in r.stdout.splitlines() if not l.startswith("WARNING")]
    print("\n".join(l[:400] for l in lines[-14:]))
    print("EXIT", r.returncode)
finally:
    shutil.rmtree(scratch, ignore_errors=True)
