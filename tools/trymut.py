#!/usr/bin/env python3
"""dev aid: tools/trymut.py <prop> <file-rel-to-src/pydrobert/torch> <old> <new> [--tier quick] : apply a textual mutation to /repo,
run the check, always revert (git checkout)."""
import subprocess, sys
prop, rel, old, new = sys.argv[1:5]
extra = sys.argv[5:]
p = "/repo/src/pydrobert/torch/" + rel
s = open(p).read()
assert s.count(old) == 1, "pattern occurs %d times" % s.count(old)
open(p, "w").write(s.replace(old, new))
try:
    r = subprocess.run(["/verif/check", prop] + extra, capture_output=True, text=True)
    lines = [l for l in r.stdout.splitlines() if not l.startswith("WARNING")]
    print("\n".join(l[:400] for l in lines[-14:]))
    print("EXIT", r.returncode)
finally:
    subprocess.run(["git", "-C", "/repo", "checkout", "--", p])
