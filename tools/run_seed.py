#!/usr/bin/env python3
"""tools/run_seed.py <seed id, e.g. C12_A> [prop] [--tier quick|thorough]: apply the seeded change to /repo, run the check, undo."""
import subprocess, sys
sid = sys.argv[1]
rest = sys.argv[2:]
prop = rest.pop(0) if rest and not rest[0].startswith("-") else sid.split("_")[0]
patch = "/verif/seeded/%s/patch.diff" % sid
assert subprocess.run(["git", "-C", "/repo", "status", "--short", "src"], capture_output=True, text=True).stdout.strip() == "", "/repo not clean"
assert subprocess.run(["git", "-C", "/repo", "apply", patch]).returncode == 0, "patch does not apply"
try:
    r = subprocess.run(["/verif/check", prop] + rest, capture_output=True, text=True)
    lines = [l for l in r.stdout.splitlines() if not l.startswith("WARNING")]
    viol = [l for l in lines if l.startswith("VIOLATION")]
    print("\n".join(l[:300] for l in lines if not l.startswith("[%s] ok" % prop))[-3000:])
    print("SEED %s on %s: exit=%d violations=%d => %s" % (sid, prop, r.returncode, len(viol), "CAUGHT" if r.returncode == 1 and viol else "MISSED"))
finally:
    subprocess.run(["git", "-C", "/repo", "checkout", "--", "."])
