#!/usr/bin/env python3
"""tools/run_seed.py <seed id, e.g. C12_A> [prop] [--tier quick|thorough] [--inplace]
Run a check against a seeded change. Default: on a scratch copy of /repo (VERIF_REPO), so that checks other
sessions are running against /repo are not disturbed; --inplace applies it to /repo itself and undoes it."""
import os, shutil, subprocess, sys, tempfile
sid = sys.argv[1]
rest = sys.argv[2:]
inplace = "--inplace" in rest
rest = [r for r in rest if r != "--inplace"]
prop = rest.pop(0) if rest and not rest[0].startswith("-") else sid.split("_")[0]
patch = "/verif/seeded/%s/patch.diff" % sid
env = dict(os.environ)
if inplace:
    assert subprocess.run(["git", "-C", "/repo", "status", "--short", "src"], capture_output=True, text=True).stdout.strip() == "", "/repo not clean"
    assert subprocess.run(["git", "-C", "/repo", "apply", patch]).returncode == 0, "patch does not apply"
    scratch = None
else:
    scratch = tempfile.mkdtemp(prefix="seedrun_")
    subprocess.run(["rsync", "-a", "--exclude", ".git", "--exclude", "__pycache__", "/repo/src", scratch + "/"], check=True)
    r = subprocess.run(["patch", "-p1", "-s", "-F3", "-d", scratch, "-i", patch], capture_output=True, text=True)
    assert r.returncode == 0, "patch does not apply: " + r.stdout + r.stderr
    env["VERIF_REPO"] = scratch
try:
    r = subprocess.run(["/verif/check", prop] + rest, capture_output=True, text=True, env=env)
    lines = [l for l in r.stdout.splitlines() if not l.startswith("WARNING")]
    viol = [l for l in lines if l.startswith("VIOLATION")]
    print("\n".join(l[:300] for l in lines if not l.startswith("[%s] ok" % prop))[-3000:])
    print("SEED %s on %s: exit=%d violations=%d => %s" % (sid, prop, r.returncode, len(viol), "CAUGHT" if r.returncode == 1 and viol else "MISSED"))
finally:
    if inplace:
        subprocess.run(["git", "-C", "/repo", "checkout", "--", "."])
    else:
        shutil.rmtree(scratch, ignore_errors=True)
