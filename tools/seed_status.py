#!/usr/bin/env python3
"""tools/seed_status.py : rewrite seeded/STATUS.md from the "check" records that tools/seed_sweep.py left in seeded/*/meta.json"""
import json, os
R = os.path.join(os.path.dirname(os.path.dirname(os.path.abspath(__file__))), "seeded")
ids = sorted(d for d in os.listdir(R) if os.path.isdir(os.path.join(R, d)))
n = c = 0
with open(os.path.join(R, "STATUS.md"), "w") as f:
    f.write("| seeded change | result | clauses that reported the violation | last run |\n|---|---|---|---|\n")
    for s in ids:
        k = json.load(open(os.path.join(R, s, "meta.json"))).get("check", {})
        n += 1
        c += k.get("status") == "CAUGHT"
        f.write("| %s | %s | %s | %s |\n" % (s, k.get("status", "NOT-RUN"), ", ".join(k.get("clauses_reporting_violation", [])), k.get("when", "")))
print("%d seeded changes, %d caught" % (n, c))
