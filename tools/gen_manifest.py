#!/usr/bin/env python3
"""Writes /verif/MANIFEST.json from the table below (single source of truth for levels/notes)."""
import json, os
ROOT = os.path.dirname(os.path.dirname(os.path.abspath(__file__)))
from manifest_table import CHECKS, NOT_APPLICABLE, HOOK_COMMITS  # noqa
checks = []
for pid, c in sorted(CHECKS.items()):
    checks.append({
        "property_id": pid,
        "quick_cmd": "./check %s --tier quick" % pid,
        "thorough_cmd": "./check %s --tier thorough" % pid,
        "evidence_file": "evidence/%s.json" % pid,
        "replay_cmd_template": "./check %s --replay {path}" % pid,
        "engine": c.get("engine", "pyvc+rtc"),
        "level_claimed": {"category": c["category"], "text": c["text"], "design_ref": c.get("design_ref", "DESIGN.md section 3 (%s)" % pid)},
        "level_note": c["note"],
        "technique": c["technique"],
    })
m = {
    "version": 1,
    "setup_cmd": "./setup.sh",
    "hooks": {
        "guard": "PYDROBERT_PYTORCH_VERIF",
        "enable": "no source hooks: contracts are sidecars under /verif/contracts keyed by module + qualified name; run-time monitoring monkey-patches from the harness. ./check exports PYDROBERT_PYTORCH_VERIF=1 for uniformity.",
        "baseline_off_cmd": "cd /repo && /venv/bin/python -m pytest -ra -q -p no:cacheprovider --timeout=900 --continue-on-collection-errors",
        "source_commits": HOOK_COMMITS,
        "add_only": True,
    },
    "engines": [
        {"name": "pyvc", "path": "vf/pyvc", "serves_properties": sorted(p for p, c in CHECKS.items() if "pyvc" in c.get("engine", "pyvc+rtc")),
         "kind_free_text": "contract-based deductive verification: symbolic execution of the real Python source (AST re-read from /repo every run) into verification conditions, sidecar pre/postconditions, loop invariants and ghost lemmas, discharged by z3 5.1 with cvc5 1.0.3 as fallback / cross-check"},
        {"name": "rtc", "path": "vf/core.py", "serves_properties": sorted(p for p, c in CHECKS.items() if "rtc" in c.get("engine", "pyvc+rtc")),
         "kind_free_text": "bounded stand-in: the same contracts checked at run time on the real functions over exhaustively enumerated small input spaces with independent spec functions as oracles; always labelled bounded, never counted as proved"},
    ],
    "checks": checks,
    "not_applicable": [{"property_id": k, "reason": v} for k, v in sorted(NOT_APPLICABLE.items())],
    "notes": "See DESIGN.md. Exit codes: 0 held, 1 violation (VIOLATION line), 2 undecided (solver unknown / construct outside the verified subset; never reported as a violation), 3 checker error. Self-tests kept in the tree: seeded/ (100 property-breaking changes by independent sub-agents, all reported by the quick checks; tools/seed_sweep.py) and benign/ (60 behaviour-preserving refactorings; expected exit 0; tools/benign_sweep.py) - both run on scratch copies via VERIF_REPO, never on /repo and never as part of a registered command. known_findings.jsonl lists the open findings and the fix: commits.",
}
json.dump(m, open(os.path.join(ROOT, "MANIFEST.json"), "w"), indent=1)
print("wrote MANIFEST.json with", len(checks), "checks;", len(m["not_applicable"]), "not applicable")
