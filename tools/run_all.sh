#!/bin/bash
# tools/run_all.sh [tier] [props...] : run checks sequentially on the unchanged tree, print one status line each
cd "$(dirname "$0")/.."
tier=${1:-quick}; shift
props=${@:-$(ls contracts/C??.py | sed 's/.*\(C[0-9][0-9]\)\.py/\1/')}
for p in $props; do
  s=$(date +%s)
  out=$(./check $p --tier $tier 2>/dev/null); code=$?
  e=$(date +%s)
  echo "$p exit=$code wall=$((e-s))s $(echo "$out" | grep -c '^VIOLATION') violation-lines; $(echo "$out" | grep "tier=" | cut -c1-160)"
  echo "$out" | grep -E "^\[$p\] (VIOLATION|UNDECIDED|ERROR)|^ERROR|^UNDECIDED" | cut -c1-300 | head -5
done
