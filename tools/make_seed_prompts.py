#!/usr/bin/env python3
"""tools/make_seed_prompts.py <base dir> <label> <prop>... : create one scratch git worktree of /repo per property under
<base dir> (outside /repo and /verif) and write the self-contained task text <base dir>/<prop>.prompt that a fresh sub-agent
is given. The text contains the property, its anchors and one-line summaries of the earlier seeded changes - nothing else
from /verif. Worktrees are removed by hand afterwards (git -C /repo worktree remove --force ...; git worktree prune)."""
import json, os, subprocess, sys

base, label, props = sys.argv[1], sys.argv[2], sys.argv[3:]
TESTS = {"C01": "tests/test_string.py", "C02": "tests/test_string.py", "C03": "tests/test_string.py", "C04": "tests/test_decoding.py",
         "C05": "tests/test_decoding.py", "C06": "tests/test_lm.py", "C07": "tests/test_decoding.py", "C08": "tests/test_img.py",
         "C09": "tests/test_pad.py tests/test_img.py", "C10": "tests/test_feats.py tests/test_command_line.py", "C11": "tests/test_parsing.py",
         "C12": "tests/test_datasets.py tests/test_command_line.py", "C13": "tests/test_dataloaders.py", "C14": "tests/test_dataloaders.py",
         "C15": "tests/test_training.py", "C16": "tests/test_training.py", "C17": "tests/test_command_line.py", "C18": "tests/test_feats.py tests/test_rl.py",
         "C19": "tests/test_straight_through.py tests/test_mc.py tests/test_enumerate_estimator.py", "C20": "tests/test_attn.py"}
os.makedirs(base, exist_ok=True)
prev = {}
for sid in sorted(os.listdir("/verif/seeded")):
    mp = "/verif/seeded/%s/meta.json" % sid
    if os.path.exists(mp):
        m = json.load(open(mp))
        prev.setdefault(m["property"], []).append(m.get("needs_to_manifest", "")[:140].replace("\n", " "))
for l in open("/verif/properties.jsonl"):
    d = json.loads(l)
    if d["id"] not in props:
        continue
    wt = "%s/%s" % (base, d["id"])
    subprocess.run(["git", "-C", "/repo", "worktree", "add", "-q", "--detach", wt, "HEAD"], check=True)
    os.makedirs("%s/_mut/%s" % (wt, label), exist_ok=True)
    txt = """You are helping test a verification tool by producing ONE realistic, subtle, property-breaking change ("seeded defect") to a Python library. Work ONLY inside the git worktree %(wt)s (a checkout of the library pydrobert-pytorch; source under src/pydrobert/torch/). Do not look at or touch /verif or /repo. Use `export OMP_NUM_THREADS=1 MKL_NUM_THREADS=1` before running anything; Python is /venv/bin/python; run code against the worktree with PYTHONPATH=%(wt)s/src. If you start a command-line tool of the library, ALWAYS pass `--num-workers 0` where it exists, and never use `pkill` / `killall` (other jobs share this machine).

The property "%(title)s":
%(statement)s

Input space the property ranges over: %(quant)s

Code the property is anchored in: %(anchors)s.

Your task:
1. Read the relevant source. Make ONE small change (1-3 lines, in src/ only) that only takes effect for an OPTION, PARAMETER VALUE or INPUT SHAPE that test suites rarely exercise: a keyword option left at its default everywhere in tests/ (find one by grepping tests/), a boolean flag in its non-default state, a numeric parameter at 0, 1 or a negative value, an alternative mode string, an optional tensor argument that is usually omitted (or usually given), an extra trailing / leading dimension, batch size 1, a different dtype. The change must look like a plausible simplification or slip, must make the property FALSE for at least one input INSIDE the input space above, and the package must still import. Earlier seeded changes for this property (choose something DIFFERENT in kind and place): %(prev)s
2. The relevant existing tests must still pass WITH your change: run `cd %(wt)s && PYTHONPATH=%(wt)s/src /venv/bin/python -m pytest -q -p no:cacheprovider %(tests)s 2>&1 | tail -3` (record the baseline on the unmodified tree first; your change must add no failure). If it does, pick a different change.
3. Write %(wt)s/_mut/%(label)s/demo.py: a standalone script that imports pydrobert.torch from PYTHONPATH, exercises the changed behaviour on concrete small inputs and compares with an INDEPENDENT computation of what the property demands (plain Python / a brute-force reference); it must `sys.exit(1)` and print what differs when the property is violated, and exit 0 otherwise. It must exit 0 on the unmodified library and 1 with your change.
4. Save the change as a patch: `cd %(wt)s && git diff -- src > _mut/%(label)s/patch.diff`, write %(wt)s/_mut/%(label)s/notes.md (what was changed, why it breaks the property, on which input, which tests you ran and their result), then REVERT the source: `git checkout -- src` so that `git status --short src` is empty. Verify: demo exits 0 now; `git apply _mut/%(label)s/patch.diff` then demo exits 1; then `git checkout -- src` again.
5. If, while reading, you notice something in the UNMODIFIED code that already seems to violate the property for such a rarely used option or value (a genuine defect), mention it briefly at the end of your report with a concrete input (do not fix it).

Report back briefly: the change, the failing input, test results, and step-5 remarks. Do not commit anything.""" % dict(
        wt=wt, title=d["title"], statement=d["statement"], quant=d["quantifier"]["text"], label=label,
        anchors=json.dumps(d["anchors"].get("mechanism", d["anchors"]))[:1500], prev=" | ".join(prev.get(d["id"], []))[:1200], tests=TESTS[d["id"]])
    open("%s/%s.prompt" % (base, d["id"]), "w").write(txt)
    print(d["id"])
