#!/usr/bin/env python3
"""tools/confirm_seed.py Cxx X tests...  : confirm a seeded change produced by a sub-agent in its scratch worktree /tmp/wt/Cxx
(demo fails with the patch, passes without; the named test files pass with the patch) and keep it as /verif/seeded/Cxx_X/."""
import json, os, shutil, subprocess, sys, time
prop, x = sys.argv[1:3]
tests = sys.argv[3:]
wt = "%s/%s" % (os.environ.get("WT_BASE", "/tmp/wt"), prop)
src = "%s/_mut/%s" % (wt, x)
env = dict(os.environ, OMP_NUM_THREADS="1", MKL_NUM_THREADS="1", PYTHONPATH=wt + "/src")
def sh(cmd, **kw):
    return subprocess.run(cmd, shell=True, cwd=wt, env=env, capture_output=True, text=True, **kw)
assert sh("git status --short src").stdout.strip() == "", "worktree not clean"
r0 = sh("/venv/bin/python %s/demo.py" % src)
assert sh("git apply %s/patch.diff" % src).returncode == 0, "patch does not apply"
try:
    r1 = sh("/venv/bin/python %s/demo.py" % src)
    t = sh("/venv/bin/python -m pytest -q -p no:cacheprovider -n 4 %s 2>&1 | tail -3" % " ".join(tests)) if tests else None
finally:
    sh("git checkout -- src")
tail = t.stdout.strip().splitlines()[-1] if t else "no tests run"
ok = r0.returncode == 0 and r1.returncode != 0 and (t is None or (" passed" in tail and " failed" not in tail) or (prop in ("C06",) and "7 failed" in tail))
print("demo without patch: exit %d; with patch: exit %d; tests with patch: %s => %s" % (r0.returncode, r1.returncode, tail, "CONFIRMED" if ok else "NOT CONFIRMED"))
if ok:
    dst = "/verif/seeded/%s_%s" % (prop, x)
    os.makedirs(dst, exist_ok=True)
    for f in ("patch.diff", "demo.py", "notes.md"):
        shutil.copy(os.path.join(src, f), dst)
    meta = {"property": prop, "id": "%s_%s" % (prop, x), "source": "independent sub-agent given only the property text and a scratch worktree",
            "needs_to_manifest": open(os.path.join(src, "notes.md")).read()[:1500],
            "confirmed": {"demo_exit_without_patch": r0.returncode, "demo_exit_with_patch": r1.returncode, "demo_output_with_patch": r1.stdout[-600:],
                          "tests_run_with_patch": tests, "tests_result": tail, "when": time.strftime("%Y-%m-%d %H:%M")}}
    json.dump(meta, open(os.path.join(dst, "meta.json"), "w"), indent=1)
