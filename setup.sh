#!/bin/bash
# Builds /verif/.venv: python 3.12 overlay venv seeing /venv's site-packages (torch, numpy, the
# editable repo) plus z3-solver, cvc5, icontract, jsonschema from the offline wheelhouse.
# Idempotent; safe to call concurrently (flock).
set -e
cd "$(dirname "$0")"
V=.venv
PY=/root/.pyenv/versions/3.12.1/bin/python3.12
[ -x "$PY" ] || PY=/venv/bin/python
exec 9>.venv.lock
flock 9
if [ ! -f "$V/.ok" ]; then
  rm -rf "$V"
  "$PY" -m venv "$V"
  SP=$("$V/bin/python" -c 'import sysconfig; print(sysconfig.get_paths()["purelib"])')
  echo "import site; site.addsitedir('/venv/lib/python3.12/site-packages')" > "$SP/_ov.pth"
  PIP_NO_INDEX=1 "$V/bin/pip" install -q --no-index --find-links /opt/veriftools/wheels z3-solver cvc5 icontract jsonschema >/dev/null
  "$V/bin/python" -c 'import z3, cvc5, jsonschema, torch, pydrobert.torch' 
  touch "$V/.ok"
fi
