"""C06 (engine B) - the n-gram lookup model computes Katz back-off on any table; ARPA reader.

Run-time contracts on the real `pydrobert.torch.modules.LookupLanguageModel` (forward with and
without `idx`, `calc_full_log_probs_chunked`, `state_dict`/`load_state_dict`) and on
`pydrobert.torch.data.parse_arpa_lm`, checked over enumerated tables against an oracle written
from the property text:

    value(ctx, w) = listed log-prob of ctx+(w,)            if that n-gram is listed and finite
                  = -inf                                   if ctx is empty (nothing left to back off to)
                  = backoff(ctx) [0 if ctx not listed] + value(ctx[1:], w)    otherwise
    next-token log-probs after history h = value((sos,)*(N-1) + h)[-(N-1):], w) for w in 0..V-1

Table forms a case can take (all JSON):
  enum : {"V","sos","N","present": bitmask over the canonical gram list, "neginf": bitmask}; the
         canonical list is, order by order, itertools.product(tokens, repeat=n), tokens =
         0..V-1 followed by sos when sos is outside the vocabulary; values are a fixed dyadic
         function of the key (so float32 sums are exact and results are compared with ==).
  grams: {"V","sos","N","grams": [[key, logp|None(-inf), backoff|None], ...]} explicit.
  gen  : {"V","sos","N","gen": {...}} procedurally generated big tables (level sizes given).
"""
import io
import itertools
import math
import os
import random
import tempfile
import warnings

NEG = float("-inf")
LN10 = math.log(10.0)

# ---------------------------------------------------------------------------------------------
# tables


def _tokens(V, sos):
    return list(range(V)) + ([] if 0 <= sos < V else [sos])


def _hash(key, sos, V):
    h = 7
    for k in key:
        k = V if (k == sos and not 0 <= sos < V) else k
        h = (h * 1000003 + k * 7919 + 13) % 2147483647
    return h


def _dyadic_lp(key, sos, V):
    return -float(1 + _hash(key, sos, V) % 509)


def _dyadic_bo(key, sos, V):
    return float((_hash(key, sos, V) // 509) % 1021 - 900) / 4096.0


def canonical_grams(V, sos, N):
    toks = _tokens(V, sos)
    out = []
    for n in range(1, N + 1):
        out.append(list(itertools.product(toks, repeat=n)))
    return out


def _gen_table(V, sos, N, g):
    """big closed tables with prescribed level sizes.
    g = {"sizes": [L2, ..., LN] (L1 is always all tokens), "shape": first|last|spread, "seed": s}
    Level k+1 holds extensions (x,)+key of level-k keys, so suffixes always exist; 'first'/'last'
    put every (k+1)-gram of the level named by g["at"] under the first/last k-gram in the order the
    trie uses (keys reversed, sos mapped to V); other levels are spread."""
    rng = random.Random(g.get("seed", 0))
    toks = _tokens(V, sos)
    m = (lambda t: V if (t == sos and not 0 <= sos < V) else t)
    order = lambda key: tuple(m(t) for t in key[::-1])
    levels = [[(t,) for t in toks]]
    for lvl, want in enumerate(g["sizes"], start=2):
        prev = sorted(levels[-1], key=order)
        shape = g.get("shape", "spread") if g.get("at", 2) == lvl else "spread"
        if shape in ("first", "last"):
            par = prev[0] if shape == "first" else prev[-1]
            if want > len(toks):
                raise ValueError("cannot put %d children under one node" % want)
            xs = rng.sample(toks, want)
            cur = [(x,) + par for x in xs]
        else:
            total = len(prev) * len(toks)
            if want > total:
                raise ValueError("level too large")
            if want * 3 > total:
                allk = [(x,) + p for p in prev for x in toks]
                cur = rng.sample(allk, want)
            else:
                seen = set()
                while len(seen) < want:
                    seen.add((rng.choice(toks),) + rng.choice(prev))
                cur = sorted(seen)
        levels.append(cur)
    tab = {}
    inf_every = g.get("inf_every", 0)
    i = 0
    for n, lv in enumerate(levels, start=1):
        for key in lv:
            i += 1
            lp = NEG if (inf_every and i % inf_every == 0) else _dyadic_lp(key, sos, V)
            tab[key] = (lp, _dyadic_bo(key, sos, V) if n < N else 0.0)
    return tab


def table_of(case):
    """-> V, sos, N, {key tuple: (logp, backoff)}; backoff of highest-order entries is 0."""
    V, sos, N = case["V"], case["sos"], case["N"]
    tab = {}
    if "grams" in case:
        for key, lp, bo in case["grams"]:
            tab[tuple(key)] = (NEG if lp is None else float(lp), 0.0 if bo is None else float(bo))
    elif "gen" in case:
        tab = _gen_table(V, sos, N, case["gen"])
    else:
        present, neginf = case["present"], case.get("neginf", 0)
        bit = 0
        for n, keys in enumerate(canonical_grams(V, sos, N), start=1):
            for key in keys:
                if present >> bit & 1:
                    lp = NEG if neginf >> bit & 1 else _dyadic_lp(key, sos, V)
                    tab[key] = (lp, _dyadic_bo(key, sos, V) if n < N else 0.0)
                bit += 1
    return V, sos, N, tab


def prob_dicts_of(N, tab):
    """the library's input format: unigram keys are ids, highest order values are plain floats"""
    pd = [dict() for _ in range(N)]
    for key, (lp, bo) in tab.items():
        n = len(key)
        k = key[0] if n == 1 else key
        pd[n - 1][k] = lp if n == N else (lp, bo)
    return pd


def describe(tab):
    return "table{" + ", ".join("%s:%s" % ("".join(str(k) if 0 <= k < 10 else "(%d)" % k for k in key), ("%g" % v[0]) + ("/%g" % v[1] if v[1] else ""))
                                for key, v in sorted(tab.items(), key=lambda kv: (len(kv[0]), kv[0]))[:24]) + ("..." if len(tab) > 24 else "") + "}"


# ---------------------------------------------------------------------------------------------
# the oracle (from the property text)


class Katz:
    def __init__(self, V, sos, N, tab):
        self.V, self.sos, self.N, self.tab = V, sos, N, tab
        self.memo = {}

    def value(self, ctx, w):
        k = (ctx, w)
        r = self.memo.get(k)
        if r is None:
            ent = self.tab.get(ctx + (w,))
            if ent is not None and ent[0] > NEG and ent[0] < float("inf"):
                r = ent[0]
            elif not ctx:
                r = NEG
            else:
                c = self.tab.get(ctx)
                r = (c[1] if c is not None else 0.0) + self.value(ctx[1:], w)
            self.memo[k] = r
        return r

    def after(self, hist):
        """hist: sequence of tokens (the whole history so far) -> list over w of log-probs"""
        n1 = self.N - 1
        ctx = (tuple([self.sos] * n1) + tuple(hist))
        ctx = ctx[len(ctx) - n1:] if n1 else ()
        return [self.value(ctx, w) for w in range(self.V)]


def _close(got, exp, exact):
    if exp == NEG or got == NEG:
        return exp == got
    if got != got:
        return False
    if exact:
        return got == exp
    return abs(got - exp) <= 2e-5 * (1.0 + abs(exp))


# ---------------------------------------------------------------------------------------------
# building the real model


def build(case):
    import torch  # noqa
    from pydrobert.torch.modules import LookupLanguageModel

    V, sos, N, tab = table_of(case)
    with warnings.catch_warnings():
        warnings.simplefilter("ignore")
        # destructive: the builder may consume / rewrite the dictionaries it is given instead of copying them - the model must be the same
        lm = LookupLanguageModel(V, sos, prob_dicts_of(N, tab), destructive=True) if case.get("destructive") else LookupLanguageModel(V, sos, prob_dicts_of(N, tab))
    return lm, Katz(V, sos, N, tab)


def hist_tokens(case):
    V, sos = case["V"], case["sos"]
    toks = list(range(V))
    if case.get("hist_sos", True) and not 0 <= sos < V:
        toks.append(sos)
    return toks


def all_hists(case, T):
    """every history of length T over the history alphabet as one batch: list of B rows"""
    rows = case.get("hists")
    if rows is not None:  # an explicit sample of histories (each at least as long as the case's T); prefixes for smaller T
        seen, out = set(), []
        for r in rows:
            r = tuple(r[:T])
            if len(r) == T and r not in seen:
                seen.add(r)
                out.append(list(r))
        return out
    return [list(h) for h in itertools.product(hist_tokens(case), repeat=T)]


def hist_tensor(rows, T, contiguous=True):
    import torch

    B = len(rows)
    if contiguous == "offset":  # a contiguous (T, B) view that does not start at the beginning of its storage (e.g. tokens[1:])
        return torch.tensor([[0] * B] + [[rows[b][t] for b in range(B)] for t in range(T)], dtype=torch.long).view(T + 1, B)[1:]
    if contiguous:
        return torch.tensor([[rows[b][t] for b in range(B)] for t in range(T)], dtype=torch.long).view(T, B)
    return torch.tensor(rows, dtype=torch.long).view(B, T).T  # a non-contiguous (T, B) view


def _check_full_output(out, rows, T, oracle, exact, what):
    V = oracle.V
    B = len(rows)
    if tuple(out.shape) != (T + 1, B, V):
        return "%s: shape %s, expected %s" % (what, tuple(out.shape), (T + 1, B, V))
    got = out.tolist()
    for b in range(B):
        for t in range(T + 1):
            exp = oracle.after(rows[b][:t])
            g = got[t][b]
            for w in range(V):
                if g[w] != exp[w] and not _close(g[w], exp[w], exact):
                    return "%s: history %s next token %d: model %r, back-off recursion %r" % (what, rows[b][:t], w, g[w], exp[w])
    return None


def _exact(case):
    return "grams" not in case or bool(case.get("exact"))


# ---------------------------------------------------------------------------------------------
# checkers


def check_full(case):
    """forward without idx: log-probs after every prefix of every history == oracle"""
    lm, oracle = build(case)
    T = case["T"]
    rows = all_hists(case, T)
    out = lm(hist_tensor(rows, T, case.get("contig", True)))
    msg = _check_full_output(out, rows, T, oracle, _exact(case), "lm(hist)")
    return msg and msg + " | " + describe(oracle.tab)


def check_chunked(case):
    """calc_full_log_probs_chunked for every chunk size 1..T+2 and every T <= case T"""
    lm, oracle = build(case)
    for T in range(case["T"] + 1):
        rows = all_hists(case, T)
        if not rows:
            continue
        for contig in ((True, False, "offset") if T == case["T"] else (True,)):
            h = hist_tensor(rows, T, contig)
            for chunk in range(1, T + 3):
                out = lm.calc_full_log_probs_chunked(h, dict(), chunk)
                msg = _check_full_output(out, rows, T, oracle, _exact(case), "chunked(T=%d, chunk_size=%d, contiguous=%s)" % (T, chunk, contig))
                if msg:
                    return msg + " | " + describe(oracle.tab)
    return None


def check_idx(case):
    """forward with idx: python int (negative too), 0-dim / 1-element tensor, per-element tensor"""
    import torch

    lm, oracle = build(case)
    T, V, exact = case["T"], oracle.V, _exact(case)
    rows = all_hists(case, T)
    B = len(rows)
    h = hist_tensor(rows, T)

    def cmp(out, rws, idxs, what):
        if isinstance(out, tuple):
            out = out[0]
        else:
            return "%s: expected a (log_probs, state) pair" % what
        if tuple(out.shape) != (len(rws), V):
            return "%s: shape %s, expected %s" % (what, tuple(out.shape), (len(rws), V))
        got = out.tolist()
        for b, r in enumerate(rws):
            exp = oracle.after(r[:idxs[b]])
            for w in range(V):
                if got[b][w] != exp[w] and not _close(got[b][w], exp[w], exact):
                    return "%s: element %d history %s idx %d next token %d: model %r, back-off recursion %r | %s" % (
                        what, b, r, idxs[b], w, got[b][w], exp[w], describe(oracle.tab))
        return None

    for i in range(-T - 1, T + 1):
        pos = i % (T + 1)
        msg = cmp(lm(h, idx=i), rows, [pos] * B, "lm(hist, idx=%d)" % i)
        if msg:
            return msg
    for i in range(T + 1):
        msg = cmp(lm(h, idx=torch.tensor(i)), rows, [i] * B, "lm(hist, idx=tensor(%d))" % i) or \
            cmp(lm(h, idx=torch.tensor([i])), rows, [i] * B, "lm(hist, idx=tensor([%d]))" % i)
        if msg:
            return msg
    # a different index per batch element: every (history, idx) pair with idx >= m in one batch, for each m
    # (the smallest index in the batch decides how much start-symbol padding is added)
    for m in range(T + 1):
        rws, idxs = [], []
        for r in rows:
            for i in range(m, T + 1):
                rws.append(r)
                idxs.append(i)
        if case.get("rev"):
            rws, idxs = rws[::-1], idxs[::-1]
        msg = cmp(lm(hist_tensor(rws, T), idx=torch.tensor(idxs)), rws, idxs, "lm(hist, idx=per-element, min %d)" % m)
        if msg:
            return msg
    # batch of one with a one-element index vector
    for r in rows[: 4]:
        for i in range(T + 1):
            msg = cmp(lm(hist_tensor([r], T), idx=torch.tensor([i])), [r], [i], "lm(hist[:, :1], idx=tensor([%d]))" % i)
            if msg:
                return msg
    return None


def check_reload(case):
    """state_dict -> torch.save/load -> fresh instance -> load_state_dict: same numbers, all modes"""
    import torch
    from pydrobert.torch.modules import LookupLanguageModel

    lm, oracle = build(case)
    V, sos, N, T, exact = oracle.V, oracle.sos, oracle.N, case["T"], _exact(case)
    buf = io.BytesIO()
    torch.save(lm.state_dict(), buf)
    buf.seek(0)
    sd = torch.load(buf)
    rows = all_hists(case, T)
    h = hist_tensor(rows, T)
    ref = lm(h)
    variants = [("LookupLanguageModel(V, sos)", lambda: LookupLanguageModel(V, sos))]
    other = case.get("other")
    if other is not None:
        variants.append(("an instance built from another table", lambda: build(dict(other, V=V, sos=sos))[0]))
    for name, mk in variants:
        with warnings.catch_warnings():
            warnings.simplefilter("ignore")
            fresh = mk()
        fresh.load_state_dict(sd)
        out = fresh(h)
        msg = _check_full_output(out, rows, T, oracle, exact, "after load into %s: lm(hist)" % name)
        if msg:
            return msg + " | " + describe(oracle.tab)
        if not torch.equal(out, ref):
            return "after load into %s the output differs from the saved model's" % name
        if fresh.max_ngram != N:
            return "after load into %s: max_ngram %d, table has order %d" % (name, fresh.max_ngram, N)
        for chunk in (2, T + 1):
            out = fresh.calc_full_log_probs_chunked(h, dict(), chunk)
            msg = _check_full_output(out, rows, T, oracle, exact, "after load into %s: chunked(%d)" % (name, chunk))
            if msg:
                return msg + " | " + describe(oracle.tab)
        idxs = [(b + 1) % (T + 1) for b in range(len(rows))]
        out = fresh(h, idx=torch.tensor(idxs))[0].tolist()
        for b, r in enumerate(rows):
            exp = oracle.after(r[: idxs[b]])
            for w in range(V):
                if out[b][w] != exp[w] and not _close(out[b][w], exp[w], exact):
                    return "after load into %s: per-element idx: history %s idx %d token %d: %r vs %r" % (name, r, idxs[b], w, out[b][w], exp[w])
    return None


def check_wide(case):
    """tables whose levels are wide enough to cross the integer widths used for `offsets`/`ids`"""
    import torch

    lm, oracle = build(case)
    V, sos, N, T = oracle.V, oracle.sos, oracle.N, case["T"]
    rng = random.Random(case.get("hseed", 0))
    toks = hist_tokens(case)
    rows = []
    keys = [k for k in oracle.tab if len(k) == N] + [k for k in oracle.tab if len(k) == max(N - 1, 1)]
    rng.shuffle(keys)
    for k in keys[: case.get("B", 48)]:  # histories that end in listed contexts, so deep matches happen
        k = [t for t in k[:-1]] if len(k) == N and N > 1 else list(k)
        k = [t for t in k if t in toks or t == sos and case.get("hist_sos", True)]
        r = [rng.choice(toks) for _ in range(T)] + k
        rows.append(r[len(r) - T:] if T else [])
    for _ in range(case.get("B", 48) // 2):
        rows.append([rng.choice(toks) for _ in range(T)])
    if N == 2 and case.get("all_ctx", True) and T >= 1:
        rows += [[rng.choice(toks) for _ in range(T - 1)] + [t] for t in toks]
    h = hist_tensor(rows, T)
    msg = _check_full_output(lm(h), rows, T, oracle, True, "lm(hist)") or \
        _check_full_output(lm.calc_full_log_probs_chunked(h, dict(), T + 1), rows, T, oracle, True, "chunked(%d)" % (T + 1))
    if msg:
        return msg + " | dtypes offsets=%s ids=%s" % (lm.offsets.dtype, lm.ids.dtype)
    idxs = [rng.randrange(T + 1) for _ in rows]
    out = lm(h, idx=torch.tensor(idxs))[0].tolist()
    for b, r in enumerate(rows):
        exp = oracle.after(r[: idxs[b]])
        for w in range(V):
            if out[b][w] != exp[w] and not _close(out[b][w], exp[w], True):
                return "per-element idx: history %s idx %d token %d: %r vs %r" % (r, idxs[b], w, out[b][w], exp[w])
    if case.get("reload"):
        from pydrobert.torch.modules import LookupLanguageModel

        fresh = LookupLanguageModel(V, sos)
        fresh.load_state_dict(lm.state_dict())
        msg = _check_full_output(fresh(h), rows, T, oracle, True, "after reload: lm(hist)")
        if msg:
            return msg
    return None


# ---- ARPA ------------------------------------------------------------------------------------

LP_FORMS = ["-0.5", "-1", "-2.25", "-1.5e-05", "-3E-2", "-99", "0", "-0.30103", "-12.345678", "-4.7712125", "-1.0e-2", "-0.0"]
BO_FORMS = [None, "-0.25", "0", "-1e-3", "0.5", "-0.30103", "-2", None, "-0.6931", "-1.25E-1"]
ARPA_TOKS = ["a", "b", "<s>", "</s>", "7", "c'd", "é"]


def arpa_entries(case):
    """-> list per order of [(tokens tuple of str, logp text, backoff text or None)]"""
    toks = ARPA_TOKS[: case["ntok"]]
    N = case["N"]
    out = []
    bit = 0
    salt = case.get("salt", 0)
    for n in range(1, N + 1):
        cur = []
        for key in itertools.product(toks, repeat=n):
            if case["present"] >> bit & 1:
                h = (bit * 2654435761 + salt * 40503 + 12345) % 4294967296
                lp = LP_FORMS[(h >> 3) % len(LP_FORMS)]
                bo = BO_FORMS[(h >> 11) % len(BO_FORMS)] if n < N else None
                if case.get("all_bo") and n < N and bo is None:
                    bo = "-0.125"
                cur.append((key, lp, bo))
            bit += 1
        out.append(cur)
    return out


def arpa_text(case, entries):
    sep = "\t" if case.get("tab") else " "
    lines = []
    if case.get("preamble"):
        lines += ["This is a comment before the data section", ""]
    lines.append("\\data\\")
    for n, cur in enumerate(entries, start=1):
        lines.append("ngram %d=%d" % (n, len(cur)))
    lines.append("")
    for n, cur in enumerate(entries, start=1):
        lines.append("\\%d-grams:" % n)
        order = list(cur)
        if case.get("shuffle"):
            random.Random(case.get("salt", 0) + n).shuffle(order)
        for key, lp, bo in order:
            lines.append(lp + sep + " ".join(key) + ("" if bo is None else sep + bo))
        lines.append("")
    lines.append("\\end\\")
    return "\n".join(lines) + "\n"


def check_arpa(case):
    """parse_arpa_lm returns exactly the listed entries (base 10; natural log when asked)"""
    import numpy as np
    from pydrobert.torch.data import parse_arpa_lm

    entries = arpa_entries(case)
    N = case["N"]
    text = arpa_text(case, entries)
    token2id = None
    if case.get("ids"):
        token2id = {t: (i * 3 + 1 if case["ids"] == 2 else i) for i, t in enumerate(ARPA_TOKS)}
    base = case.get("base")  # None (default, documented as base 10), False, True
    ftype = {"float": float, "f64": np.float64, "f32": np.float32}[case.get("ftype", "float")]
    with warnings.catch_warnings():
        warnings.simplefilter("ignore")
        if case.get("path"):
            with tempfile.TemporaryDirectory() as d:
                p = os.path.join(d, "lm.arpa")
                with open(p, "w", encoding="utf-8") as f:
                    f.write(text)
                got = parse_arpa_lm(p, token2id, base, ftype)
        else:
            got = parse_arpa_lm(io.StringIO(text), token2id, base, ftype)
    if not isinstance(got, list) or len(got) != N:
        return "parse returned %d orders, file lists %d" % (len(got), N)
    scale = LN10 if base else 1.0
    tol = 0.0 if (not base and ftype is not np.float32) else (1e-6 if ftype is np.float32 else 1e-14)

    def same(g, text_):
        e = float(text_) * scale
        if ftype is np.float32:
            e = float(np.float32(text_)) * scale
        return abs(float(g) - e) <= tol * max(1.0, abs(e))

    for n, cur in enumerate(entries, start=1):
        want = {}
        for key, lp, bo in cur:
            k = tuple(token2id[t] for t in key) if token2id else key
            want[k[0] if n == 1 else k] = (lp, bo)
        d = got[n - 1]
        if set(d) != set(want):
            return "order %d: keys %s, file lists %s" % (n, sorted(map(str, d)), sorted(map(str, want)))
        for k, (lp, bo) in want.items():
            v = d[k]
            if n == N:
                if isinstance(v, tuple) or not same(v, lp):
                    return "order %d entry %s: %r, file lists %s (highest order: plain log-prob)" % (n, k, v, lp)
            else:
                if not isinstance(v, tuple) or len(v) != 2:
                    return "order %d entry %s: %r is not a (log-prob, back-off) pair" % (n, k, v)
                if not same(v[0], lp) or not same(v[1], bo if bo is not None else "0"):
                    return "order %d entry %s: %r, file lists (%s, %s) scale %g" % (n, k, v, lp, bo, scale)
    return None


def check_arpa_model(case):
    """ARPA text -> parse_arpa_lm(token2id, natural log) -> LookupLanguageModel == oracle on the listed entries"""
    from pydrobert.torch.data import parse_arpa_lm
    from pydrobert.torch.modules import LookupLanguageModel

    entries = arpa_entries(case)
    N, ntok = case["N"], case["ntok"]
    sos_tok = case["sos_tok"]  # index into ARPA_TOKS; vocabulary is the other tokens when sos is outside
    if case.get("sos_out"):
        order = [i for i in range(ntok) if i != sos_tok] + [sos_tok]
        V = ntok - 1
    else:
        order = list(range(ntok))
        V = ntok
    token2id = {ARPA_TOKS[i]: j for j, i in enumerate(order)}
    sos = token2id[ARPA_TOKS[sos_tok]]
    if V < 1:
        return None
    with warnings.catch_warnings():
        warnings.simplefilter("ignore")
        pd = parse_arpa_lm(io.StringIO(arpa_text(case, entries)), token2id, bool(case.get("base", True)))
        lm = LookupLanguageModel(V, sos, pd)
    scale = LN10 if case.get("base", True) else 1.0
    tab = {}
    for n, cur in enumerate(entries, start=1):
        for key, lp, bo in cur:
            tab[tuple(token2id[t] for t in key)] = (float(lp) * scale, float(bo) * scale if bo is not None else 0.0)
    oracle = Katz(V, sos, N, tab)
    T = case["T"]
    c2 = {"V": V, "sos": sos}
    rows = all_hists(c2, T)
    msg = _check_full_output(lm(hist_tensor(rows, T)), rows, T, oracle, False, "lm(hist) from ARPA")
    return msg and msg + " | " + describe(tab)


# ---------------------------------------------------------------------------------------------
# case generators


def check_trie_view(case):
    """run-time contract on `_build_trie` (the other half of C06.P.descent_is_katz_on_the_view): the built buffers satisfy every
    precondition of the descent's contract (sizes, level function, child ranges inside the buffers with at most S slots, sibling
    tokens pairwise different) and their abstract view - the n-grams read off the root-to-node token paths with the stored
    log-probability / back-off - is the table, plus only (-inf, 0) entries (which the recursion treats like absent ones)."""
    import torch

    lm, oracle = build(case)
    V, sos, N, tab = oracle.V, oracle.sos, oracle.N, oracle.tab
    shift = 0 if 0 <= sos < V else 1
    off, ids, lps, lbs = lm.offsets.tolist(), lm.ids.tolist(), lm.logps.tolist(), lm.logbs.tolist()
    G, S = lm.max_ngram_nodes, lm.max_direct_descendants
    O = len(off)
    U = V + shift + (1 % N)
    P = O + G
    f32 = lambda v: torch.tensor(v, dtype=torch.float32).item()
    if not (len(ids) == O + G - U and len(lps) == P and len(lbs) == O and G >= 1 and (N == 1 or (O >= U and 0 <= S <= V + shift))):
        return "%s: buffer sizes O=%d G=%d S=%d U=%d ids=%d logps=%d logbs=%d break the descent's precondition" % (describe(tab), O, G, S, U, len(ids), len(lps), len(lbs))
    view = {}
    if N == 1:
        for w in range(V + shift):
            view[(w,)] = (lps[w], 0.0)
    else:
        level = {d: 1 for d in range(V + shift)}
        key_of = {d: (d,) for d in range(V + shift)}
        order = list(range(V + shift))
        i = 0
        while i < len(order):
            d = order[i]
            i += 1
            view[key_of[d]] = (lps[d], lbs[d] if level[d] < N else 0.0)
            if not 1 <= level[d] <= N - 1:
                continue
            if not (0 <= d and d + 1 < O):
                return "%s: node %d of level %d has no offsets entry after it (O = %d)" % (describe(tab), d, level[d], O)
            cs, ce = off[d] + d, off[d + 1] + d + 1
            if not (U <= cs <= ce <= P and ce - cs <= S):
                return "%s: node %d: child range [%d, %d) not inside [U=%d, P=%d) with at most S=%d slots" % (describe(tab), d, cs, ce, U, P, S)
            toks = [ids[p_ - U] for p_ in range(cs, ce)]
            if len(set(toks)) != len(toks):
                return "%s: node %d has two children with one token: %s" % (describe(tab), d, toks)
            for p_ in range(cs, ce):
                if p_ in level:
                    return "%s: position %d is a child of two nodes" % (describe(tab), p_)
                level[p_] = level[d] + 1
                key_of[p_] = (ids[p_ - U],) + key_of[d]
                order.append(p_)
    unmap = lambda key: tuple(sos if (shift and t == V) else t for t in key)
    view = {unmap(k): v for k, v in view.items()}
    for key, (lp, bo) in tab.items():
        got = view.get(key)
        want = (f32(lp), f32(bo) if len(key) < N else 0.0)
        if got is None or got[0] != want[0] or got[1] != want[1]:
            return "%s: listed n-gram %s (%r, %r) appears in the trie's view as %r" % (describe(tab), list(key), want[0], want[1], got)
    for key, (lp, bo) in view.items():
        if key not in tab and not (lp == NEG and bo == 0.0):
            return "%s: the trie's view holds %s = (%r, %r), which the table does not list" % (describe(tab), list(key), lp, bo)
    return None


def cases_trie_view(ctx):
    seen = set()
    for gen in (cases_full(ctx), reduced_tables(ctx, 5)):
        for c in gen:
            k = (c["V"], c["sos"], c["N"], c.get("present"), c.get("neginf", 0), repr(c.get("grams"))[:2000] if "grams" in c else None, repr(c.get("gen")) if "gen" in c else None)
            if k in seen:
                continue
            seen.add(k)
            yield c
    for c in cases_wide(ctx):
        yield c


def _n_grams(V, sos, N):
    return [len(x) for x in canonical_grams(V, sos, N)]


def _inf_mask(present, nbits, salt):
    """a deterministic pseudo-random subset of the present grams marked non-finite"""
    r = random.Random(present * 31 + salt)
    m = 0
    for b in range(nbits):
        if present >> b & 1 and r.random() < 0.3:
            m |= 1 << b
    return m


def enum_tables(V, sos, N, stride=1, offset=0, three_state_upto=0, inf_variants=1, T=None):
    """every subset of the canonical grams with a non-empty highest order (the constructor requires
    that); `stride` > 1 takes every stride-th subset. Orders <= three_state_upto are additionally
    enumerated over {absent, finite, -inf} per gram."""
    sizes = _n_grams(V, sos, N)
    nbits = sum(sizes)
    top = sizes[-1]
    low = nbits - top
    T = (N + 1) if T is None else T
    i = -1
    for present in range(1 << nbits):
        if not present >> low:
            continue
        i += 1
        if i % stride != offset % stride:
            continue
        base = {"V": V, "sos": sos, "N": N, "T": T, "present": present}
        if three_state_upto:
            bits3 = sum(sizes[:three_state_upto]) if three_state_upto < N else nbits
            pres_bits = [b for b in range(bits3) if present >> b & 1]
            for sub in range(1 << len(pres_bits)):
                ninf = 0
                for j, b in enumerate(pres_bits):
                    if sub >> j & 1:
                        ninf |= 1 << b
                yield dict(base, neginf=ninf)
        else:
            yield dict(base, neginf=0)
            for v in range(inf_variants):
                m = _inf_mask(present, nbits, v)
                if m:
                    yield dict(base, neginf=m)


def random_table_case(rng, exact=None, maxN=4, maxV=4, maxgrams=400):
    N = rng.randint(1, maxN)
    V = rng.randint(1, maxV)
    sos = rng.choice([rng.randrange(V), V, -1, V + 3, 1000])
    toks = _tokens(V, sos)
    dens = rng.choice([0.15, 0.4, 0.7, 1.0])
    exact = rng.random() < 0.5 if exact is None else exact
    grams = []
    for n in range(1, N + 1):
        keys = list(itertools.product(toks, repeat=n))
        if len(keys) > maxgrams:
            keys = rng.sample(keys, maxgrams)
        cur = [k for k in keys if rng.random() < dens]
        if n == N and not cur:
            cur = [rng.choice(keys)]
        for k in cur:
            if exact:
                lp = None if rng.random() < 0.15 else -rng.randrange(1, 400) / 4.0
                bo = rng.randrange(-600, 60) / 2048.0 if rng.random() < 0.85 else 0.0
            else:
                lp = None if rng.random() < 0.15 else -rng.random() * 12
                bo = rng.uniform(-2.0, 0.3) if rng.random() < 0.85 else 0.0
            grams.append([list(k), lp, bo if n < N else None])
    T = rng.randint(0, 6)
    case = {"V": V, "sos": sos, "N": N, "T": T, "grams": grams, "exact": exact, "contig": rng.random() < 0.5}
    htoks = hist_tokens(case)
    if len(htoks) ** T > 200:
        case["hists"] = [[rng.choice(htoks) for _ in range(T)] for _ in range(150)]
    return case


def _configs2():
    """the four configurations with two symbols in all"""
    return [(2, 0), (1, 1), (2, 1), (1, -1)]


def cases_full(ctx):
    """the table grids below, every fifth table once more with destructive=True"""
    for i, c in enumerate(_cases_full_tables(ctx)):
        yield c
        if i % 5 == 0:
            yield dict(c, destructive=True)


def _cases_full_tables(ctx):
    # (a) one symbol in all: V=1, sos=0; every order up to 5, three states per gram
    for N in range(1, 6):
        yield from enum_tables(1, 0, N, three_state_upto=N)
    # (b) two symbols in all, order <= 2: three states per gram; order 3: every subset, all finite and a -inf pattern
    for V, sos in _configs2():
        for N in (1, 2):
            yield from enum_tables(V, sos, N, three_state_upto=N)
    for j, (V, sos) in enumerate(_configs2()):
        yield from enum_tables(V, sos, 3, stride=8 if ctx.quick else 1, offset=ctx.seed + j, inf_variants=1 if ctx.quick else 3, T=4)
    # (c) three symbols in all, order 2: every subset
    for V, sos in [(3, 1), (2, 2)] + ([] if ctx.quick else [(3, 0), (3, 2), (2, -1), (2, 7)]):
        yield from enum_tables(V, sos, 2, inf_variants=1, T=3)
    # (d) seeded samples beyond the exhaustive bound: order 4 on two symbols, order 3 on three, order <= 4 random
    rng = random.Random(ctx.seed * 7919 + 1)
    n4 = 1500 if ctx.quick else 60000
    for _ in range(n4):
        V, sos = rng.choice(_configs2())
        nb = sum(_n_grams(V, sos, 4))
        p = rng.getrandbits(nb) & rng.getrandbits(nb) if rng.random() < 0.4 else rng.getrandbits(nb)
        if not p >> (nb - 16):
            p |= 1 << (nb - 1 - rng.randrange(16))
        yield {"V": V, "sos": sos, "N": 4, "T": 5, "present": p, "neginf": _inf_mask(p, nb, 1) if rng.random() < 0.5 else 0}
    for _ in range(1000 if ctx.quick else 40000):
        V, sos = rng.choice([(3, 0), (3, 2), (2, 2), (2, -1), (3, 3), (4, 1)])
        N = rng.choice([3, 3, 4] if V + (not 0 <= sos < V) <= 3 else [2, 3])
        nb = sum(_n_grams(V, sos, N))
        p = rng.getrandbits(nb)
        for _ in range(rng.randrange(3)):
            p &= rng.getrandbits(nb)
        top = _n_grams(V, sos, N)[-1]
        if not p >> (nb - top):
            p |= 1 << (nb - 1 - rng.randrange(top))
        yield {"V": V, "sos": sos, "N": N, "T": 4 if len(_tokens(V, sos)) <= 3 else 3, "present": p,
               "neginf": _inf_mask(p, nb, 2) if rng.random() < 0.5 else 0, "contig": rng.random() < 0.5}
    if not ctx.quick:
        # three states on orders 1-2 x every trigram subset, two symbols
        for V, sos in _configs2()[:2]:
            yield from enum_tables(V, sos, 3, three_state_upto=2, T=3)
        for _ in range(30000):
            yield random_table_case(rng)
    else:
        for _ in range(1000):
            yield random_table_case(rng)


def reduced_tables(ctx, salt):
    """the smaller table set used for the mode clauses (chunk sizes / idx forms / reload are then exhaustive per table)"""
    for N in range(1, 5):
        yield from enum_tables(1, 0, N, three_state_upto=N, T=4)
    for V, sos in _configs2():
        yield from enum_tables(V, sos, 1, three_state_upto=1, T=3)
        yield from enum_tables(V, sos, 2, stride=1 if not ctx.quick else 1, inf_variants=1, T=4)
    stride = 256 if ctx.quick else 6
    for V, sos in _configs2():
        yield from enum_tables(V, sos, 3, stride=stride, offset=ctx.seed + salt, inf_variants=1, T=4)
    rng = random.Random(ctx.seed * 104729 + salt)
    for _ in range(120 if ctx.quick else 6000):
        V, sos = rng.choice(_configs2() + [(3, 0), (2, 2), (2, -1)])
        N = 4 if len(_tokens(V, sos)) == 2 else rng.choice([2, 3])
        nb = sum(_n_grams(V, sos, N))
        p = rng.getrandbits(nb) & (rng.getrandbits(nb) if rng.random() < 0.5 else -1)
        top = _n_grams(V, sos, N)[-1]
        if not p >> (nb - top):
            p |= 1 << (nb - 1 - rng.randrange(top))
        yield {"V": V, "sos": sos, "N": N, "T": 5 if len(_tokens(V, sos)) == 2 else 3, "present": p, "neginf": _inf_mask(p, nb, 3) if rng.random() < 0.5 else 0}
    for _ in range(60 if ctx.quick else 3000):
        c = random_table_case(rng, maxV=3)
        c["T"] = min(c["T"], 4)
        if "hists" in c:
            c["hists"] = c["hists"][:40]
        yield c


def cases_chunked(ctx):
    yield from reduced_tables(ctx, 1)


def cases_idx(ctx):
    for i, c in enumerate(reduced_tables(ctx, 2)):
        if "hists" in c:
            c["hists"] = c["hists"][:24]
        if c["T"] > 4:
            c = dict(c, T=4)
        yield dict(c, rev=bool(i & 1))


def cases_reload(ctx):
    others = [{"N": 1, "present": 1}, {"N": 2, "present": 0b111111 if True else 0}, {"N": 3, "present": (1 << 14) - 1}]
    for i, c in enumerate(reduced_tables(ctx, 3)):
        V, sos = c["V"], c["sos"]
        o = dict(others[i % 3])
        nb = sum(_n_grams(V, sos, o["N"]))
        o["present"] = (1 << nb) - 1 if i % 2 else 1 << (nb - 1)
        yield dict(c, other=o)


def _wide(V, sos, N, sizes, shape, at, seed, T=3, **kw):
    return dict({"V": V, "sos": sos, "N": N, "T": T, "hseed": seed, "gen": {"sizes": sizes, "shape": shape, "at": at, "seed": seed}}, **kw)


def cases_wide(ctx):
    seed = ctx.seed
    for name, c in list(REGRESSIONS.items()) + ([] if ctx.quick else list(REGRESSIONS_THOROUGH.items())):
        yield dict(c, regression=name)
    # level 1 + level 2 around 2**8: V symbols, c bigrams; every placement of the children
    for s in (range(254, 259) if ctx.quick else range(253, 260)):
        for shape in ("first", "last", "spread"):
            for sos_out in (False, True):
                for c in (56, 20, 128 if s % 2 == 0 else 100):
                    vt = s - c
                    V = vt - (1 if sos_out else 0)
                    if c > vt and shape != "spread":
                        continue
                    yield _wide(V, V if sos_out else 0, 2, [c], shape, 2, seed + s, T=2, B=32)
    # level 2 + level 3 (3 + 4) around 2**8 in a trigram (4-gram) model over few symbols; with c = all tokens the pair is the widest of the table
    for s in (range(254, 259) if ctx.quick else range(253, 260)):
        for shape in ("first", "last", "spread"):
            for V, sos, c in ((16, 3, 6), (15, 15, 12), (20, -1, 3), (16, 0, 16), (15, -1, 16), (8, 8, 9)):
                if s - c <= (V + (0 if 0 <= sos < V else 1)) ** 2:
                    yield _wide(V, sos, 3, [s - c, c], shape, 3, seed + s, B=32)
            yield _wide(12, 0, 4, [40, s - 9, 9], shape, 4, seed + s, B=24)
            yield _wide(16, 5, 4, [16, s - 16, 16], shape, 4, seed + s, B=24)
    # plainly wide levels (> 255 nodes), ids wider than uint8 (V >= 255)
    for V, sos, N, sizes in [(20, 0, 2, [400]), (20, 20, 3, [300, 500]), (7, 2, 4, [49, 300, 600]), (300, 0, 2, [90]), (254, 254, 2, [300]),
                             (255, 3, 3, [260, 40]), (256, 256, 2, [255]), (40, 1, 3, [1600, 800])]:
        yield _wide(V, sos, N, sizes, "spread", 2, seed, inf_every=7, reload=True, B=32)
        yield _wide(V, sos, N, sizes, "spread", 2, seed + 1, B=32)
    if ctx.quick:
        return
    # level sums around 2**15 (bigram level + trigram level; a single node cannot have 2**14 children at a bearable cost)
    for s in range(32765, 32771):
        for shape in ("first", "last", "spread"):
            yield _wide(200, 0, 3, [s - 68, 68], shape, 3, seed + s, B=32, all_ctx=False)
            yield _wide(199, -1, 3, [s - 200, 200], shape, 3, seed + s, B=32, all_ctx=False)
    yield _wide(190, 190, 2, [34000], "spread", 2, seed, T=2, B=32, reload=True)
    yield _wide(200, 5, 3, [33000, 34000], "spread", 2, seed, B=32, inf_every=5, reload=True)
    yield _wide(60, -1, 4, [3000, 33000, 2000], "spread", 2, seed, B=32)
    rng = random.Random(seed + 5)
    for _ in range(60):
        V = rng.choice([17, 30, 64, 130, 260])
        sos = rng.choice([0, V, -1, V - 1])
        N = rng.choice([2, 3, 3, 4])
        vt = len(_tokens(V, sos))
        sizes, prev = [], vt
        for _n in range(N - 1):
            prev = rng.randint(1, min(prev * vt, 1500))
            sizes.append(prev)
        yield _wide(V, sos, N, sizes, rng.choice(["first", "last", "spread"]) if sizes[-1] <= vt else "spread", N, rng.randrange(10 ** 6), B=32, inf_every=rng.choice([0, 3, 9]), reload=True)


def _arpa_variants(i):
    """a deterministic walk through the option grid, so that every option value meets every table"""
    return {"base": [None, False, True][i % 3], "ids": (i // 3) % 3, "tab": bool((i // 9) % 2), "path": (i // 18) % 8 == 7,
            "preamble": bool((i // 2) % 2), "shuffle": bool((i // 5) % 2), "ftype": ["float", "float", "f64", "f32"][(i // 7) % 4]}


def cases_arpa(ctx):
    # two tokens, order <= 2: every non-empty-per-order subset x the whole option grid
    i = 0
    for N in (1, 2):
        sizes = [2 ** n for n in range(1, N + 1)]
        nb = sum(sizes)
        for p in range(1 << nb):
            if any(not (p >> sum(sizes[:k]) & ((1 << sizes[k]) - 1)) for k in range(N)):
                continue
            for base in (None, False, True):
                for ids in (0, 1, 2):
                    for tab in (False, True):
                        for all_bo in (False, True):
                            yield {"ntok": 2, "N": N, "present": p, "base": base, "ids": ids, "tab": tab, "all_bo": all_bo, "salt": i % 5,
                                   "path": i % 16 == 0, "ftype": "float", "preamble": bool(i & 2), "shuffle": bool(i & 4)}
                            i += 1
    # two tokens, order 3: every subset, options walked
    sizes = [2, 4, 8]
    stride = 1
    for p in range(0, 1 << 14, 1):
        if any(not (p >> sum(sizes[:k]) & ((1 << sizes[k]) - 1)) for k in range(3)):
            continue
        i += 1
        if i % stride:
            continue
        yield dict({"ntok": 2, "N": 3, "present": p, "salt": i % 11}, **_arpa_variants(i))
    rng = random.Random(ctx.seed + 77)
    for _ in range(4000 if ctx.quick else 60000):
        ntok = rng.randint(1, 7)
        N = rng.randint(1, 4 if ntok <= 4 else 3)
        sizes = [ntok ** n for n in range(1, N + 1)]
        p = 0
        off = 0
        for sz in sizes:
            m = rng.getrandbits(sz)
            if rng.random() < 0.5:
                m &= rng.getrandbits(sz)
            if not m:
                m = 1 << rng.randrange(sz)
            p |= m << off
            off += sz
        yield dict({"ntok": ntok, "N": N, "present": p, "salt": rng.randrange(1000), "all_bo": rng.random() < 0.3}, **_arpa_variants(rng.randrange(10 ** 6)))


def cases_arpa_model(ctx):
    rng = random.Random(ctx.seed + 99)
    for _ in range(1500 if ctx.quick else 20000):
        ntok = rng.randint(2, 3)
        N = rng.randint(1, 3)
        sizes = [ntok ** n for n in range(1, N + 1)]
        p, off = 0, 0
        for sz in sizes:
            m = rng.getrandbits(sz) or 1
            p |= m << off
            off += sz
        yield {"ntok": ntok, "N": N, "present": p, "salt": rng.randrange(1000), "sos_tok": rng.randrange(ntok), "sos_out": rng.random() < 0.5,
               "base": rng.random() < 0.7, "T": 3, "tab": rng.random() < 0.5}


# ---------------------------------------------------------------------------------------------
# known findings (none open) and regression witnesses of repaired defects


def _wrap_class(case, msg=""):
    """the widest pair of adjacent levels has (#k-grams + #(k+1)-grams) exactly 2**8 / 2**15 / 2**31 and its
    (k+1)-grams all hang under the first k-gram in trie order (keys reversed, sos mapped to V)"""
    try:
        V, sos, N, tab = table_of(case)
    except Exception:
        return False
    m = (lambda t: V if (t == sos and not 0 <= sos < V) else t)
    levels = [set() for _ in range(N)]
    for t in _tokens(V, sos):
        levels[0].add((t,))
    for key in tab:
        for j in range(len(key)):  # the constructor adds every missing suffix
            levels[len(key) - j - 1].add(key[j:])
    sums = [len(levels[k - 1]) + len(levels[k]) for k in range(1, N)]
    if not sums or max(sums) not in (2 ** 8, 2 ** 15, 2 ** 31):
        return False
    for k in range(1, N):
        lo, hi = levels[k - 1], levels[k]
        if len(lo) + len(hi) != max(sums) or len(lo) < 2:
            continue
        first = min(lo, key=lambda key: tuple(m(t) for t in key[::-1]))
        if all(key[1:] == first for key in hi):
            return True
    return False


# Witnesses of defects that have since been repaired in /repo; kept as named regression cases of
# C06.katz.wide_levels (yielded first by cases_wide in both tiers).
#   offsets_dtype_one_too_small (fixed in /repo 20fa919): _build_trie chose the offsets integer width from
#   len(level k)+len(level k+1)-1 while trailing childless nodes are back-filled with offsets up to
#   len(level k)+len(level k+1); a sum of exactly 2**8 / 2**15 with every (k+1)-gram under the first k-gram
#   (the class _wrap_class decides) wrapped an offset to 0 -> IndexError or silently wrong values.
REGRESSIONS = {
    "offsets_dtype_one_too_small.uint8.wrong_values": {"V": 128, "sos": 0, "N": 2, "T": 2, "hseed": 0, "B": 32, "gen": {"sizes": [128], "shape": "first", "at": 2, "seed": 0}},
    "offsets_dtype_one_too_small.uint8.index_error": {"V": 200, "sos": 0, "N": 2, "T": 2, "hseed": 256, "B": 32, "gen": {"sizes": [56], "shape": "first", "at": 2, "seed": 256}},
    "offsets_dtype_one_too_small.uint8.sos_outside": {"V": 235, "sos": 235, "N": 2, "T": 2, "hseed": 256, "B": 32, "gen": {"sizes": [20], "shape": "first", "at": 2, "seed": 256}},
    "offsets_dtype_one_too_small.uint8.level3": {"V": 15, "sos": -1, "N": 3, "T": 3, "hseed": 256, "B": 32, "gen": {"sizes": [240, 16], "shape": "first", "at": 3, "seed": 256}},
    "offsets_dtype_one_too_small.uint8.level4": {"V": 16, "sos": 5, "N": 4, "T": 3, "hseed": 256, "B": 24, "gen": {"sizes": [16, 240, 16], "shape": "first", "at": 4, "seed": 256}},
}
REGRESSIONS_THOROUGH = {
    "offsets_dtype_one_too_small.int16": {"V": 199, "sos": -1, "N": 3, "T": 3, "hseed": 32768, "B": 32, "all_ctx": False,
                                          "gen": {"sizes": [32568, 200], "shape": "first", "at": 3, "seed": 32768}},
}
FINDINGS = []
KNOWN_MATCH = {}

CHECKERS = {
    "C06.trie.view": check_trie_view,
    "C06.katz.full": check_full,
    "C06.katz.chunked": check_chunked,
    "C06.katz.idx": check_idx,
    "C06.katz.reload": check_reload,
    "C06.katz.wide_levels": check_wide,
    "C06.arpa.exact": check_arpa,
    "C06.arpa.model": check_arpa_model,
}


def _sparse(case):
    """non-trivial: order >= 2 and the table is not dense-and-finite (some lookup has to back off)"""
    if case["N"] < 2:
        return False
    if "present" in case:
        nb = sum(_n_grams(case["V"], case["sos"], case["N"]))
        return case["present"] != (1 << nb) - 1 or bool(case.get("neginf"))
    return True


def run_bounded(ctx):
    ctx.known_match.update(KNOWN_MATCH)
    q = ctx.quick
    only = getattr(ctx, "only", None)

    class _Sel:  # honour ./check --only (development aid): skip clauses whose name matches no given prefix
        def bounded(self, name, *a, **k):
            if only and not any(name.startswith(p) for p in only):
                return None
            return _ctx.bounded(name, *a, **k)

    _ctx, ctxb = ctx, _Sel()
    fn = ["_lm.LookupLanguageModel.__init__", "_lm.LookupLanguageModel._build_trie", "_lm._lookup_calc_idx_log_probs",
          "_lm.LookupLanguageModel.calc_idx_log_probs", "_lm.SequentialLanguageModel.forward"]
    ctxb.bounded("C06.katz.full", check_full, cases_full(ctx),
                bound="EXHAUSTIVE: 1 symbol (V=1,sos=0) orders 1..5 x {absent,finite,-inf} per gram; 2 symbols in all ((V,sos) in (2,0),(1,1),(2,1),(1,-1)) "
                      "orders 1..2 x {absent,finite,-inf} per gram; order 3: %s of the 14 grams for all four (V,sos), each all-finite and with %d hashed -inf pattern(s); "
                      "3 symbols, order 2: every subset of the 12 grams for %s; every history of length 0..N+1 (order 3: 0..4) over vocabulary plus sos when outside it. "
                      "SAMPLED (seeded): %d order-4 tables on 2 symbols (histories 0..5), %d order 2..4 tables on 3..5 symbols, %d random-float tables order 1..4, V 1..4, "
                      "sos in {in-vocab, V, -1, V+3, 1000}%s" % (
                          "every 8th subset (residue chosen by VERIF_SEED; NOT exhaustive at order 3 in this tier)" if q else "every subset", 1 if q else 3, "(3,1),(2,2)" if q else "6 (V,sos) pairs",
                          1500 if q else 60000, 1000 if q else 40000, 1000 if q else 30000, "" if q else "; plus orders 1-2 three-state x every trigram subset for (2,0),(1,1)"),
                text="lm(hist)[t, b, w] == Katz back-off recursion on the dict (present-and-finite -> listed value; else back-off of the context (0 if absent) + value for "
                     "the context minus its oldest token; left-padded with sos), for every prefix of every history",
                nontrivial=_sparse, chunk=256, functions=fn)
    ctxb.bounded("C06.katz.chunked", check_chunked, cases_chunked(ctx),
                bound="tables: 1 symbol orders 1..4 three-state; 2 symbols order 1 three-state, order 2 every subset (+ -inf pattern), order 3 every %d-th subset of each (V,sos); %d sampled order 2..4 "
                      "tables, %d random-float tables; per table EVERY T in 0..4 (0..5 for sampled order 4), EVERY chunk_size in 1..T+2, contiguous and transposed-view hist, all histories of length T"
                      % (256 if q else 6, 120 if q else 6000, 60 if q else 3000),
                text="calc_full_log_probs_chunked(hist, {}, chunk_size) == oracle at all positions, for every chunk size",
                nontrivial=_sparse, chunk=16, functions=["_lm.LookupLanguageModel.calc_full_log_probs_chunked", "_lm._lookup_calc_idx_log_probs"])
    ctxb.bounded("C06.katz.idx", check_idx, cases_idx(ctx),
                bound="same table set as C06.katz.chunked; per table: EVERY python-int idx in -T-1..T, 0-dim and 1-element tensor idx 0..T, per-element idx: all (history, idx) pairs with idx >= m in "
                      "one batch for every m in 0..T (both batch orders across cases), batch-of-one with 1-element idx; T <= 4",
                text="lm(hist, idx=...)[0][b] == oracle after hist[:idx[b], b]",
                nontrivial=_sparse, chunk=16, functions=["_lm.SequentialLanguageModel.forward", "_lm._lookup_calc_idx_log_probs"])
    ctxb.bounded("C06.katz.reload", check_reload, cases_reload(ctx),
                bound="same table set as C06.katz.chunked; state_dict -> torch.save -> torch.load -> load_state_dict into (i) LookupLanguageModel(V, sos) and (ii) an instance "
                      "built from a different table (order 1..3, dense or single-gram); then full, chunked(2, T+1) and per-element idx outputs",
                text="a freshly constructed instance that loads the saved state gives the oracle's numbers (and bit-identical output, max_ngram inferred)",
                nontrivial=_sparse, chunk=32, functions=["_lm.LookupLanguageModel.load_state_dict", "_lm.LookupLanguageModel._infer_max_direct_descendants"])
    ctxb.bounded("C06.katz.wide_levels", check_wide, cases_wide(ctx),
                bound="named regression witnesses of the repaired offsets-width defect; generated closed tables: (#k-grams + #(k+1)-grams) in %s for k=1 (order 2, V up to 239), k=2 (order 3), k=3 (order 4) with the (k+1)-grams all under the "
                      "first / last k-gram or spread; levels of 300..1600 nodes; V in {254,255,256,300} (ids wider than uint8)%s; 32 listed-context + 16 random histories of length T<=3 (+ all "
                      "contexts for order 2); full, chunked, per-element idx, reload" % (
                          "254..258" if q else "253..259", "" if q else "; level sums 32765..32770 (order 3, V=200), levels of 33000-34000 nodes, 60 random shapes"),
                text="same contract as C06.katz.full on tables that cross the integer widths chosen for offsets/ids (bounded stand-in for C06.trie.offset_types)",
                chunk=1, functions=["_lm.LookupLanguageModel._build_trie"])
    ctxb.bounded("C06.trie.view", check_trie_view, cases_trie_view(ctx),
                bound="the table sets of C06.katz.full, C06.katz.chunked and C06.katz.wide_levels (exhaustive small tables, sampled larger ones, levels that cross the integer widths)",
                text="run-time contract on _build_trie: the built buffers satisfy every precondition of C06.P.descent_is_katz_on_the_view (sizes, level function, child ranges inside the buffers with at most "
                     "max_direct_descendants slots, sibling tokens pairwise different) and the abstract view of the trie (n-grams read off the token paths, stored log-probability / back-off) is the table plus only (-inf, 0) entries",
                nontrivial=_sparse, chunk=256, functions=["_lm.LookupLanguageModel._build_trie", "_lm.LookupLanguageModel._infer_max_direct_descendants"])
    fa = ["_parsing.parse_arpa_lm"]
    ctxb.bounded("C06.arpa.exact", check_arpa, cases_arpa(ctx),
                bound="EXHAUSTIVE: tokens {a,b}, orders 1..2, every choice of listed n-grams (each order non-empty) x to_base_e in {default,False,True} x token2id in {none,identity-like,"
                      "sparse ids} x tab/space x explicit/partly-implicit back-offs; order 3: every subset with the options walked. SAMPLED: %d files over 1..7 tokens "
                      "(incl. <s>, </s>, a numeral, an apostrophe, a non-ASCII token), orders 1..4, ftype float/np.float64/np.float32, path or stream, preamble, shuffled sections"
                      % (4000 if q else 60000),
                text="parse_arpa_lm(file) == the entries written (keys exactly; values == float(text) in base 10, float(text)*ln10 within 1e-14 rel. in base e; missing back-off = 0; "
                     "highest order plain floats)", chunk=256, functions=fa)
    ctxb.bounded("C06.arpa.model", check_arpa_model, cases_arpa_model(ctx),
                bound="%d sampled ARPA files over 2..3 tokens, orders 1..3, sos token in or out of the vocabulary, base e or 10; all histories of length 0..3" % (1500 if q else 20000),
                text="ARPA text -> parse_arpa_lm -> LookupLanguageModel gives the Katz recursion on the listed entries (tolerance 2e-5)",
                chunk=64, functions=fa + fn[:2])
    ctx.replay_known_witnesses()
    ctx.not_applicable.append("C06: tables of order > 5, vocabularies > 300 symbols, level sizes near 2**31 and CUDA devices are outside the enumerated bound; "
                              "TorchScript-compiled module instances (torch.jit.script(lm)) are not exercised, only the scripted helper the eager module calls")
    ctx.assume("enumerated tables use dyadic values (log-prob = -(1..509), back-off = k/4096) so that float32 sums are exact and model and oracle are compared with ==",
               "random-float tables are compared with tolerance 2e-5*(1+|x|) (float32 storage of the table)",
               "a unigram that is absent or listed as -inf has value -inf (nothing shorter to back off to)",
               "histories may contain the start symbol when it lies outside the vocabulary (the model maps it like the padding it adds itself)",
               "base-e ARPA values are compared with float(text)*ln(10) within 1e-14 relative (1e-6 for ftype=np.float32)")
