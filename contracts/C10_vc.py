"""C10, engine A part (S rung): chunk_token_sequences_by_slices on symbolic contents.

The real source (containment/overlap masks, boolean-mask selection, masked scatter, boundary shift) is executed over
symbolic (N,R,3) references, slices and lengths; the result is proved equal to the spec: the kept tokens are exactly
those whose known segment is contained in (or, with partial, overlaps) the slice, in order, ids unchanged, boundaries
re-expressed as offsets from the slice start unless retained; chunked_lens counts them.
"""
import z3

from vf.pyvc import api, ctensor as ct, interp as ip
from vf.pyvc.api import VC

M = "pydrobert.torch._feats"


def tok_vc(N, R, partial, retain, with_lens):
    import pydrobert.torch._feats as F

    name = "N%dR%d[partial=%s,retain=%s,ref_lens=%s]" % (N, R, partial, retain, "given" if with_lens else "omitted")

    def thunk(I):
        refs = ct.CT.symbolic("ref", (N, R, 3), "long")
        slices = ct.CT.symbolic("slice", (N, 2), "long")
        lens = ct.CT.symbolic("len", (N,), "long") if with_lens else None
        I.ex.ghost.update(refs=refs, slices=slices, lens=lens)
        return I.call(F.chunk_token_sequences_by_slices, [ct.CT(refs.a.copy(), "long"), slices, lens, partial, retain], {})

    def post(p):
        if not api.returns(p) or not isinstance(p.value, tuple) or len(p.value) != 2:
            return False
        out, out_lens = p.value
        refs, slices, lens = p.ghost["refs"], p.ghost["slices"], p.ghost["lens"]
        if out.shape != (N, R, 3) or out_lens.shape != (N,):
            return False
        goals = []
        for n in range(N):
            s, e = slices.a[n, 0], slices.a[n, 1]
            keep, cnt_before = [], []
            acc = z3.IntVal(0)
            for r in range(R):
                tok, a, b = refs.a[n, r, 0], refs.a[n, r, 1], refs.a[n, r, 2]
                k = z3.And(a >= 0, b >= 0, b >= a)  # segment known
                if lens is not None:
                    k = z3.And(k, r < lens.a[n])
                k = z3.And(k, z3.And(s < b, e > a) if partial else z3.And(s <= a, e >= b))
                keep.append(k)
                cnt_before.append(acc)
                acc = acc + z3.If(k, 1, 0)
            goals.append(("n%d.count" % n, ip.to_z3(out_lens.a[n]) == acc))
            for q in range(R):  # q-th output slot holds the q-th kept token
                for r in range(R):
                    sel = z3.And(keep[r], cnt_before[r] == q)
                    shift = 0 if retain else s
                    goals.append(("n%d.slot%d.from%d.id" % (n, q, r), z3.Implies(sel, ip.to_z3(out.a[n, q, 0]) == refs.a[n, r, 0])))
                    goals.append(("n%d.slot%d.from%d.bounds" % (n, q, r), z3.Implies(sel, z3.And(ip.to_z3(out.a[n, q, 1]) == refs.a[n, r, 1] - shift,
                                                                                                       ip.to_z3(out.a[n, q, 2]) == refs.a[n, r, 2] - shift))))
        return goals

    inputs = {}
    for n in range(N):
        inputs["slice_%d_0" % n], inputs["slice_%d_1" % n] = z3.Int("slice_%d_0" % n), z3.Int("slice_%d_1" % n)
        if with_lens:
            inputs["len_%d" % n] = z3.Int("len_%d" % n)
        for r in range(R):
            for c in range(3):
                inputs["ref_%d_%d_%d" % (n, r, c)] = z3.Int("ref_%d_%d_%d" % (n, r, c))
    return VC("C10.S.tok_chunks", name, M, "chunk_token_sequences_by_slices", thunk, posts=[("kept_tokens_in_order_slice_relative", post)],
              inputs=inputs, replay=lambda m: replay_tok(m, N, R, partial, retain, with_lens),
              assumptions=["torch contracts in vf/pyvc/ctensor.py incl. boolean-mask selection + masked_scatter as stable row-major compaction (differentially tested)"])


def replay_tok(m, N, R, partial, retain, with_lens):
    import torch
    from pydrobert.torch.functional import chunk_token_sequences_by_slices

    g = lambda k: int(m.get(k, 0))
    refs = torch.tensor([[[g("ref_%d_%d_%d" % (n, r, c)) for c in range(3)] for r in range(R)] for n in range(N)], dtype=torch.long).reshape(N, R, 3)
    slices = torch.tensor([[g("slice_%d_0" % n), g("slice_%d_1" % n)] for n in range(N)], dtype=torch.long)
    lens = torch.tensor([max(min(g("len_%d" % n), R), 0) for n in range(N)]) if with_lens else None
    out, out_lens = chunk_token_sequences_by_slices(refs.clone(), slices, lens, partial, retain)
    for n in range(N):
        s, e = slices[n].tolist()
        kept = []
        for r in range(R if lens is None else int(lens[n])):
            tok, a, b = refs[n, r].tolist()
            if a < 0 or b < 0 or b < a:
                continue
            if (s < b and e > a) if partial else (s <= a and e >= b):
                kept.append([tok, a - (0 if retain else s), b - (0 if retain else s)])
        if int(out_lens[n]) != len(kept) or out[n, :len(kept)].tolist() != kept:
            return "row %d: refs %s slice [%d,%d) partial=%s retain=%s -> %s (len %d), expected %s" % (
                n, refs[n].tolist(), s, e, partial, retain, out[n, :int(out_lens[n])].tolist(), int(out_lens[n]), kept)
    return None


def tok_p_vc(partial, retain):
    """P rung: chunk_token_sequences_by_slices for a SYMBOLIC batch size and number of tokens, lengths given. keep(n, r) - the
    property's selection - : r below the length, both boundaries known (>= 0), end >= start, and the segment contained in the slice
    (start_slice <= start and end <= end_slice) resp. overlapping it (start_slice < end and start < end_slice). With cnt(n, r) = number
    of kept tokens of sequence n before r (the partial sums of the code's own count):
        chunked_lens[n] = cnt(n, R);  a kept token r lands at position cnt(n, r) with its token id unchanged - and, when boundaries are
        retained, its boundaries unchanged.
    The slice-relative boundaries (retain=False) stay with the S rung: the pinned code adds the slice start instead of subtracting it
    (known finding KF-C10-1), which a P clause would only leave undecided.  Compaction contracts and inductions as in C09
    (contracts/C09_vc.py::prove_prefix_compaction, feature size 3)."""
    import pydrobert.torch._feats as FE
    from contracts import C09_vc
    from vf.pyvc import symtensor as stn

    z = ip.to_z3
    N, R, N0, R0, F0, N1, R1, F1, Q0 = z3.Ints("N R n0 r0 f0 n1 r1 f1 q0")
    Iz = z3.IntSort()
    REFS, SLI, RL = z3.Function("refs", Iz, Iz, Iz, Iz), z3.Function("slices", Iz, Iz, Iz), z3.Function("ref_lens", Iz, Iz)
    LIN = z3.Function("lin_3", Iz, Iz)
    F = z3.IntVal(3)
    lin_step = lambda i: LIN(i + 1) == LIN(i) + F
    i_ = z3.Int("i_q")
    tok, st_, en_ = (lambda n, r: REFS(n, r, 0)), (lambda n, r: REFS(n, r, 1)), (lambda n, r: REFS(n, r, 2))
    ss, se = (lambda n: SLI(n, 0)), (lambda n: SLI(n, 1))
    inside = (lambda n, r: z3.And(ss(n) < en_(n, r), se(n) > st_(n, r))) if partial else (lambda n, r: z3.And(ss(n) <= st_(n, r), se(n) >= en_(n, r)))
    KEEP = lambda n, r: z3.And(r < RL(n), st_(n, r) >= 0, en_(n, r) >= 0, en_(n, r) >= st_(n, r), inside(n, r))
    true_at = lambda n: z3.BoolVal(True)

    def thunk(I):
        I.stubs.update(stn.stubs())
        refs = stn.ST((N, R, 3), lambda a, b, c: REFS(z(a), z(b), z(c)), "long")
        slices = stn.ST((N, 2), lambda a, b: SLI(z(a), z(b)), "long")
        ref_lens = stn.ST((N,), lambda a: RL(z(a)), "long")
        prove = C09_vc.window_pair_prover(I, N, F, LIN, lin_step, true_at, (N0, Q0, F0), (N1, R1, F1))

        def hook(rec2, src):
            rec1 = getattr(src, "compaction", None)
            sums = [s_ for s_ in I.ex.ghost.get("sums", []) if s_.get("kind") == "sum"]
            if rec1 is None or rec1["rank_"] != 3 or rec2["rank_"] != 3 or len(sums) != 1 or "cnt" in I.ex.ghost:
                raise ip.Unsupported("chunk_token_sequences_by_slices: one count of the kept tokens and one scatter of the selected triples expected")
            I.ex.ghost["cnt"] = C09_vc.prove_prefix_compaction(I, rec1, rec2, sums[0], N, R, F, LIN, lin_step, KEEP, (N0, R0, F0, Q0), (N1, R1, F1), prove)

        I.ex.ghost["scatter_hooks"] = [hook]
        return I.call(FE.chunk_token_sequences_by_slices, [refs, slices, ref_lens, partial, retain], {})

    def post(p):
        if not api.returns(p) or not isinstance(p.value, tuple) or len(p.value) != 2 or "cnt" not in p.ghost:
            return False
        out, lens = p.value
        PS = p.ghost["cnt"]
        kept = z3.And(0 <= N0, N0 < N, 0 <= R0, R0 < R, KEEP(N0, R0))
        q = PS(N0, R0)
        goals = [("result_shape", z3.And(z3.BoolVal(len(out.shape) == 3 and len(lens.shape) == 1), z(out.shape[0]) == N, z(out.shape[1]) == R, z(out.shape[2]) == 3, z(lens.shape[0]) == N)),
                 ("reported_count_is_the_number_of_kept_tokens", z3.Implies(z3.And(0 <= N0, N0 < N), z(lens.elem(N0)) == PS(N0, R))),
                 # f0: a generic coordinate of the triple (0 = token id, 1 = start, 2 = end)
                 ("kept_token_lands_at_its_count_with_its_id", z3.Implies(z3.And(kept, F0 == 0), z3.And(q < PS(N0, R), z(out.elem(N0, q, F0)) == REFS(N0, R0, F0))))]
        if retain:
            goals.append(("retained_triple_is_unchanged", z3.Implies(kept, z(out.elem(N0, q, F0)) == REFS(N0, R0, F0))))
        return goals

    pre = [N >= 1, R >= 0, LIN(0) == 0, z3.ForAll([i_], lin_step(i_)), 0 <= F0, F0 < 3]
    return VC("C10.P.tok_chunks", "chunk_token_sequences_by_slices[partial=%s, retain=%s; symbolic N, R]" % (partial, retain), M, "chunk_token_sequences_by_slices", thunk, pre=pre,
              posts=[("kept_tokens_in_order", post)], inputs={"N": N, "R": R}, timeout_ms=40000, max_paths=64, witness_hints=[N == 1, R == 2],
              assumptions=["boolean-mask indexing / masked_scatter_ = stable row-major compaction through per-dimension counters, sum over a symbolic extent = partial sums (assumed contracts of vf/pyvc/symtensor.py, differentially tested against torch)",
                           "the inductions (count range, count growth, coefficients, frames, sequences) are applied outside the solver: base and step are obligations",
                           "lengths given; slice-relative boundaries (retain=False): S rung and bounded driver (known finding KF-C10-1)"])


def tok_p_vcs(ctx):
    return [tok_p_vc(partial, retain) for partial in (False, True) for retain in (True, False)]


def fixed_p_vc(window_type, valid_only, lobe):
    """P rung: slice_spect_data, policy 'fixed', in_lens omitted, for SYMBOLIC batch size N and frames T and one lobe size per VC.
    Documented policy: windows of `size` frames (2 lobe + 1 symmetric, else lobe + 1) every lobe + 1 frames; with valid_only those
    that fit in [0, T], otherwise those whose centre frame (symmetric: middle; causal: last; future: first) is a frame of the
    sequence, starting at (lobe + 1) // 2 - size // 2 (symmetric), -lobe (causal) or 0 (future). Proved: the number of windows per
    row is exactly the number the policy prescribes (every listed one qualifies, the next one does not), window i of row n sits at
    flat position n * TT + i with the prescribed bounds, and is labelled n."""
    import pydrobert.torch._feats as F
    from vf.pyvc import symtensor as stn

    N, T, F0, I0 = z3.Ints("N T flat0 i0")
    X = z3.Function("input", z3.IntSort(), z3.IntSort(), z3.RealSort())
    name = "slice_spect_data[fixed; symbolic N, T; window=%s, valid_only=%s, lobe=%d; in_lens omitted]" % (window_type, valid_only, lobe)
    stride = lobe + 1
    size = 2 * lobe + 1 if window_type == "symmetric" else lobe + 1
    if valid_only:
        s0, cond = 0, (lambda s_: s_ + size <= T)
    elif window_type == "symmetric":
        s0, cond = (lobe + 1) // 2 - size // 2, (lambda s_: s_ + size // 2 < T)
    elif window_type == "causal":
        s0, cond = -lobe, (lambda s_: s_ + size - 1 < T)
    else:
        s0, cond = 0, (lambda s_: s_ < T)
    start_of = lambda i: s0 + i * stride

    def thunk(I):
        I.stubs.update(stn.stubs())
        x = stn.ST((N, T), lambda a, b: X(ip.to_z3(a), ip.to_z3(b)), "float")
        return I.call(F.slice_spect_data, [x, None, None, "fixed", window_type, valid_only, lobe], {})

    def post(p):
        if not api.returns(p) or not isinstance(p.value, tuple) or len(p.value) != 2:
            return False
        slices, sources = p.value
        if not (hasattr(slices, "elem") and hasattr(sources, "elem")) or len(slices.shape) != 2 or len(sources.shape) != 1:
            return [("result_tensors", z3.BoolVal(False))]
        total = ip.to_z3(slices.shape[0])
        TT = z3.Int("windows_per_row")
        per_row = z3.And(TT >= 0, total == N * TT)
        i, n_ = F0 % TT, F0 / TT
        return [("shapes", z3.And(ip.to_z3(sources.shape[0]) == total, ip.to_z3(slices.shape[1]) == 2)),
                ("count_is_a_whole_number_of_rows", z3.Exists([TT], per_row)),
                ("every_listed_window_is_prescribed_and_the_next_is_not", z3.ForAll([TT], z3.Implies(per_row, z3.And(z3.Implies(z3.And(0 <= I0, I0 < TT), cond(start_of(I0))), z3.Not(cond(start_of(TT))))))),
                ("window_bounds_and_source", z3.ForAll([TT], z3.Implies(z3.And(per_row, TT >= 1, 0 <= F0, F0 < total),
                                                                       z3.And(ip.to_z3(slices.elem(F0, 0)) == start_of(i), ip.to_z3(slices.elem(F0, 1)) == start_of(i) + size, ip.to_z3(sources.elem(F0)) == n_))))]

    return VC("C10.P.fixed_windows", name, M, "slice_spect_data", thunk, pre=[N >= 1, T >= 1], posts=[("documented_fixed_policy", post)], inputs={"N": N, "T": T}, timeout_ms=60000,
              assumptions=["arange(start, stop, step) = ceil((stop - start) / step) elements start + i * step; stack / expand / flatten (row-major, two symbolic dimensions) as index functions (vf/pyvc/symtensor.py)",
                           "in_lens omitted (every row has T frames): with in_lens the kept windows are a data-dependent selection - bounded driver; the lobe size is enumerated (0..3), N and T are symbolic; T = 0 (empty result) is the bounded driver's"])


def p_vcs(ctx):
    out = []
    for lobe in ((0, 1, 2) if ctx.quick else (0, 1, 2, 3, 5)):
        for wt, vo in (("symmetric", True), ("symmetric", False), ("causal", True), ("causal", False), ("future", False)):
            out.append(fixed_p_vc(wt, vo, lobe))
    return out


def vcs(ctx):
    out = []
    shapes = [(1, 2), (2, 1)] if ctx.quick else [(1, 1), (1, 2), (1, 3), (2, 2)]
    for (N, R) in shapes:
        for partial in (False, True):
            for retain in (False, True):
                for wl in (True, False):
                    if ctx.quick and not wl and (N, R) != (1, 2):
                        continue
                    out.append(tok_vc(N, R, partial, retain, wl))
    return out
