"""C05, engine A part (S rung): one step of the CTC prefix search (`ctc_prefix_search_advance`) on symbolic masses.

The real source (candidate construction from the blank / non-blank mass split, merging of an extension into an identical
existing prefix, top-k, recovery of source and extension, growth of the prefixes, the prefix-relation matrix, filler slots) is
executed over symbolic probabilities and symbolic token ids for a beam of concrete small shape and concrete prefix lengths.
top-k has the assumed contract of vf/pyvc/ctensor.py (sorted, distinct in-range indices, unselected <= last selected, -inf
below every finite value, no tie rule).

Specification (the standard prefix-beam recursion for one frame), written per scalar and independently of the tensor code:
  extension of prefix k by v      nb' = (nb[k] * [v != last(k)] + b[k]) * ext[k, v],  b' = 0      -- void when prefix k + v is
                                                                                                  already a beam prefix k'
  keeping prefix k                nb' = nb[k] * nonext[last(k)] + SUM of the void extensions that equal prefix k,
                                  b'  = (nb[k] + b[k]) * blank
Proved for all contents: every output slot below K = min(width, K' (V + 1)) is one such candidate with exactly these masses,
its tokens / length / last token are the candidate's; selected candidates are pairwise distinct, best-first by total mass and no
unselected candidate beats a selected one (void candidates count as -inf); the new prefix-relation matrix is the prefix relation
of the new prefixes restricted to slots of mass > -inf; slots beyond K carry -inf mass, length 0 and no prefix relations.
"""
import itertools

import z3

from vf.pyvc import api, ctensor as ct, interp as ip
from vf.pyvc.api import VC

M = "pydrobert.torch._decoding"


def adv_vc(Kp, V, tm1, lens, width):
    import pydrobert.torch._decoding as D

    N = 1
    name = "Kp%dV%dS%dlens%sW%d" % (Kp, V, tm1, "".join(map(str, lens)), width)
    ext = ct.CT.symbolic("ext", (N, Kp, V), "float")
    nonext = ct.CT.symbolic("nonext", (N, V), "float")
    blank = ct.CT.symbolic("blank", (N,), "float")
    nb = ct.CT.symbolic("nb", (N, Kp), "float")
    b = ct.CT.symbolic("b", (N, Kp), "float")
    y = ct.CT.symbolic("y", (tm1, N, Kp), "long")
    last = ct.CT.symbolic("last", (N, Kp), "long")
    n = 0
    Y = lambda t, k: y.a[t, n, k]
    LAST = lambda k: last.a[n, k]

    def is_prefix(k, k2):  # prefix k is a (non-strict) prefix of prefix k2
        if lens[k] > lens[k2]:
            return z3.BoolVal(False)
        return z3.And([Y(t, k) == Y(t, k2) for t in range(lens[k])]) if lens[k] else z3.BoolVal(True)

    same = lambda k, k2: z3.And(is_prefix(k, k2), z3.BoolVal(lens[k] == lens[k2]))
    pre = [x >= 0 for x in list(ext.a.reshape(-1)) + list(nonext.a.reshape(-1)) + list(blank.a.reshape(-1)) + list(nb.a.reshape(-1)) + list(b.a.reshape(-1))]
    for k in range(Kp):
        pre += [z3.And(Y(t, k) >= 0, Y(t, k) < V) for t in range(lens[k])]
        if lens[k]:
            pre.append(LAST(k) == Y(lens[k] - 1, k))
        else:
            pre.append(nb.a[n, k] == 0)  # no path ending in a label collapses to the empty prefix
        for k2 in range(k + 1, Kp):
            pre.append(z3.Not(same(k, k2)))  # beam prefixes are pairwise distinct

    # ---- the specification, per scalar ----------------------------------------------------------------------------------------
    def ext_mass(k, v):
        keep_nb = z3.If(z3.And(z3.BoolVal(lens[k] > 0), LAST(k) == v), z3.RealVal(0), nb.a[n, k])
        return (keep_nb + b.a[n, k]) * ext.a[n, k, v]

    def merged(k, v):  # prefix k + v is already beam prefix k2
        return z3.Or([z3.And(is_prefix(k, k2), Y(lens[k], k2) == v) for k2 in range(Kp) if lens[k2] == lens[k] + 1] or [z3.BoolVal(False)])

    def keep_nb_mass(k):
        own = z3.Sum([z3.If(LAST(k) == v, nb.a[n, k] * nonext.a[n, v], z3.RealVal(0)) for v in range(V)]) if lens[k] else z3.RealVal(0)
        absorbed = [z3.If(is_prefix(k2, k), z3.Sum([z3.If(Y(lens[k2], k) == v, ext_mass(k2, v), z3.RealVal(0)) for v in range(V)]), z3.RealVal(0))
                    for k2 in range(Kp) if lens[k2] + 1 == lens[k]]
        return own + (z3.Sum(absorbed) if absorbed else z3.RealVal(0))

    keep_b_mass = lambda k: (nb.a[n, k] + b.a[n, k]) * blank.a[n]

    def thunk(I):
        isp = ct.obj_array(False, (N, Kp, Kp))
        for k in range(Kp):
            for k2 in range(Kp):
                isp[n, k, k2] = z3.simplify(is_prefix(k, k2))
        lens_t = ct.obj_array(0, (N, Kp))
        for k in range(Kp):
            lens_t[n, k] = lens[k]

        def trunc_divide(I2, a, k):
            x, d = a
            return ct.CT.ew(lambda u: ip.to_z3(u) / d if ct.is_z3(u) else u // d, x, dtype="long")  # indices are non-negative: trunc = floor

        I.contracts["pydrobert.torch._compat.trunc_divide"] = trunc_divide
        return I.call(D.ctc_prefix_search_advance, [(ext, nonext, blank), width, (nb, b), y, last, ct.CT(lens_t, "long"), ct.CT(isp, "bool")], {})

    K = min(width, Kp * (V + 1))
    B = lambda c: z3.BoolVal(c) if isinstance(c, bool) else c

    def post(p):
        if not api.returns(p) or not isinstance(p.value, tuple) or len(p.value) != 7:
            return False
        y2, last2, lens2, probs2, isp2, src2, non2 = p.value
        nb2, b2 = probs2
        want = [(tm1 + 1, N, width), (N, width), (N, width), (N, width), (N, width), (N, width, width), (N, width), (N, width)]
        got = [tuple(x.shape) for x in (y2, last2, lens2, nb2, b2, isp2, src2, non2)]
        if got != want:
            return [("shapes", z3.BoolVal(False))]
        goals = []
        tot, valid, ident = [], [], []
        for j in range(width):
            f1, v1 = ct.ng_split(nb2.a[n, j])
            f2, v2 = ct.ng_split(b2.a[n, j])
            ninf = z3.Or(B(f1), B(f2))
            tot.append(ct.NegGuarded(z3.simplify(ninf), ip.to_z3(v1) + ip.to_z3(v2)))
            valid.append(z3.Not(ninf))
        for j in range(K):
            s_, non, tok, ln = ip.to_z3(src2.a[n, j]), B(non2.a[n, j]), ip.to_z3(last2.a[n, j]), ip.to_z3(lens2.a[n, j])
            ident.append((s_, non, tok))
            cases = [z3.And(s_ >= 0, s_ < Kp)]
            f1, v1 = ct.ng_split(nb2.a[n, j])
            f2, v2 = ct.ng_split(b2.a[n, j])
            f1, f2, v1, v2 = B(f1), B(f2), ip.to_z3(v1), ip.to_z3(v2)
            for a in range(Kp):
                toks_kept = [ip.to_z3(y2.a[t, n, j]) == Y(t, a) for t in range(lens[a])]
                cases.append(z3.Implies(z3.And(s_ == a, non), z3.And(
                    [z3.Not(f1), z3.Not(f2), v1 == keep_nb_mass(a), v2 == keep_b_mass(a), ln == lens[a]] + toks_kept + ([tok == LAST(a)] if lens[a] else []))))
                for v in range(V):
                    grown = toks_kept + [ip.to_z3(y2.a[lens[a], n, j]) == v, ln == lens[a] + 1, z3.Not(f2), v2 == 0]
                    cases.append(z3.Implies(z3.And(s_ == a, z3.Not(non), tok == v), z3.And(
                        grown + [z3.If(merged(a, v), f1, z3.And(z3.Not(f1), v1 == ext_mass(a, v)))])))
            cases.append(z3.Implies(z3.Not(non), z3.And(tok >= 0, tok < V)))
            goals.append(("slot%d.is_a_candidate_with_the_recursion_masses" % j, z3.And(cases)))
            if j:
                goals.append(("slot%d.best_first" % j, ct.ng_cmp("ge", tot[j - 1], tot[j])))
        # optimality: a candidate that was not selected does not beat the last selected one
        if K:
            for a in range(Kp):
                sel = z3.Or([z3.And(ident[j][0] == a, ident[j][1]) for j in range(K)])
                goals.append(("keep%d.selected_or_not_better" % a, z3.Or(sel, ct.ng_cmp("le", keep_nb_mass(a) + keep_b_mass(a), tot[K - 1]))))
                for v in range(V):
                    sel = z3.Or([z3.And(ident[j][0] == a, z3.Not(ident[j][1]), ident[j][2] == v) for j in range(K)])
                    goals.append(("ext%d_%d.selected_or_void_or_not_better" % (a, v), z3.Or(sel, merged(a, v), ct.ng_cmp("le", ext_mass(a, v), tot[K - 1]))))
        for i in range(K):
            for j in range(i + 1, K):
                (s1, n1, t1), (s2, n2, t2) = ident[i], ident[j]
                goals.append(("slots%d_%d.distinct_candidates" % (i, j), z3.Or(s1 != s2, n1 != n2, z3.And(z3.Not(n1), t1 != t2))))
        # the new prefix relation: by cases on which candidates the two slots hold
        for i in range(K):
            for j in range(K):
                cases = []
                for a, na, c, nc in itertools.product(range(Kp), (True, False), range(Kp), (True, False)):
                    li, lj = lens[a] + (0 if na else 1), lens[c] + (0 if nc else 1)
                    rel = z3.And([ip.to_z3(y2.a[t, n, i]) == ip.to_z3(y2.a[t, n, j]) for t in range(li)]) if li <= lj and li else z3.BoolVal(li <= lj)
                    cond = z3.And(ident[i][0] == a, ident[i][1] == na, ident[j][0] == c, ident[j][1] == nc)
                    cases.append(z3.Implies(cond, B(isp2.a[n, i, j]) == z3.And(valid[i], valid[j], rel)))
                goals.append(("is_prefix_%d_%d" % (i, j), z3.And(cases)))
        for j in range(K, width):
            f1, _ = ct.ng_split(nb2.a[n, j])
            f2, _ = ct.ng_split(b2.a[n, j])
            none = [z3.Not(B(isp2.a[n, i, j])) for i in range(width)] + [z3.Not(B(isp2.a[n, j, i])) for i in range(width)]
            goals.append(("slot%d.filler" % j, z3.And([B(f1), B(f2), ip.to_z3(lens2.a[n, j]) == 0] + none)))
        return goals

    def twin(p):  # must fail: "the blank mass of a kept prefix is its non-blank mass times blank"
        if not api.returns(p) or len(p.value) != 7:
            return None
        nb2, b2 = p.value[3]
        s_, non = ip.to_z3(p.value[5].a[n, 0]), B(p.value[6].a[n, 0])
        f2, v2 = ct.ng_split(b2.a[n, 0])
        return z3.And([z3.Implies(z3.And(s_ == a, non), ip.to_z3(v2) == nb.a[n, a] * blank.a[n]) for a in range(Kp)])

    inputs = {}
    for t_, nm in ((ext, "ext"), (nonext, "nonext"), (blank, "blank"), (nb, "nb"), (b, "b"), (y, "y"), (last, "last")):
        for pos in itertools.product(*[range(d) for d in t_.shape]):
            inputs["%s_%s" % (nm, "_".join(map(str, pos)))] = t_.a[pos]
    return VC("C05.S.advance_step", name, M, "ctc_prefix_search_advance", thunk, pre=pre, posts=[("prefix_beam_recursion_step", post)], twins=[("blank_mass_from_nonblank_only", twin)],
              inputs=inputs, replay=lambda m: replay_adv(m, Kp, V, tm1, lens, width), timeout_ms=60000,
              assumptions=["topk contract (vf/pyvc/ctensor.py): sorted, distinct in-range indices, unselected <= last selected, -inf smallest; no tie rule",
                           "one batch element; every incoming beam slot holds a real prefix (pairwise distinct, is_prefix = their prefix relation, nb = 0 for the empty prefix); tokens beyond a prefix's length are arbitrary integers",
                           "probabilities are non-negative reals; float arithmetic treated as real arithmetic (nonlinear: products of masses)"])


def replay_adv(m, Kp, V, tm1, lens, width):
    """native replay: one call on the model's tensors against the scalar recursion"""
    import math
    import warnings

    import torch
    from pydrobert.torch.functional import ctc_prefix_search_advance

    def g(name, pos, default=0):
        v = m.get("%s_%s" % (name, "_".join(map(str, pos))))
        return default if v is None else v

    f = lambda name, shape: torch.tensor([float(g(name, pos)) for pos in itertools.product(*[range(d) for d in shape])], dtype=torch.float64).view(shape)
    li = lambda name, shape: torch.tensor([int(g(name, pos)) for pos in itertools.product(*[range(d) for d in shape])], dtype=torch.long).view(shape)
    ext, nonext, blank, nb, b = f("ext", (1, Kp, V)), f("nonext", (1, V)), f("blank", (1,)), f("nb", (1, Kp)), f("b", (1, Kp))
    y, last = li("y", (tm1, 1, Kp)), li("last", (1, Kp))
    if (y.abs() > 2 ** 40).any() or (last.abs() > 2 ** 40).any():
        return None
    P = [tuple(int(y[t, 0, k]) for t in range(lens[k])) for k in range(Kp)]
    isp = torch.tensor([[[P[k2][:len(P[k])] == P[k] for k2 in range(Kp)] for k in range(Kp)]])
    with warnings.catch_warnings():
        warnings.simplefilter("ignore")
        out = ctc_prefix_search_advance((ext, nonext, blank), width, (nb, b), y, last, torch.tensor([lens]), isp)
    y2, last2, lens2, (nb2, b2), isp2, src2, non2 = out
    cand = {}
    for k in range(Kp):
        own = float(nb[0, k] * nonext[0, P[k][-1]]) if P[k] else 0.0
        cand[P[k]] = [own, float((nb[0, k] + b[0, k]) * blank[0])]
    void = set()
    for k in range(Kp):
        for v in range(V):
            mass = float(((0.0 if P[k] and P[k][-1] == v else nb[0, k]) + b[0, k]) * ext[0, k, v])
            if P[k] + (v,) in [P[k2] for k2 in range(Kp)]:
                cand[P[k] + (v,)][0] += mass
                void.add((k, v))
    for k in range(Kp):
        for v in range(V):
            if (k, v) not in void:
                mass = float(((0.0 if P[k] and P[k][-1] == v else nb[0, k]) + b[0, k]) * ext[0, k, v])
                cand[P[k] + (v,)] = [mass, 0.0]
    K = min(width, Kp * (V + 1))
    seen = set()
    for j in range(width):
        t = float(nb2[0, j] + b2[0, j])
        if math.isnan(t):
            return "slot %d has NaN mass" % j
        if t == -math.inf:
            continue
        pj = tuple(int(y2[i, 0, j]) for i in range(int(lens2[0, j])))
        if pj not in cand:
            return "slot %d holds %s with mass %r, which is not a candidate of the recursion (%s)" % (j, pj, t, sorted(cand))
        if pj in seen:
            return "prefix %s is returned twice with mass > -inf" % (pj,)
        seen.add(pj)
        want = cand[pj]
        if abs(float(nb2[0, j]) - want[0]) > 1e-9 * max(1, abs(want[0])) or abs(float(b2[0, j]) - want[1]) > 1e-9 * max(1, abs(want[1])):
            return "slot %d prefix %s: masses (nb=%r, b=%r), the recursion gives (nb=%r, b=%r)" % (j, pj, float(nb2[0, j]), float(b2[0, j]), want[0], want[1])
    live = [j for j in range(width) if float(nb2[0, j] + b2[0, j]) > -math.inf]
    pref = {j: tuple(int(y2[i, 0, j]) for i in range(int(lens2[0, j]))) for j in live}
    for i in range(width):
        for j in range(width):
            want_rel = i in pref and j in pref and pref[j][:len(pref[i])] == pref[i]
            if bool(isp2[0, i, j]) != want_rel:
                return "is_prefix[%d, %d] = %s but the slots hold %s and %s" % (i, j, bool(isp2[0, i, j]), pref.get(i, "nothing"), pref.get(j, "nothing"))
    return None


def adv_p_vc():
    """P rung: ctc_prefix_search_advance for SYMBOLIC batch size, old width K', vocabulary V, prefix length S and beam width.
    Assumed contracts (vf/pyvc/symtensor.py): top-k over a symbolic extent (-inf below every finite value), sum and any over a symbolic
    extent, tensors as index functions. For a skolem batch element and skolem slots below K = min(width, K' (V + 1)), with
    index = the top-k index of the slot, keep = index >= K' V, source = index - K' V (keep) or index div V, token = index mod V:
      - the slot reports exactly that source / keep flag;
      - keep:   b' = (nb + b)[source] * blank,  nb' = nb[source] * nonext[last(source)] + SUM_j merged(j, source), where the j-th summand
                is the extension mass of prefix j by its matching token when prefix j + token IS prefix `source` (one longer, j a prefix
                of it) and 0 otherwise  (the summand is checked element-wise, the sum is the assumed partial-sum contract);
      - extend: b' = 0,  nb' = -inf if some beam prefix equals source + token (any-contract over the old beam; its element "prefix j
                is one longer, source is a prefix of it, and its next token is the token" is checked element-wise), else (nb[source] * [token != last(source)] + b[source]) * ext;
      - tokens / length / last token of the slot are the source's, grown by the token when extending;
      - slots are best-first by total mass, two different slots hold different candidates, slots from K on are fillers.
    The new prefix-relation matrix is left to the S rung."""
    import pydrobert.torch._decoding as D
    from vf.pyvc import symtensor as stn

    N, KP, V, S, W, N0, K0, K1, J0, T0 = z3.Ints("N old_width V S width n0 k0 k1 j0 t0")
    fn = lambda name, *sorts: z3.Function(name, *sorts)
    Iz, Rz, Bz = z3.IntSort(), z3.RealSort(), z3.BoolSort()
    EXT, NONEXT, BLANK = fn("ext", Iz, Iz, Iz, Rz), fn("nonext", Iz, Iz, Rz), fn("blank", Iz, Rz)
    NB, B = fn("nb_prev", Iz, Iz, Rz), fn("b_prev", Iz, Iz, Rz)
    Y, LAST, LENS, ISP = fn("y_prev", Iz, Iz, Iz, Iz), fn("last_prev", Iz, Iz, Iz), fn("lens_prev", Iz, Iz, Iz), fn("is_prefix_prev", Iz, Iz, Iz, Bz)
    M_ = KP * V
    KK = z3.If(W <= KP * (V + 1), W, KP * (V + 1))
    clampv = lambda x: z3.If(x < 0, 0, z3.If(x > V - 1, V - 1, x))
    lastc = lambda k: clampv(LAST(N0, k))
    exact = lambda j, k: z3.And(LENS(N0, j) + 1 == LENS(N0, k), ISP(N0, j, k))
    tomatch = lambda j, k: clampv(Y(z3.If(LENS(N0, j) > S - 1, S - 1, LENS(N0, j)), N0, k))
    extmass = lambda k, v: (z3.If(v == lastc(k), z3.RealVal(0), NB(N0, k)) + B(N0, k)) * EXT(N0, k, v)
    n_, k_ = z3.Ints("n_q k_q")
    name = "ctc_prefix_search_advance[symbolic N, old width, V, S, width]"

    def thunk(I):
        I.stubs.update(stn.stubs())
        z = ip.to_z3
        mk3 = lambda f, sh, dt: stn.ST(sh, lambda a, b, c: f(z(a), z(b), z(c)), dt)
        mk2 = lambda f, sh, dt: stn.ST(sh, lambda a, b: f(z(a), z(b)), dt)
        ext, nonext, blank = mk3(EXT, (N, KP, V), "float"), mk2(NONEXT, (N, V), "float"), stn.ST((N,), lambda a: BLANK(z(a)), "float")
        nb, b = mk2(NB, (N, KP), "float"), mk2(B, (N, KP), "float")
        y, last, lens, isp = mk3(Y, (S, N, KP), "long"), mk2(LAST, (N, KP), "long"), mk2(LENS, (N, KP), "long"), mk3(ISP, (N, KP, KP), "bool")

        def trunc_divide(I2, a, k):
            x, d = a
            return x._bin(I2, __import__("ast").FloorDiv(), d, False)  # indices are non-negative: trunc = floor

        I.contracts["pydrobert.torch._compat.trunc_divide"] = trunc_divide
        lens_at = lambda a, c: z3.Implies(z3.And(0 <= a, a < N, 0 <= c, c < KP), z3.And(0 <= LENS(a, c), LENS(a, c) <= S))

        def hook(ii):  # the length bounds at a new position and at the source of the slot at that position
            out = [lens_at(a, c) for a in ii for c in ii if a is not c]
            for tk_ in I.ex.ghost.get("topks", []):
                for a in ii:
                    for c in ii:
                        if a is not c:
                            ix = tk_["IDX"](a, c)
                            out.append(lens_at(a, z3.If(ix >= M_, ix - M_, ix / V)))
            return out

        I.ex.ghost["skolem_hooks"] = [hook]
        out = I.call(D.ctc_prefix_search_advance, [(ext, nonext, blank), W, (nb, b), y, last, lens, isp], {})
        tk = I.ex.ghost["topks"][-1]
        for x in (tk["at"](N0, K0), tk["at"](N0, K1), tk["distinct"](N0, K0, K1), tk["distinct"](N0, K1, K0), tk["ordered"](N0, K0, K1)):
            I.ex.instance(x)
        sums = [x for x in I.ex.ghost.get("sums", []) if x.get("kind") == "sum"]
        I.ex.ghost.update(tk=tk, sums=sums, anys=I.ex.ghost.get("anys", []))
        return out

    def post(p):
        if not api.returns(p) or not isinstance(p.value, tuple) or len(p.value) != 7:
            return False
        y2, last2, lens2, probs2, isp2, src2, non2 = p.value
        nb2, b2 = probs2
        g = p.ghost
        if len(g["sums"]) != 1 or len(g["anys"]) != 1:
            return [("one_merging_sum_and_one_match_test", z3.BoolVal(False))]
        sm, an, tk = g["sums"][0], g["anys"][0], g["tk"]
        IDX = tk["IDX"]
        idx0, idx1 = IDX(N0, K0), IDX(N0, K1)
        keep = lambda ix: ix >= M_
        srcof = lambda ix: z3.If(keep(ix), ix - M_, ix / V)
        tokof = lambda ix: ix % V
        s0, w0 = srcof(idx0), tokof(idx0)
        real0, real1 = z3.And(0 <= K0, K0 < KK), z3.And(0 <= K1, K1 < KK)
        Bq = lambda c: z3.BoolVal(c) if isinstance(c, bool) else c
        cell = lambda t, *ix: ct.ng_split(t.elem(*ix))
        f_nb, v_nb = cell(nb2, N0, K0)
        f_b, v_b = cell(b2, N0, K0)
        f_nb, f_b, v_nb, v_b = Bq(f_nb), Bq(f_b), ip.to_z3(v_nb), ip.to_z3(v_b)
        tot = lambda k: ct.NegGuarded(z3.Or(Bq(cell(nb2, N0, k)[0]), Bq(cell(b2, N0, k)[0])), ip.to_z3(cell(nb2, N0, k)[1]) + ip.to_z3(cell(b2, N0, k)[1]))
        has_match = an["B"](N0, s0, w0)  # the code's match test at (source, token); its meaning is checked element-wise below
        A0, V0 = z3.Ints("a0 v0")
        el = an["el"]([N0, A0, V0], J0)
        shapes = z3.And(ip.to_z3(y2.shape[0]) == S + 1, ip.to_z3(y2.shape[2]) == W, ip.to_z3(nb2.shape[1]) == W, ip.to_z3(b2.shape[1]) == W, ip.to_z3(src2.shape[1]) == W, ip.to_z3(non2.shape[1]) == W, ip.to_z3(lens2.shape[1]) == W)
        grown = z3.And(ip.to_z3(lens2.elem(N0, K0)) == LENS(N0, s0) + 1, ip.to_z3(last2.elem(N0, K0)) == w0, ip.to_z3(y2.elem(LENS(N0, s0), N0, K0)) == w0,
                       z3.Implies(z3.And(0 <= T0, T0 < S, T0 != LENS(N0, s0)), ip.to_z3(y2.elem(T0, N0, K0)) == Y(T0, N0, s0)))
        kept = z3.And(ip.to_z3(lens2.elem(N0, K0)) == LENS(N0, s0), ip.to_z3(last2.elem(N0, K0)) == lastc(s0), z3.Implies(z3.And(0 <= T0, T0 < S, T0 != LENS(N0, s0)), ip.to_z3(y2.elem(T0, N0, K0)) == Y(T0, N0, s0)))
        return [("result_shapes", shapes),
                ("slot_reports_its_source_and_kind", z3.Implies(real0, z3.And(ip.to_z3(src2.elem(N0, K0)) == s0, Bq(non2.elem(N0, K0)) == keep(idx0), 0 <= s0, s0 < KP, 0 <= w0, w0 < V))),
                ("merging_sum_runs_over_the_old_beam", sm["T"] == KP),
                ("merged_summand_is_the_matching_extension_or_zero", z3.Implies(z3.And(0 <= J0, J0 < KP, 0 <= K1, K1 < KP),
                                                                             ip.to_z3(sm["val"]([N0, K1], J0)) == z3.If(exact(J0, K1), extmass(J0, tomatch(J0, K1)), z3.RealVal(0)))),
                ("match_test_ranges_over_the_old_beam", an["n"] == KP),
                ("match_test_element_is_equality_with_a_beam_prefix", z3.Implies(z3.And(0 <= A0, A0 < KP, 0 <= V0, V0 < V, 0 <= J0, J0 < KP),
                                                                                Bq(el) == z3.And(exact(A0, J0), tomatch(A0, J0) == V0))),
                ("kept_prefix_masses", z3.Implies(z3.And(real0, keep(idx0)), z3.And(z3.Not(f_nb), z3.Not(f_b), v_b == (NB(N0, s0) + B(N0, s0)) * BLANK(N0),
                                                                                     v_nb == NB(N0, s0) * NONEXT(N0, lastc(s0)) + sm["S"](N0, s0, KP)))),
                ("extended_prefix_masses", z3.Implies(z3.And(real0, z3.Not(keep(idx0))), z3.And(z3.Not(f_b), v_b == 0, f_nb == has_match, z3.Implies(z3.Not(has_match), v_nb == extmass(s0, w0))))),
                ("kept_prefix_tokens", z3.Implies(z3.And(real0, keep(idx0)), kept)),
                ("extended_prefix_tokens", z3.Implies(z3.And(real0, z3.Not(keep(idx0)), S >= 1), grown)),
                # cut: the slot's total mass is the top-k value of the slot; then best-first is the contract's ordering
                ("slot_total_is_the_selected_candidate_total", z3.Implies(real0, Bq(ct.ng_cmp("eq", tot(K0), tk["VAL"](N0, K0))))),
                ("best_first_by_total_mass", z3.Implies(z3.And(real0, real1, K0 <= K1, Bq(ct.ng_cmp("eq", tot(K0), tk["VAL"](N0, K0))), Bq(ct.ng_cmp("eq", tot(K1), tk["VAL"](N0, K1))), tk["ordered"](N0, K0, K1)),
                                                        Bq(ct.ng_cmp("ge", tot(K0), tot(K1))))),
                ("different_slots_hold_different_candidates", z3.Implies(z3.And(real0, real1, K0 != K1), z3.Or(keep(idx0) != keep(idx1), srcof(idx0) != srcof(idx1), z3.And(z3.Not(keep(idx0)), tokof(idx0) != tokof(idx1))))),
                ("slots_beyond_the_candidates_are_fillers", z3.Implies(z3.And(KK <= K0, K0 < W), z3.And(f_nb, f_b, ip.to_z3(lens2.elem(N0, K0)) == 0)))]

    lens_ok = z3.ForAll([n_, k_], z3.Implies(z3.And(0 <= n_, n_ < N, 0 <= k_, k_ < KP), z3.And(0 <= LENS(n_, k_), LENS(n_, k_) <= S)))
    pre = [N >= 1, KP >= 1, V >= 1, S >= 0, W >= 1, 0 <= N0, N0 < N, lens_ok]
    return VC("C05.P.advance_step", name, M, "ctc_prefix_search_advance", thunk, pre=pre, posts=[("prefix_beam_recursion_step", post)], inputs={"N": N, "old_width": KP, "V": V, "S": S, "width": W},
              timeout_ms=60000, max_paths=64,
              assumptions=["topk over a symbolic extent (in-range pairwise distinct indices, value = element at the index, non-increasing, -inf smallest), sum = partial sums, any = exists: assumed contracts; tensors as index functions; flatten / view of two symbolic dimensions = row-major div / mod split (vf/pyvc/symtensor.py)",
                           "prefix lengths within [0, S]; the incoming prefix relation is used as given (its consistency with the tokens is the S rung's precondition); float arithmetic treated as real arithmetic",
                           "the new prefix-relation matrix and optimality against unselected candidates: S rung (contracts/C05_vc.py::adv_vc)"])


def p_vcs(ctx):
    return [adv_p_vc()]


def vcs(ctx):
    shapes = [(1, 2, 1, (0,), 2), (2, 2, 1, (0, 1), 3), (2, 2, 2, (1, 2), 4), (2, 2, 1, (1, 1), 7)] if ctx.quick else \
        [(1, 2, 1, (0,), 2), (2, 2, 1, (0, 1), 3), (2, 2, 2, (1, 2), 4), (2, 2, 1, (1, 1), 7), (2, 2, 2, (2, 2), 3), (2, 2, 2, (0, 2), 6), (2, 3, 1, (0, 1), 4), (3, 2, 2, (0, 1, 2), 4)]
    return [adv_vc(*s) for s in shapes]
