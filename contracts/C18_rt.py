"""C18 (bounded, engine B) - normalisation statistics, deltas and returns equal their defining formulas.

Run-time contracts on the real functions
    pydrobert.torch.modules.MeanVarianceNormalization (accumulate / store / __call__), functional.mean_var_norm
    pydrobert.torch.functional.feat_deltas, modules.FeatureDeltas
    pydrobert.torch.functional.time_distributed_return, modules.TimeDistributedReturn
    pydrobert.torch.command_line.compute_mvn_stats_for_torch_feat_data_dir
against oracles written from the property text (never from the implementation).

Clauses
    C18.mvn.partition   every ordered set partition of n frames, accumulated block by block (several tensor layouts, with
                        intermediate store(delete_stats=False), a neutral empty block, or an earlier store(delete_stats=True)),
                        yields the pooled population mean and the (biased / Bessel-corrected) standard deviation, computed
                        exactly over the rationals; normalising the pooled data with them gives zero mean / unit variance
    C18.mvn.raises      store() raises RuntimeError iff fewer frames were accumulated than the documentation requires
                        (one; two with Bessel's correction); otherwise it returns the statistics of what was accumulated
    C18.mvn.own         without stored statistics the input's own per-coefficient statistics are used (module and functional,
                        every rank 1..4 and every dim); explicitly given mean/std are used as given
    C18.delta.formula   feat_deltas / FeatureDeltas = recursive regression formula on the input extended ONCE by the edge
                        padding, orders stacked (new axis) or concatenated along `dim`, every (dim, time_dim, concatenate)
    C18.ret.recurrence  R_t = r_t + gamma * R_(t+1), R_T = 0, both layouts, functional and module, including long sequences
    C18.cli.mvn         compute-mvn-stats-for-torch-feat-data-dir: per-directory / per-group pooled statistics
"""
import contextlib
import io
import itertools
import math
import os
import random
import tempfile
from fractions import Fraction

F32 = {"eps": 2.0 ** -23, "tiny": 1.1754943508222875e-38, "max": 3.4028234663852886e38}
F64 = {"eps": 2.0 ** -52, "tiny": 2.2250738585072014e-308, "max": 1.7976931348623157e308}
FINFO = {"f32": F32, "f64": F64}
TINY = 1.1754943508222875e-38  # pydrobert.torch.config.TINY, the documented default eps of the normalisation


def _torch():
    import warnings

    import torch

    warnings.simplefilter("ignore")
    return torch


def _dtype(name):
    torch = _torch()
    return {"f32": torch.float32, "f64": torch.float64}[name or "f32"]


def _same_bits(a, b):
    torch = _torch()
    return a.shape == b.shape and a.dtype == b.dtype and bool(torch.equal(a, b))


# =============================================================================================
# C18.ret.recurrence


def _rewards(case):
    """-> (T, N) tensor of the case's dtype. 'rows': N explicit reward sequences of length T; else randn from 'seed'."""
    torch = _torch()
    T, N = case["T"], case["N"]
    if "rows" in case:
        r = torch.tensor(case["rows"], dtype=torch.float64).reshape(N, T).t().contiguous()
    else:
        g = torch.Generator().manual_seed(case["seed"])
        r = torch.randn(T, N, generator=g, dtype=torch.float64) * case.get("scale", 1.0)
    return r.to(_dtype(case.get("dtype")))


def check_return(case):
    """case: {T, N, gamma, dtype, bf, module, rows | seed}"""
    torch = _torch()
    from pydrobert.torch.functional import time_distributed_return
    from pydrobert.torch.modules import TimeDistributedReturn

    T, N, gamma, bf = case["T"], case["N"], float(case["gamma"]), bool(case.get("bf"))
    fi = FINFO[case.get("dtype") or "f32"]
    r = _rewards(case)
    inp = r.t().contiguous() if bf else r.clone()
    keep = inp.clone()
    if case.get("module"):
        R = TimeDistributedReturn(gamma, bf)(inp)
    else:
        R = time_distributed_return(inp, gamma, bf)
    if tuple(R.shape) != tuple(keep.shape):
        return "shape: returns have shape %s, rewards %s" % (tuple(R.shape), tuple(keep.shape))
    if R.dtype != keep.dtype:
        return "dtype: returns are %s, rewards %s" % (R.dtype, keep.dtype)
    if not _same_bits(inp, keep):
        return "input: the reward tensor was modified in place"
    Rt = (R.t() if bf else R).double()
    rd = r.double()
    # the property's wording, backwards from the horizon: R_T = 0, R_t = r_t + gamma * R_(t+1).
    # M_t bounds sum_s |gamma|^(s-t) |r_s|, W_t bounds sum_s (s-t) |gamma|^(s-t) |r_s| (rounding of gamma itself to the dtype)
    acc = torch.zeros(N, dtype=torch.float64)
    M = torch.zeros(N, dtype=torch.float64)
    W = torch.zeros(N, dtype=torch.float64)
    ag = abs(gamma)
    exp = torch.zeros(T, N, dtype=torch.float64)
    tol = torch.zeros(T, N, dtype=torch.float64)
    skip = torch.zeros(T, N, dtype=torch.bool)
    for t in range(T - 1, -1, -1):
        W = ag * (W + M)
        M = rd[t].abs() + ag * M
        acc = rd[t] + gamma * acc
        exp[t] = acc
        tol[t] = fi["eps"] * ((8 + T) * M + 2 * W) + 4 * fi["tiny"]
        skip[t] = ~(M < fi["max"] / 4)  # the return itself is not representable in the dtype (also catches inf/nan of the bound)
    bad = ~((Rt - exp).abs() <= tol) & ~skip
    if bool(bad.any()):
        idx = bad.nonzero()[0].tolist()
        t, n = idx
        nonfin = int((~torch.isfinite(Rt) & ~skip).sum())
        return "value: R[t=%d,n=%d]=%r but r_t + gamma*R_(t+1) with R_T=0 gives %r (tol %.3g); gamma=%r T=%d %s%s; %d of %d cells differ, %d non-finite" % (
            t, n, Rt[t, n].item(), exp[t, n].item(), tol[t, n].item(), gamma, T, case.get("dtype") or "f32", " batch_first" if bf else "", int(bad.sum()), T * N, nonfin)
    return None


GAMMAS = [0.0, 0.1, 0.25, 0.5, 0.9, 0.99, 1.0, 1.01, 1.5, 2.0, 3.0, -0.5, -1.0, -1.5]
LONG_T = [16, 32, 38, 39, 40, 45, 46, 47, 48, 50, 64, 100, 127, 128, 129, 150, 151, 200, 219, 220, 256, 308, 309, 310, 324, 325, 326, 400, 512, 830, 831, 1000, 1024, 1100]
LONG_G = [0.1, 0.5, 0.9, 0.99, 1.0, 1.01, 1.1, 1.5, 2.0, -0.5, -1.0, -2.0]


def cases_return(ctx):
    quick = ctx.quick
    alpha = [-1.0, 0.0, 2.0] if quick else [-1.0, 0.0, 0.5, 2.0]
    Tmax = 7 if quick else 7
    B = 27 if quick else 64
    i = 0
    for T in range(0, Tmax + 1):
        seqs = [list(s) for s in itertools.product(alpha, repeat=T)]
        for b0 in range(0, len(seqs), B):
            rows = seqs[b0:b0 + B]
            for gamma in GAMMAS:
                for dt in ("f32", "f64"):
                    for bf in (False, True):
                        for mod in (False, True):
                            i += 1
                            yield {"T": T, "N": len(rows), "gamma": gamma, "dtype": dt, "bf": bf, "module": mod, "rows": rows}
    # empty batch
    for T in (0, 1, 3):
        for bf in (False, True):
            yield {"T": T, "N": 0, "gamma": 0.5, "dtype": "f32", "bf": bf, "module": False, "rows": []}
    # medium lengths, random rewards and discount factors
    rng = random.Random(ctx.seed + 18001)
    for k in range(3000 if quick else 30000):
        T = rng.randint(8, 64 if quick else 160)
        gamma = rng.choice([rng.choice(GAMMAS), round(rng.random(), 3), round(1 + rng.random() * 0.2, 3), round(-rng.random(), 3)])
        yield {"T": T, "N": rng.randint(1, 4), "gamma": gamma, "dtype": rng.choice(["f32", "f64"]), "bf": rng.random() < 0.5, "module": rng.random() < 0.3,
               "seed": rng.randrange(2 ** 31), "scale": rng.choice([1.0, 1.0, 100.0, 1e-3])}
    # long sequences (float range of gamma**t is part of the bound here, not of the deductive model)
    for T in LONG_T:
        for gamma in LONG_G:
            for dt in ("f32", "f64"):
                for bf in (False, True):
                    i += 1
                    yield {"T": T, "N": 2, "gamma": gamma, "dtype": dt, "bf": bf, "module": False, "seed": (ctx.seed * 7919 + i) % (2 ** 31)}
    if not quick:
        for k in range(600):
            T = rng.randint(161, 1500)
            yield {"T": T, "N": rng.randint(1, 3), "gamma": rng.choice([round(0.05 + rng.random() * 0.95, 3), round(1 + rng.random(), 3), 0.999, 1.0]),
                   "dtype": rng.choice(["f32", "f64"]), "bf": rng.random() < 0.5, "module": False, "seed": rng.randrange(2 ** 31)}


def _ret_log_pow(case):
    g = abs(float(case["gamma"]))
    return (case["T"] - 1) * math.log(g) if g > 0 and case["T"] >= 1 else 0.0


def _kf_underflow(case, msg):
    """|gamma| < 1 and |gamma|**(T-1) is below the smallest normal number of the tensor's dtype (subnormal or zero)"""
    g = abs(float(case["gamma"]))
    return 0 < g < 1 and msg.startswith("value:") and _ret_log_pow(case) < math.log(FINFO[case.get("dtype") or "f32"]["tiny"])


def _kf_overflow(case, msg):
    """|gamma| > 1 and |gamma|**(T-1) exceeds the largest finite number of the tensor's dtype"""
    g = abs(float(case["gamma"]))
    return g > 1 and msg.startswith("value:") and _ret_log_pow(case) > math.log(FINFO[case.get("dtype") or "f32"]["max"])


# =============================================================================================
# C18.delta.formula


def _pad_index(t, T, mode):
    """source index of position t (may be outside [0,T)) of the extended signal; None = the constant value"""
    if 0 <= t < T:
        return t
    if mode == "constant":
        return None
    if mode == "replicate":
        return 0 if t < 0 else T - 1
    if mode == "reflect":  # mirror about the edge sample, the edge itself is not repeated
        return -t if t < 0 else 2 * (T - 1) - t
    if mode == "circular":
        return t % T
    raise ValueError(mode)


def _pad_defined(T, P, mode):
    if P == 0:
        return True
    if mode == "reflect":
        return P <= T - 1
    if mode == "circular":
        return P <= T
    return True


def _delta_oracle(x, td, dim, cat, order, width, mode, value):
    """x: float64 tensor. Regression deltas, recursively, on the once-extended input; then laid out along `dim`."""
    torch = _torch()
    D = x.dim()
    td %= D
    xt = x.movedim(td, -1)  # (..., T)
    T = xt.size(-1)
    P = order * width
    cols = []
    for t in range(-P, T + P):
        s = _pad_index(t, T, mode)
        cols.append(torch.full(xt.shape[:-1], float(value), dtype=torch.float64) if s is None else xt[..., s])
    cur = torch.stack(cols, -1)  # positions -P .. T+P-1
    off = P  # position p sits at index p + off
    denom = float(sum(w * w for w in range(-width, width + 1)))
    outs = [xt]
    for u in range(1, order + 1):
        L = cur.size(-1) - 2 * width
        nxt = torch.zeros(cur.shape[:-1] + (L,), dtype=torch.float64)
        for w in range(-width, width + 1):
            nxt = nxt + cur[..., width + w: width + w + L] * (w / denom)
        cur, off = nxt, off - width
        outs.append(cur[..., off: off + T])
    outs = [o.movedim(-1, td) for o in outs]
    if cat:
        return torch.cat(outs, dim % D)
    return torch.stack(outs, dim % (D + 1))


def check_deltas(case):
    """case: {shape, td, dim, cat, order, width, mode, value, dtype, seed}"""
    torch = _torch()
    from pydrobert.torch.functional import feat_deltas
    from pydrobert.torch.modules import FeatureDeltas

    shape, td, dim, cat = case["shape"], case["td"], case["dim"], bool(case["cat"])
    order, width, mode, value = case["order"], case["width"], case["mode"], float(case.get("value", 0.0))
    dt = _dtype(case.get("dtype"))
    g = torch.Generator().manual_seed(case["seed"])
    x = (torch.randn(*shape, generator=g, dtype=torch.float64) * 2 + 0.5).to(dt)
    keep = x.clone()
    want = _delta_oracle(x.double(), td, dim, cat, order, width, mode, value)
    scale = 1.0 + max(float(x.abs().max()) if x.numel() else 0.0, abs(value))
    tol = 4e-6 * scale * (order + 1)  # the library's filter taps are float32 whatever the input's dtype
    for which in ("functional", "module"):
        if which == "functional":
            got = feat_deltas(x, dim, td, cat, order, width, mode, value)
        else:
            got = FeatureDeltas(dim, td, cat, order, width, mode, value).to(dt)(x)  # a module's buffers follow .to(), as for any torch module
        if tuple(got.shape) != tuple(want.shape):
            return "%s: output shape %s, expected %s (%s of %d orders along dim %d)" % (which, tuple(got.shape), tuple(want.shape), "concatenation" if cat else "stack", order + 1, dim)
        if got.dtype != dt:
            return "%s: output dtype %s, input %s" % (which, got.dtype, dt)
        if not _same_bits(x, keep):
            return "%s: the input was modified in place" % which
        bad = ~((got.double() - want).abs() <= tol)
        if bool(bad.any()):
            idx = tuple(bad.nonzero()[0].tolist())
            return "%s: cell %s is %r, the regression formula on the %s-extended input gives %r (%d of %d cells differ)" % (
                which, list(idx), got[idx].item(), mode, want[idx].item(), int(bad.sum()), bad.numel())
    return None


MODES = ["replicate", "constant", "reflect", "circular"]
BASE_SIZES = [2, 3, 2, 2, 2]


def _delta_T(order, width, mode, extra):
    P = order * width
    tmin = 1
    if P and mode == "reflect":
        tmin = P + 1
    elif P and mode == "circular":
        tmin = P
    return sorted(set([tmin, tmin + 1, max(tmin, P + 2)] + [t for t in extra if _pad_defined(t, P, mode)]))


def _layouts(D):
    for td in range(-D, D):
        for cat in (True, False):
            DD = D if cat else D + 1
            for dim in range(-DD, DD):
                yield td, dim, cat


def cases_deltas(ctx):
    quick = ctx.quick
    orders, widths = (range(0, 4), range(1, 4)) if quick else (range(0, 5), range(1, 5))
    ranks = (1, 2, 3, 4)
    i = 0
    for D in ranks:
        for td, dim, cat in _layouts(D):
            for order in orders:
                for width in widths:
                    for mode in MODES:
                        for T in _delta_T(order, width, mode, [] if quick else [7]):
                            i += 1
                            shape = BASE_SIZES[:D]
                            shape[td % D] = T
                            yield {"shape": shape, "td": td, "dim": dim, "cat": cat, "order": order, "width": width, "mode": mode,
                                   "value": -2.5 if mode == "constant" and i % 2 else 0.0, "dtype": "f64" if i % 3 == 0 else "f32", "seed": i % 99991}
    if not quick:
        rng = random.Random(ctx.seed + 18002)
        for k in range(40000):
            D = rng.randint(1, 5)
            order, width, mode = rng.randint(0, 4), rng.randint(1, 5), rng.choice(MODES)
            shape = [rng.randint(1, 4) for _ in range(D)]
            td = rng.randint(-D, D - 1)
            T = rng.randint(1, 30)
            if not _pad_defined(T, order * width, mode):
                T = order * width + 1 + rng.randint(0, 3)
            shape[td % D] = T
            cat = rng.random() < 0.5
            DD = D if cat else D + 1
            yield {"shape": shape, "td": td, "dim": rng.randint(-DD, DD - 1), "cat": cat, "order": order, "width": width, "mode": mode,
                   "value": rng.choice([0.0, 1.0, -7.25]) if mode == "constant" else 0.0, "dtype": rng.choice(["f32", "f64"]), "seed": rng.randrange(2 ** 31)}


# =============================================================================================
# C18.mvn.partition / C18.mvn.raises

LAYOUTS = ["kF", "Fk", "1kF", "kF1", "aFb", "F"]


def _garbage(F):
    """three frames unrelated to any case's data (an estimate that is stored and deleted before the real history starts)"""
    return [[100.0 - 37.0 * f + 11.5 * i * i for f in range(F)] for i in range(3)]


def _block_tensor(frames, F, lay, dt):
    """frames: list of k frames (each F numbers) -> (tensor, dim) with the coefficients along `dim` and the k frames spread over the
    other dimensions"""
    torch = _torch()
    k = len(frames)
    x = torch.tensor(frames, dtype=torch.float64).reshape(k, F).to(dt)  # (k, F)
    if lay == "kF":
        return x, -1
    if lay == "Fk":
        return x.t().contiguous(), 0
    if lay == "1kF":
        return x.unsqueeze(0), 2
    if lay == "kF1":
        return x.unsqueeze(-1), -2
    if lay == "aFb":
        a = 2 if k % 2 == 0 and k else 1
        return x.reshape(a, k // a if a else 0, F).transpose(1, 2).contiguous(), 1
    if lay == "F":
        assert k == 1
        return x[0], 0
    raise ValueError(lay)


def _exact_stats(rows, F, bessel):
    """rows: list of frames of python floats (already rounded to the data dtype) -> per coefficient (mean, var) as Fractions"""
    n = len(rows)
    out = []
    for f in range(F):
        col = [Fraction(r[f]) for r in rows]
        mean = sum(col) / n
        var = sum(c * c for c in col) / n - mean * mean
        if bessel:
            var = var * n / (n - 1)
        out.append((mean, var))
    return out


def _cmp_stats(mvn, rows, F, bessel, e, what):
    """compare the stored mean/std with the exact pooled ones. -> (hard problems, const-nan problems)"""
    torch = _torch()
    n = len(rows)
    hard, cn = [], []
    mean, std = mvn.mean, mvn.std
    if mean is None or std is None:
        return ["%s: store() returned but mean/std are not set" % what], []
    if tuple(mean.shape) != (F,) or tuple(std.shape) != (F,):
        return ["%s: mean/std have shapes %s/%s, expected (%d,)" % (what, tuple(mean.shape), tuple(std.shape), F)], []
    Mx = max([abs(v) for r in rows for v in r] + [0.0])
    ex = _exact_stats(rows, F, bessel)
    for f in range(F):
        m, v = ex[f]
        gm, gs = float(mean[f]), float(std[f])
        tm = 8 * n * e * (1 + Mx)
        if not abs(gm - float(m)) <= tm:
            hard.append("%s: mean[%d]=%r, pooled mean of the %d frames is %r" % (what, f, gm, n, float(m)))
        sd = math.sqrt(float(v)) if v > 0 else 0.0
        ts = 6 * math.sqrt(n * e) * (1 + Mx)
        if sd > 0:
            ts = min(ts, 12 * n * e * (1 + Mx) ** 2 / sd + 1e-300)
        if gs != gs and v == 0:
            cn.append("%s: std[%d] is nan for a coefficient that is constant (%r) over the %d frames (pooled std 0)" % (what, f, rows[0][f], n))
        elif not abs(gs - sd) <= ts:
            hard.append("%s: std[%d]=%r, pooled %s std of the %d frames is %r" % (what, f, gs, "Bessel-corrected" if bessel else "population", n, sd))
    return hard, cn


def _coef_rows(Y, dim):
    """(…) tensor with the coefficients along `dim` -> (F, #frames) float64"""
    return Y.double().movedim(dim % Y.dim(), 0).reshape(Y.size(dim), -1)


def _try_store(mvn, delete, bessel):
    try:
        mvn.store(delete_stats=delete, bessel=bessel)
        return None
    except RuntimeError as ex:
        return ex


def check_mvn_hist(case):
    """case: {F, data: n frames, blocks: ordered list of lists of frame indices, lay, bessel, dtype, variant, delete}"""
    torch = _torch()
    from pydrobert.torch.modules import MeanVarianceNormalization

    F, lay, bessel = case["F"], case["lay"], bool(case["bessel"])
    dtn = case.get("dtype") or "f32"
    dt = _dtype(dtn)
    variant, delete = case.get("variant", "none"), bool(case.get("delete", True))
    data = torch.tensor(case["data"], dtype=torch.float64).reshape(-1, F).to(dt).double().tolist()  # values as the dtype holds them
    blocks = case["blocks"]
    n = sum(len(b) for b in blocks)
    need = 2 if bessel else 1
    integral = all(float(v).is_integer() and abs(v) < 1024 for r in data for v in r)
    e = F64["eps"] if integral else FINFO[dtn]["eps"]
    dim = _block_tensor([[0.0] * F], F, lay, dt)[1]
    mvn = MeanVarianceNormalization(dim)

    def tensors(frames):
        """the accumulate() arguments that carry these frames in the case's layout"""
        if lay == "F":
            return [_block_tensor([fr], F, "F", dt)[0] for fr in frames]
        return [_block_tensor(frames, F, lay, dt)[0]]

    if variant == "restart":  # an estimate that was stored and deleted must not leak into the next one
        for t in tensors(_garbage(F)):
            mvn.accumulate(t)
        mvn.store(delete_stats=True, bessel=False)
    seen = []
    for j, blk in enumerate(blocks):
        for t in tensors([data[q] for q in blk]):
            mvn.accumulate(t)
        seen += [data[q] for q in blk]
        if variant == "empty" and j == 0 and lay != "F":
            mvn.accumulate(_block_tensor([], F, lay, dt)[0])
        if variant == "mid" and j == 0 and len(blocks) > 1:
            raised = _try_store(mvn, False, bessel)
            if len(seen) < need:
                if raised is None:
                    return "count: intermediate store() with %d frame(s), bessel=%s did not raise" % (len(seen), bessel)
            elif raised is not None:
                return "count: intermediate store() raised RuntimeError(%s) with %d frame(s), bessel=%s; the documentation requires %d" % (raised, len(seen), bessel, need)
            else:
                hard, cn = _cmp_stats(mvn, seen, F, bessel, e, "after the first block")
                if hard:
                    return hard[0]
    raised = _try_store(mvn, delete, bessel)
    if n < need:
        if raised is None:
            return "count: store() with %d accumulated frame(s), bessel=%s did not raise RuntimeError" % (n, bessel)
        return None
    if raised is not None:
        return "count: store() raised RuntimeError(%s) with %d accumulated frame(s), bessel=%s; the documentation requires %d" % (raised, n, bessel, need)
    if delete and not (mvn.count is None and mvn.sum is None and mvn.sumsq is None):
        return "store(delete_stats=True) kept the accumulated statistics"
    if not delete and (mvn.count is None or float(mvn.count) != n):
        return "store(delete_stats=False) lost the accumulated statistics (count=%r, %d frames)" % (None if mvn.count is None else float(mvn.count), n)
    hard, cn = _cmp_stats(mvn, seen, F, bessel, e, "pooled")
    if hard:
        return hard[0]
    # normalising the pooled data with the stored statistics
    outs = []
    for X in tensors(seen):
        keep = X.clone()
        Y = mvn(X)
        if tuple(Y.shape) != tuple(X.shape) or Y.dtype != X.dtype:
            return "normalised output has shape/dtype %s/%s, input %s/%s" % (tuple(Y.shape), Y.dtype, tuple(X.shape), X.dtype)
        if not _same_bits(X, keep):
            return "normalising modified its input in place"
        outs.append(_coef_rows(Y, dim))
    Yf = torch.cat(outs, 1)  # (F, n)
    ex = _exact_stats(seen, F, bessel)
    Mx = max([abs(v) for r in seen for v in r] + [0.0])
    eo = FINFO[dtn]["eps"]
    for f in range(F):
        m, v = ex[f]
        col = Yf[f]
        if v == 0:
            if bool(torch.isnan(col).any()):
                cn.append("normalised: coefficient %d (constant over the frames) comes out nan" % f)
            elif float(mvn.std[f]) == 0.0 and float(mvn.mean[f].to(dt)) == seen[0][f] and bool((col != 0).any()):
                hard.append("normalised: coefficient %d is constant, stored mean is that constant and std 0, so (x-mean)/max(std,eps) should be 0, got %r" % (f, col.tolist()[:4]))
            continue
        sd = math.sqrt(float(v))
        if sd < 1e-3 * (1 + Mx):
            continue  # nearly constant: the float rounding of x - mean dominates; covered by the statistics themselves
        ratio = (1 + Mx) / sd
        tolm = 64 * n * eo * ratio
        tolv = 64 * n * e * ratio * ratio + 64 * n * eo * ratio
        ym = float(col.sum()) / n
        yv = float(((col - ym) ** 2).sum()) / (n - 1 if bessel else n)
        if not abs(ym) <= tolm:
            hard.append("normalised: coefficient %d has mean %r over the pooled data, expected 0" % (f, ym))
        elif not abs(yv - 1.0) <= tolv:
            hard.append("normalised: coefficient %d has %s variance %r over the pooled data, expected 1" % (f, "Bessel-corrected" if bessel else "population", yv))
    if hard:
        return hard[0]
    if cn:
        return "const-nan: %d problem(s), all of them nan for constant coefficients; first: %s" % (len(cn), cn[0])
    return None


def _set_partitions(n):
    """restricted growth strings -> list of blocks"""
    def rec(i, labels, k):
        if i == n:
            blocks = [[] for _ in range(k)]
            for q, l in enumerate(labels):
                blocks[l].append(q)
            yield blocks
            return
        for l in range(k + 1):
            yield from rec(i + 1, labels + [l], max(k, l + 1))

    if n == 0:
        yield []
        return
    yield from rec(0, [], 0)


def _ordered_partitions(n):
    for blocks in _set_partitions(n):
        for perm in itertools.permutations(blocks):
            yield [list(b) for b in perm]


def _mvn_data(n, F, pattern, rng):
    if pattern == "A":  # small integers (all sums exact)
        return [[float(((i + 2) * (f + 3) * 7 + i * i) % 11 - 5) for f in range(F)] for i in range(n)]
    if pattern == "B":  # integers, coefficient 0 constant (zero variance, exactly representable)
        return [[3.0 if f == 0 else float(((i + 1) * (f + 5) * 3) % 7 - 2) for f in range(F)] for i in range(n)]
    if pattern == "C":  # reals
        return [[round(rng.gauss(1.5, 2.0), 3) for f in range(F)] for i in range(n)]
    if pattern == "D":  # reals, coefficient 0 constant and not a dyadic rational
        return [[0.1 if f == 0 else round(rng.gauss(-0.5, 3.0), 3) for f in range(F)] for i in range(n)]
    raise ValueError(pattern)


def cases_mvn_partition(ctx):
    quick = ctx.quick
    nmax = 5 if quick else 6
    rng = random.Random(ctx.seed + 18003)
    i = 0
    for n in range(2, nmax + 1):
        parts = list(_ordered_partitions(n))
        for F in ((1, 2, 3) if n <= 3 else (2,)):
            datas = [(p, dt, _mvn_data(n, F, p, rng)) for p, dt in (("A", "f32"), ("B", "f64"), ("C", "f32"), ("C", "f64"), ("D", "f64"), ("D", "f32"))]
            for blocks in parts:
                single = all(len(b) == 1 for b in blocks)
                for lay in LAYOUTS:
                    if lay == "F" and not single:
                        continue
                    for bessel in (False, True):
                        for variant in ("none", "mid", "empty", "restart"):
                            if variant == "mid" and len(blocks[0]) == 1 and not bessel:
                                continue  # a one-frame estimate without Bessel's correction is the subject of C18.mvn.raises
                            if n >= 5:  # the three data families and the history variants cycle instead of multiplying
                                i += 1
                                if (i % 4) != ("none", "mid", "empty", "restart").index(variant):
                                    continue
                                sel = [datas[(i // 4) % len(datas)]]
                            else:
                                sel = datas
                            for p, dt, data in sel:
                                yield {"F": F, "data": data, "blocks": blocks, "lay": lay, "bessel": bessel, "dtype": dt, "variant": variant, "delete": (len(blocks) + n + F) % 2 == 0}
    if not quick:
        for k in range(30000):
            n, F = rng.randint(2, 40), rng.randint(1, 6)
            idx = list(range(n))
            rng.shuffle(idx)
            blocks = []
            while idx:
                c = rng.randint(1, max(1, len(idx) // rng.randint(1, 4)))
                blocks.append(idx[:c])
                idx = idx[c:]
            lay = rng.choice(LAYOUTS[:-1])
            bessel = rng.random() < 0.5
            variant = rng.choice(["none", "mid", "empty", "restart"])
            if variant == "mid" and len(blocks[0]) == 1 and not bessel:
                variant = "none"
            yield {"F": F, "data": _mvn_data(n, F, rng.choice("ABCD") if F > 1 else rng.choice("AC"), rng), "blocks": blocks, "lay": lay, "bessel": bessel,
                   "dtype": rng.choice(["f32", "f64"]), "variant": variant, "delete": rng.random() < 0.5}


def cases_mvn_raises(ctx):
    rng = random.Random(ctx.seed + 18004)
    for F in (1, 2, 3):
        for n in (0, 1, 2):
            for p, dt in (("A", "f32"), ("A", "f64"), ("C", "f32"), ("C", "f64")):
                data = _mvn_data(n, F, p, rng)
                for blocks in _ordered_partitions(n):
                    for lay in LAYOUTS:
                        for bessel in (False, True):
                            for delete in (False, True):
                                for variant in ("none", "empty", "restart", "mid"):
                                    if variant == "mid" and len(blocks) < 2:
                                        continue
                                    yield {"F": F, "data": data, "blocks": blocks, "lay": lay, "bessel": bessel, "dtype": dt, "variant": variant, "delete": delete}
    # nothing but empty blocks
    for F in (1, 2):
        for lay in LAYOUTS[:-1]:
            for bessel in (False, True):
                yield {"F": F, "data": [], "blocks": [[], []], "lay": lay, "bessel": bessel, "dtype": "f32", "variant": "none", "delete": True}


def _kf_one_frame(case, msg):
    """exactly one frame accumulated in total, no Bessel correction: the documentation says this suffices, store() raises"""
    n = sum(len(b) for b in case["blocks"])
    if case["bessel"]:
        return False
    if n == 1 and msg.startswith("count: store() raised RuntimeError(Too few accumulated statistics) with 1 accumulated frame(s)"):
        return True
    return (case.get("variant") == "mid" and len(case["blocks"]) > 1 and len(case["blocks"][0]) == 1
            and msg.startswith("count: intermediate store() raised RuntimeError(Too few accumulated statistics) with 1 frame(s)"))


def _kf_const_nan(case, msg):
    """some coefficient is constant over all accumulated frames (pooled variance exactly 0) and the only thing wrong is nan for those"""
    if not msg.startswith("const-nan:"):
        return False
    data, F = case["data"], case["F"]
    return any(len(set(r[f] for r in data)) == 1 for f in range(F))


# =============================================================================================
# C18.mvn.own


def check_mvn_own(case):
    """case: {shape, dim, dtype, seed, eps: None|float, given: none|mean|std|both, fn: bool}"""
    torch = _torch()
    from pydrobert.torch.functional import mean_var_norm
    from pydrobert.torch.modules import MeanVarianceNormalization

    shape, dim, dtn = case["shape"], case["dim"], case.get("dtype") or "f32"
    dt = _dtype(dtn)
    eps = case.get("eps")
    given = case.get("given", "none")
    g = torch.Generator().manual_seed(case["seed"])
    x = (torch.randn(*shape, generator=g, dtype=torch.float64) * case.get("scale", 2.0) + case.get("offset", 1.0)).to(dt)
    D = x.dim()
    X = shape[dim % D]
    mean = (torch.randn(X, generator=g, dtype=torch.float64) * 2).to(dt) if given in ("mean", "both") else None
    std = (torch.rand(X, generator=g, dtype=torch.float64) * 3 + 0.25).to(dt) if given in ("std", "both") else None
    keep = x.clone()
    kw = {} if eps is None else {"eps": eps}
    if case.get("fn"):
        y = mean_var_norm(x, dim, mean, std, **kw)
    else:
        y = MeanVarianceNormalization(dim, mean, std, **kw)(x)
    if tuple(y.shape) != tuple(x.shape) or y.dtype != x.dtype:
        return "output shape/dtype %s/%s, input %s/%s" % (tuple(y.shape), y.dtype, tuple(x.shape), x.dtype)
    if not _same_bits(x, keep):
        return "the input was modified in place"
    e = FINFO[dtn]["eps"]
    epsv = TINY if eps is None else eps
    xm = x.double().movedim(dim % D, 0).reshape(X, -1)  # coefficient i -> all its values
    ym = y.double().movedim(dim % D, 0).reshape(X, -1)
    K = xm.size(1)
    for i in range(X):
        col = xm[i]
        if K == 0:
            continue
        m = float(mean[i]) if mean is not None else float(col.sum()) / K
        if std is not None:
            s = float(std[i])
        else:
            own = float(col.sum()) / K
            s = math.sqrt(float(((col - own) ** 2).sum()) / K)  # the input's own population deviation
        den = max(s, epsv)
        Mx = float(col.abs().max()) + abs(m)
        if std is None and s <= 64 * e * Mx * math.sqrt(K):
            # zero-variance coefficient (excluded by precondition from 'unit variance'); the documented formula with eps > 0 is still finite
            if epsv > 0 and K == 1 and mean is None and bool((ym[i] != 0).any()):
                return "coefficient %d of a single frame normalised by its own statistics is %r, expected 0" % (i, ym[i].tolist())
            if epsv > 0 and bool(torch.isnan(ym[i]).any()):
                return "coefficient %d (zero variance) comes out nan with eps=%r" % (i, epsv)
            continue
        want = (col - m) / den
        tol = 16 * e * Mx / den * (1 + want.abs()) + 16 * e * want.abs() + 1e-300  # rounding of x - mean, and its effect on the own deviation
        bad = ~((ym[i] - want).abs() <= tol)
        if bool(bad.any()):
            q = int(bad.nonzero()[0])
            src = "given" if mean is not None else "own"
            return "coefficient %d, value #%d: got %r, (x - %s mean %r) / max(%s std %r, eps) = %r" % (
                i, q, ym[i, q].item(), src, m, "given" if std is not None else "own", s, want[q].item())
    return None


def cases_mvn_own(ctx):
    quick = ctx.quick
    sizes = [1, 2, 3] if quick else [1, 2, 3, 5]
    i = 0
    for D in (1, 2, 3, 4):
        for shape in itertools.product(sizes if D < 4 else ([1, 2] if quick else [1, 2, 3]), repeat=D):
            for dim in range(-D, D):
                for given in ("none", "none", "both", "mean", "std"):
                    for fn in (False, True):
                        i += 1
                        yield {"shape": list(shape), "dim": dim, "dtype": "f64" if i % 3 == 0 else "f32", "seed": i % 99991, "eps": [None, None, 1e-3, 0.5][i % 4], "given": given, "fn": fn,
                               "offset": [1.0, 0.0, -3.0][i % 3]}
    rng = random.Random(ctx.seed + 18005)
    for k in range(2000 if quick else 30000):
        D = rng.randint(1, 4)
        shape = [rng.randint(1, 7) for _ in range(D)]
        yield {"shape": shape, "dim": rng.randint(-D, D - 1), "dtype": rng.choice(["f32", "f64"]), "seed": rng.randrange(2 ** 31), "eps": rng.choice([None, None, 1e-6, 0.1]),
               "given": rng.choice(["none", "none", "both", "mean", "std"]), "fn": rng.random() < 0.5, "offset": rng.choice([0.0, 1.0, 5.0]), "scale": rng.choice([1.0, 2.0, 0.1])}


# =============================================================================================
# C18.cli.mvn


def check_cli(case):
    """case: {F, files: [[id, frames], ...], gids: None | [gid per file], lay, bessel, prefix, suffix, dtype, distract}"""
    torch = _torch()
    from pydrobert.torch.command_line import compute_mvn_stats_for_torch_feat_data_dir as cmd

    F, files, gids, lay, bessel = case["F"], case["files"], case.get("gids"), case["lay"], bool(case["bessel"])
    prefix, suffix = case.get("prefix", ""), case.get("suffix", ".pt")
    dtn = case.get("dtype") or "f32"
    dt = _dtype(dtn)
    need = 2 if bessel else 1
    groups = {}
    with tempfile.TemporaryDirectory(prefix="c18cli") as tmp:
        fdir = os.path.join(tmp, "feat")
        os.mkdir(fdir)
        dim = -1
        for j, (uid, frames) in enumerate(files):
            ten, dim = _block_tensor(frames, F, lay, dt)
            torch.save(ten, os.path.join(fdir, prefix + uid + suffix))
            rows = torch.tensor(frames, dtype=torch.float64).reshape(-1, F).to(dt).double().tolist()
            groups.setdefault(None if gids is None else gids[j], []).extend(rows)
        if case.get("distract"):
            with open(os.path.join(fdir, "README.txt"), "w") as f:
                f.write("not a tensor\n")
            huge = _block_tensor([[1e6] * F] * 2, F, lay, dt)[0]
            if prefix:
                torch.save(huge, os.path.join(fdir, "other" + suffix))  # right suffix, wrong prefix
            if suffix != ".pt":
                torch.save(huge, os.path.join(fdir, prefix + "zz.pt"))  # right prefix, wrong suffix
        out = os.path.join(tmp, "out.pt")
        args = [fdir, out, "--file-prefix", prefix, "--file-suffix", suffix, "--num-workers", "0", "--dim=%d" % dim]
        if bessel:
            args.append("--bessel")
        if gids is not None:
            with open(os.path.join(tmp, "id2gid"), "w") as f:
                for (uid, _), gid in zip(files, gids):
                    f.write("%s %s\n" % (uid, gid))
            args += ["--id2gid", os.path.join(tmp, "id2gid")]
        short = sorted(str(gk) for gk, rows in groups.items() if len(rows) < need)
        err = io.StringIO()
        try:
            with contextlib.redirect_stderr(err):
                ret = cmd(args)
            raised = None
        except RuntimeError as ex:
            ret, raised = None, ex
        if short:
            if raised is None and not ret:
                return "command succeeded although group(s) %s hold fewer than %d frame(s)" % (short, need)
            return None
        if raised is not None:
            return "count: command raised RuntimeError(%s); every group holds at least %d frame(s) (sizes %s), bessel=%s" % (raised, need, sorted(len(r) for r in groups.values()), bessel)
        if ret:
            return "command returned %r: %s" % (ret, err.getvalue()[:200])
        if not os.path.exists(out):
            return "command returned without writing the output file"
        stats = torch.load(out)
    if not isinstance(stats, dict):
        return "output is a %s, expected a dictionary" % type(stats).__name__
    if gids is None:
        stats = {None: stats}
    if set(stats) != set(groups):
        return "output has groups %s, the mapping has %s" % (sorted(map(str, stats)), sorted(map(str, groups)))
    integral = all(float(v).is_integer() and abs(v) < 1024 for rows in groups.values() for r in rows for v in r)
    e = F64["eps"] if integral else FINFO[dtn]["eps"]

    class Holder:
        pass

    for gk, rows in groups.items():
        st = stats[gk]
        if not isinstance(st, dict) or set(st) != {"mean", "std"}:
            return "group %r: entry has keys %s, expected mean and std" % (gk, sorted(st) if isinstance(st, dict) else type(st).__name__)
        h = Holder()
        h.mean, h.std = st["mean"], st["std"]
        hard, cn = _cmp_stats(h, rows, F, bessel, e, "group %r" % (gk,))
        if hard or cn:
            return (hard + cn)[0]
    return None


def _cli_data(j, k, F):
    return [[float(((j * 5 + q * 3 + f * 7 + 1) * 11) % 13 - 6) for f in range(F)] for q in range(k)]


def cases_cli(ctx):
    quick = ctx.quick
    mmax, kmax = (3, 3) if quick else (4, 3)
    presuf = [("", ".pt"), ("f_", ".pt"), ("", ".feat.pt")]
    i = 0
    for m in range(1, mmax + 1):
        for ks in itertools.product(range(1, (kmax if m <= 3 else 2) + 1), repeat=m):
            groupings = [None] + [["g%d" % l for l in labels] for labels in _rgs(m)]
            for gids in groupings:
                for bessel in (False, True):
                    for lay in ("kF", "Fk", "1kF"):
                        for prefix, suffix in presuf:
                            i += 1
                            F = 1 + i % 3
                            files = [["u%d" % (m - j), _cli_data(j, k, F)] for j, k in enumerate(ks)]  # ids sort in the reverse of the writing order
                            yield {"F": F, "files": files, "gids": gids, "lay": lay, "bessel": bessel, "prefix": prefix, "suffix": suffix, "dtype": "f64" if i % 2 else "f32", "distract": i % 3 == 0}
    if not quick:
        rng = random.Random(ctx.seed + 18006)
        for k in range(4000):
            m, F = rng.randint(1, 8), rng.randint(1, 5)
            files = [["utt-%02d" % j, _mvn_data(rng.randint(1, 6), F, rng.choice("AC"), rng)] for j in range(m)]
            gids = None if rng.random() < 0.3 else ["spk%d" % rng.randint(0, 2) for _ in range(m)]
            yield {"F": F, "files": files, "gids": gids, "lay": rng.choice(["kF", "Fk", "1kF", "kF1", "aFb"]), "bessel": rng.random() < 0.5, "prefix": rng.choice(["", "f_"]),
                   "suffix": rng.choice([".pt", ".x"]), "dtype": rng.choice(["f32", "f64"]), "distract": rng.random() < 0.3}


def _rgs(m):
    """restricted growth strings of length m (= set partitions of the files into groups)"""
    def rec(labels, k):
        if len(labels) == m:
            yield list(labels)
            return
        for l in range(k + 1):
            yield from rec(labels + [l], max(k, l + 1))

    yield from rec([], 0)


def _cli_groups(case):
    sizes = {}
    for j, (uid, frames) in enumerate(case["files"]):
        g = None if case.get("gids") is None else case["gids"][j]
        sizes[g] = sizes.get(g, 0) + len(frames)
    return sizes


def _kf_cli_one_frame(case, msg):
    """no Bessel correction and some group (or the whole directory) holds exactly one frame: same root cause as KF-C18-3"""
    return (not case["bessel"]) and 1 in _cli_groups(case).values() and msg.startswith("count: command raised RuntimeError(Too few accumulated statistics)")


# =============================================================================================
# findings on the unchanged tree

FINDINGS = [
    {"id": "KF-C18-1", "property": "C18", "clause": "C18.ret.recurrence",
     "what": "time_distributed_return builds its discount matrix as gamma**i / gamma**j; once gamma**(T-1) is subnormal or 0 in the tensor's dtype the quotients lose their digits "
             "(gamma=0.1, T=46, float32: 2% off) and then become 0/0 = nan (T>=47; T=200 as in DESIGN section 8), so R_t = r_t + gamma*R_(t+1) fails for long sequences",
     "class": "0 < |gamma| < 1 and |gamma|**(T-1) < smallest normal number of r's dtype (float32: 1.18e-38, float64: 2.2e-308)",
     "witness": {"T": 200, "N": 1, "gamma": 0.1, "dtype": "f32", "bf": False, "module": False, "seed": 0}},
    {"id": "KF-C18-2", "property": "C18", "clause": "C18.ret.recurrence",
     "what": "time_distributed_return (same quotient gamma**i / gamma**j): for gamma > 1 the powers overflow to inf and inf/inf = nan, so even the last returns R_(T-1) = r_(T-1) are nan",
     "class": "|gamma| > 1 and |gamma|**(T-1) > largest finite number of r's dtype",
     "witness": {"T": 130, "N": 1, "gamma": 2.0, "dtype": "f32", "bf": False, "module": False, "seed": 0}},
    {"id": "KF-C18-3", "property": "C18", "clause": "C18.mvn.raises",
     "what": "MeanVarianceNormalization.store() raises 'Too few accumulated statistics' with one accumulated frame and bessel=False although its documentation says one frame suffices "
             "(pooled mean = the frame, std = 0)",
     "class": "exactly one frame accumulated in total and bessel is False",
     "witness": {"F": 2, "data": [[1.0, -2.0]], "blocks": [[0]], "lay": "kF", "bessel": False, "dtype": "f32", "variant": "none", "delete": True}},
    {"id": "KF-C18-4", "property": "C18", "clause": "C18.mvn.partition",
     "what": "MeanVarianceNormalization.store() computes sumsq/n - mean**2 without clamping; for a coefficient that is constant over all frames rounding can make it negative, "
             "std becomes nan and every normalised value of that coefficient is nan",
     "class": "some coefficient has the same value in every accumulated frame (pooled variance 0) and that value is not exactly summable (e.g. 0.1)",
     "witness": {"F": 1, "data": [[0.1], [0.1], [0.1]], "blocks": [[0, 1, 2]], "lay": "kF", "bessel": False, "dtype": "f64", "variant": "none", "delete": True}},
    {"id": "KF-C18-5", "property": "C18", "clause": "C18.cli.mvn",
     "what": "compute-mvn-stats-for-torch-feat-data-dir dies with RuntimeError when the directory or one group holds a single frame and --bessel is off (same root cause as KF-C18-3)",
     "class": "--bessel not given and some group (or the whole directory without --id2gid) holds exactly one frame",
     "witness": {"F": 2, "files": [["u1", [[1.0, -2.0]]]], "gids": None, "lay": "kF", "bessel": False, "prefix": "", "suffix": ".pt", "dtype": "f32", "distract": False}},
]

KNOWN_MATCH = {"KF-C18-1": _kf_underflow, "KF-C18-2": _kf_overflow, "KF-C18-3": _kf_one_frame, "KF-C18-4": _kf_const_nan, "KF-C18-5": _kf_cli_one_frame}

CHECKERS = {
    "C18.mvn.partition": check_mvn_hist,
    "C18.mvn.raises": check_mvn_hist,
    "C18.mvn.own": check_mvn_own,
    "C18.delta.formula": check_deltas,
    "C18.ret.recurrence": check_return,
    "C18.cli.mvn": check_cli,
}


def run_bounded(ctx):
    ctx.known_match.update(KNOWN_MATCH)
    # import once in the parent so that the forked workers inherit the loaded modules
    import torch  # noqa: F401
    import pydrobert.torch  # noqa: F401
    import pydrobert.torch.command_line  # noqa: F401
    import pydrobert.torch.functional  # noqa: F401
    import pydrobert.torch.modules  # noqa: F401

    _torch().set_num_threads(1)
    only = getattr(ctx, "only", None)

    def want(name):
        return not only or any(name.startswith(p) for p in only)

    q = ctx.quick
    if want("C18.mvn.partition"):
        ctx.bounded("C18.mvn.partition", check_mvn_hist, cases_mvn_partition(ctx),
                    bound=("n in 2..%d frames, EVERY ordered set partition of the frames into blocks (13/75/541%s for n=3/4/5%s), one accumulate() per block; F in {1,2,3} (n<=3) / 2; "
                           "block tensors laid out as (k,F) dim=-1, (F,k) dim=0, (1,k,F) dim=2, (k,F,1) dim=-2, (a,F,k/a) dim=1, and (F,) per frame; bessel in {F,T}; "
                           "6 data families (small integers; integers with a constant coefficient; 3-decimal reals in float32/float64; reals with a constant 0.1 coefficient); "
                           "history variants: plain, store(delete_stats=False) after the first block (when that block alone suffices per the documentation, or must raise), a zero-frame block, an earlier estimate stored and deleted "
                           "(n<=4: full product; n>=5: data family and variant cycle)%s") % (
                        5 if q else 6, "" if q else "/4683", "" if q else "/6", "" if q else "; + 30000 seeded random histories n<=40, F<=6"),
                    text="stored mean/std = pooled mean and population/Bessel std computed exactly over the rationals from the frames; normalising the pooled frames gives mean 0 and variance 1 "
                         "per non-constant coefficient and 0 for constant ones; delete_stats honoured",
                    nontrivial=lambda c: len(c["blocks"]) > 1, chunk=256,
                    functions=["_feats.MeanVarianceNormalization.accumulate", "_feats.MeanVarianceNormalization.store", "_feats.mean_var_norm"])
    if want("C18.mvn.raises"):
        ctx.bounded("C18.mvn.raises", check_mvn_hist, cases_mvn_raises(ctx),
                    bound="n in {0,1,2} accumulated frames (incl. no accumulate() at all and only zero-frame blocks), every ordered partition, 6 layouts, F in 1..3, bessel x delete_stats, "
                          "4 data families, history variants as in C18.mvn.partition",
                    text="store() raises RuntimeError iff n < 1 (n < 2 with Bessel's correction), as documented; otherwise the statistics are those of the n frames (n=1: the frame and 0)",
                    nontrivial=lambda c: sum(len(b) for b in c["blocks"]) == 1, chunk=256,
                    functions=["_feats.MeanVarianceNormalization.store"])
    if want("C18.mvn.own"):
        ctx.bounded("C18.mvn.own", check_mvn_own, cases_mvn_own(ctx),
                    bound="every shape with sizes in %s of rank 1..3 and in %s of rank 4, every dim in [-D, D-1]; statistics none/both/mean only/std only given; module and functional; "
                          "eps in {default, 1e-3, 0.5}; float32/float64; + %d seeded random shapes with sizes <= 7" % (("{1,2,3}", "{1,2}", 2000) if q else ("{1,2,3,5}", "{1,2,3}", 30000)),
                    text="y = (x - mean_i) / max(std_i, eps) with mean_i, std_i the input's own per-coefficient population statistics over all other dimensions when not given",
                    nontrivial=lambda c: c["given"] == "none", chunk=128,
                    functions=["_feats.mean_var_norm", "_feats.MeanVarianceNormalization.forward"])
    if want("C18.delta.formula"):
        ctx.bounded("C18.delta.formula", check_deltas, cases_deltas(ctx),
                    bound="ranks 1..4 (non-time sizes 2,3,2,2), EVERY (time_dim in [-D,D-1], concatenate, dim in [-D',D'-1]) x order 0..%d x width 1..%d x 4 pad modes x "
                          "T in {Tmin, Tmin+1, order*width+2%s} (Tmin = smallest T for which the padding is defined); constant-mode pad value in {0,-2.5} (the other modes get the default 0: torch's pad rejects a non-zero value with them); float32/float64; functional and module%s" % (
                              (3, 3, "", "") if q else (4, 4, ", 7", "; + 40000 seeded random cases rank<=5, order<=4, width<=5, T<=30")),
                    text="feat_deltas/FeatureDeltas = deltas of order 0..order computed recursively by sum_w w*x[t+w]/sum_w w^2 on the input extended once by order*width frames per side "
                         "(replicate/constant/reflect/circular written out by index), stacked into a new axis or concatenated along dim",
                    nontrivial=lambda c: c["order"] >= 1, chunk=128,
                    functions=["_feats.feat_deltas", "_feats._feat_delta_filters", "_feats.FeatureDeltas.forward"])
    if want("C18.ret.recurrence"):
        ctx.bounded("C18.ret.recurrence", check_return, cases_return(ctx),
                    bound=("T in 0..7 with EVERY reward sequence over %s (batched %d per call), gamma in %s, float32/float64, both layouts, functional and module; empty batch; "
                           "%d seeded random cases T in 8..%d; long sequences T in %s x gamma in %s x dtype x layout%s") % (
                        "{-1,0,2}" if q else "{-1,0,.5,2}", 27 if q else 64, GAMMAS, 3000 if q else 30000, 64 if q else 160, LONG_T, LONG_G, "" if q else "; + 600 random cases T in 161..1500"),
                    text="R = time_distributed_return(r, gamma) satisfies R_t = r_t + gamma*R_(t+1), R_T = 0 (evaluated in float64 from the horizon backwards), shape/dtype kept, input untouched",
                    nontrivial=lambda c: c["T"] >= 2 and c["gamma"] != 0, chunk=64,
                    functions=["_rl.time_distributed_return", "_rl.TimeDistributedReturn.forward"])
    if want("C18.cli.mvn"):
        ctx.bounded("C18.cli.mvn", check_cli, cases_cli(ctx),
                    bound="1..%d files with every combination of 1..3 frames each (1..2 for 4 files), no --id2gid or EVERY partition of the files into groups, --bessel on/off, file tensors (k,F)/--dim=-1, (F,k)/--dim=0, "
                          "(1,k,F)/--dim=2, 3 (prefix, suffix) pairs, F in 1..3, float32/float64, non-matching files present in every third case; --num-workers 0%s" % (
                              (3, "") if q else (4, "; + 4000 seeded random directories with <= 8 files")),
                    text="the command writes {'mean','std'} (nested per group with --id2gid) equal to the pooled statistics of exactly the frames of the matching files of each group",
                    nontrivial=lambda c: len(c["files"]) > 1, chunk=32,
                    functions=["command_line.compute_mvn_stats_for_torch_feat_data_dir", "command_line._DirectoryDataset"])
    ctx.replay_known_witnesses()
    ctx.not_applicable.append("C18: TorchScript-compiled variants, CUDA tensors, float16/bfloat16, integer reward tensors and the command's worker processes (--num-workers > 0) are not exercised; "
                              "'unit variance after normalising' is stated for coefficients whose pooled deviation is at least 1e-3*(1+max|x|) (zero-variance coefficients are excluded by precondition); "
                              "returns whose true value exceeds the dtype's range are not compared")
    ctx.assume("statistics compared with the exact rational pooled values: mean within 8*n*eps*(1+max|x|), std within min(6*sqrt(n*eps)*(1+max|x|), 12*n*eps*(1+max|x|)^2/std); eps = 2^-52 when all data are "
               "small integers (all sums exact), else the data dtype's machine epsilon (block sums are taken in the data dtype)",
               "returns compared with the float64 recurrence within eps*((8+T)*sum_s|gamma|^(s-t)|r_s| + 2*sum_s (s-t)|gamma|^(s-t)|r_s|) + 4*tiny of the reward dtype (gamma itself is rounded to that dtype)",
               "deltas compared within 4e-6*(1+max|x|)*(order+1) (the filter taps are float32 constants)",
               "normalised values compared within 16*eps*(|x|+|mean|)/max(std,eps)*(1+|y|) + 16*eps*|y|",
               "CPU tensors only; torch.stack/torch.cat/movedim/indexing are trusted to build the oracle's layout")
