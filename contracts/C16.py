"""C16 - a crash during an epoch update never loses the last or best checkpoint."""
from contracts import C16_vc
from vf.pyvc import api

try:
    from contracts import C16_rt
except ImportError:
    C16_rt = None
CHECKERS = dict(C16_rt.CHECKERS) if C16_rt else {}


def _kf2(case, msg):
    m = msg or ""
    return ("paths=const" in m or "paths=model_unique_optim_const" in m) and ("/recovery_at_every_cut" in m or "/final_state" in m)


KNOWN_MATCH = {"KF-C16-2": _kf2}


def run(ctx):
    ctx.known_match.update(KNOWN_MATCH)
    api.run_vcs(ctx, C16_vc.vcs(ctx) + C16_vc.finding_vcs(ctx), {
        "C16.order.cutpoints": "update_for_epoch persistence part: after EVERY prefix of the file-system events of every path (incl. any subset of the clean-up) the last and best recorded epochs are loadable with their own parameters; exact-keep / keep-all re-established; refusal iff the best checkpoint would be overwritten"})
    for a in C16_vc.c15.ASSUME:
        ctx.assume(a)
    if C16_rt:
        C16_rt.run_bounded(ctx)
    ctx.not_applicable.append("fault sequences other than one process death (torn writes inside torch.save, power loss without fsync, two crashes in a row): the ghost file system has atomic events")
