"""C16 - a crash during an epoch update never loses the last or best checkpoint.

Bounded run-time contracts only so far (contracts/C16_rt.py: crash injection at every file-system
mutating call); the deductive clauses of DESIGN.md section 3 (C16.order.cutpoints, C16.keep.exact)
are added here when written.
"""
from contracts import C16_rt

CHECKERS = dict(C16_rt.CHECKERS)


def run(ctx):
    C16_rt.run_bounded(ctx)
