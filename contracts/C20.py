"""C20 - attention is a masked convex combination of values, blind to masked positions."""
from contracts import C20_rt, C20_vc
from vf.pyvc import api

CHECKERS = dict(C20_rt.CHECKERS)


def run(ctx):
    from vf.pyvc import crosscheck_sym

    crosscheck_sym.guard(ctx)  # the symbolic-shape tensor layer against real torch, before the clauses that rest on it
    api.run_vcs(ctx, C20_vc.p_vcs(ctx), {"C20.P.convex": "real dot-product soft attention source for SYMBOLIC sequence length, key size and value size: every output coordinate lies between any lower and upper bound of the kept values (induction over the sequence index; sum and softmax as assumed partial-sum contracts); also the forward inherited by the generalized-dot-product and concat flavours with `score` under contract (ANY real scores): the bound holds for every score function",
                                         "C20.P.blind": "two runs of the real dot-product soft attention on keys / values that agree at the kept positions give the same output, for SYMBOLIC sequence length, key size and value size (dot products by induction over the key dimension, softmax congruence assumed, weighted sums by induction over the sequence)"})
    api.run_vcs(ctx, C20_vc.vcs(ctx), {"C20.S.convex_blind": "real dot-product / generalised soft attention source: output coordinate within [min, max] of the kept values; output unchanged when masked keys/values are replaced; all contents"},
                bounded="sequence length T<=3 (4), key size <=2, value size <=2, sequence dim 0, un-batched; ALL queries, keys, values, masks, parameters")
    C20_rt.run_bounded(ctx)
