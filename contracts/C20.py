"""C20 - attention is a masked convex combination of values, blind to masked positions.

Bounded run-time contracts only so far (contracts/C20_rt.py); the deductive obligations of DESIGN.md
par. 3 (C20.soft.convex, C20.soft.blind) are added here when engine A's tensor layer reaches them.
"""
from contracts import C20_rt

CHECKERS = dict(C20_rt.CHECKERS)


def run(ctx):
    C20_rt.run_bounded(ctx)
