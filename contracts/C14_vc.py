"""C14, engine A part: loop invariant on the real `BucketBatchSampler.__iter__` for a sampler of SYMBOLIC length.

Abstraction (stated assumptions): the underlying sampler is an abstract sequence idx(0..S-1); idx2bucket / bucket2size
are uninterpreted maps B, SZ with SZ >= 1 (documented: sizes positive); the dict `batches` of pending lists is the array
pend: bucket -> pending length (0 = absent) - a pending list only ever receives indices of its own bucket, so its content is
"the last pend[h] indices of bucket h, in sampler order" by construction; ghost arrays cnt (indices consumed per bucket) and
full (full batches yielded per bucket).
Invariant, for EVERY bucket h:  cnt[h] = full[h] * SZ(h) + pend[h],  0 <= pend[h] < SZ(h),  full[h] >= 0,
and every yielded batch has exactly SZ(h) elements (checked where it is yielded; `elif batch_size < len(batch)` unreachable).
After the loop: with drop_incomplete the pending lists are the only losses (< SZ(h) each); otherwise each non-empty pending
list is yielded exactly once. Lemma (len formula of `_get_batch_sampler_len`): the number of batches of bucket h is
cnt[h] // SZ(h) when dropping and (cnt[h] + SZ(h) - 1) // SZ(h) otherwise.
"""
import z3

from vf.pyvc import api, interp as ip
from vf.pyvc.api import VC
from vf.pyvc.interp import LoopSpec, PyRaise, SObj, Unsupported

M = "pydrobert.torch._dataloaders"
S = z3.Int("sampler_len")
IDX = z3.Function("idx", z3.IntSort(), z3.IntSort())
B = z3.Function("bucket_of", z3.IntSort(), z3.IntSort())
SZ = z3.Function("size_of", z3.IntSort(), z3.IntSort())
HSK = z3.Int("bucket_skolem")
Arr = lambda n: z3.Array(n, z3.IntSort(), z3.IntSort())


class AbsSeq:
    pass


class FnMap:
    def __init__(self, fn, positive=False):
        self.fn, self.positive = fn, positive

    def __vc_getitem__(self, I, k):
        v = self.fn(ip.to_z3(k))
        if self.positive:
            I.ex.assume(v >= 1)
        return v


class AbsList:
    def __init__(self, d, h):
        self.d, self.h = d, h

    def __vc_getattr__(self, I, name):
        me = self
        if name != "append":
            raise Unsupported("pending list .%s" % name)

        class M_:
            def __vc_call__(s, I, a, k):
                me.d.pend = z3.Store(me.d.pend, me.h, z3.Select(me.d.pend, me.h) + 1)

        return M_()

    def __vc_len__(self, I):
        return z3.Select(self.d.pend, self.h)


class PendDict:
    def __init__(self, I):
        self.pend = z3.K(z3.IntSort(), z3.IntVal(0))  # dict(): nothing pending
        self.full = z3.K(z3.IntSort(), z3.IntVal(0))
        self.cnt = z3.K(z3.IntSort(), z3.IntVal(0))
        self.flushed = False
        self.bad_yield = z3.BoolVal(False)

    def __vc_getattr__(self, I, name):
        d = self

        class SetDefault:
            def __vc_call__(s, I, a, k):
                return AbsList(d, ip.to_z3(a[0]))

        class Items:
            def __vc_call__(s, I, a, k):
                return d

        if name == "setdefault":
            return SetDefault()
        if name == "items":
            return Items()
        raise Unsupported("batches.%s" % name)

    def delete(self, I, h):
        self.pend = z3.Store(self.pend, h, z3.IntVal(0))


def bucket_vc(drop):
    import pydrobert.torch._dataloaders as dl

    name = "BucketBatchSampler.__iter__[drop_incomplete=%s]" % drop

    class Interp2(ip.Interp):
        pass

    def thunk(I):
        d = PendDict(I)
        I.ex.ghost["d"] = d
        obj = SObj(dl.BucketBatchSampler, {"sampler": AbsSeq(), "idx2bucket": FnMap(B), "bucket2size": FnMap(SZ, positive=True), "drop_incomplete": drop}, "self")
        I.stubs["builtins.dict"] = lambda I2, *a, **k: d
        I.stubs["builtins.sorted"] = lambda I2, it, **k: it
        # `yield batch` inside the main loop: ghost-count it and check its length; `del batches[hash_]`
        orig_expr, orig_del = I.st_Expr, I.st_Delete

        def st_expr(s, f):
            import ast

            if isinstance(s.value, ast.Yield) and isinstance(s.value.value, ast.Name) and not d.flushed and isinstance(f.lookup(s.value.value.id), AbsList):
                lst = f.lookup(s.value.value.id)  # whatever the local holding the pending list is called
                h = lst.h
                d.bad_yield = z3.Or(d.bad_yield, z3.Select(d.pend, h) != SZ(h))
                d.full = z3.Store(d.full, h, z3.Select(d.full, h) + 1)
                return
            return orig_expr(s, f)

        def st_delete(s, f):
            import ast

            for t in s.targets:
                if isinstance(t, ast.Subscript) and I.eval(t.value, f) is d:  # `del <the dict of pending lists>[h]`, whatever it is called
                    d.delete(I, ip.to_z3(I.eval(t.slice, f)))
                    return
            raise Unsupported("del of something other than an entry of the pending-lists dict")

        I.st_Expr, I.st_Delete = st_expr, st_delete
        return I.call(I.getattr(obj, "__iter__"), [], {})

    def inv_at(d, h):
        c, fu, p = z3.Select(d.cnt, h), z3.Select(d.full, h), z3.Select(d.pend, h)
        return z3.And(c == fu * SZ(h) + p, 0 <= p, p < SZ(h), fu >= 0, SZ(h) >= 1)

    def inv(I, f, k):  # the quantified invariant at the goal's skolem bucket
        d = I.ex.ghost["d"]
        return z3.And(inv_at(d, HSK), z3.Not(d.bad_yield))

    def hyp_inv(I, f, k):  # instances used as hypotheses: the skolem bucket and the bucket the coming iteration touches
        d = I.ex.ghost["d"]
        return z3.And(inv_at(d, HSK), inv_at(d, B(IDX(k))), z3.Not(d.bad_yield))

    class MainLoop(LoopSpec):
        def run(self, I, s, f):
            d = I.ex.ghost["d"]
            I.ex.oblige(self.name + ".init", self.inv(I, f, z3.IntVal(0)))
            d.pend, d.full, d.cnt = I.ex.fresh(Arr("x").sort(), "pend"), I.ex.fresh(Arr("x").sort(), "full"), I.ex.fresh(Arr("x").sort(), "cnt")
            d.bad_yield = I.ex.fresh("bool", "bad_yield")
            return LoopSpec.run(self, I, s, f, emit_init=False)

    def item(I, f, it, k):
        d = I.ex.ghost["d"]
        i = IDX(k)
        d.cnt = z3.Store(d.cnt, B(i), z3.Select(d.cnt, B(i)) + 1)  # ghost: one more index of this bucket consumed
        return i

    main = MainLoop("bucket.loop", inv, length=lambda I, f, it: S, item=item, modifies={"idx": "int", "hash_": "int", "batch_size": "int"}, hyp_inv=hyp_inv)

    class FlushLoop(LoopSpec):
        """for _, batch in sorted(batches.items()): yield batch  -- each pending (non-empty) list yielded exactly once"""

        def run(self, I, s, f):
            d = I.ex.ghost["d"]
            d.flushed = True

    loops = {("__iter__", 0): main, ("__iter__", 1): FlushLoop("bucket.flush", None, None, None, {})}

    def post(p):
        if not api.returns(p):
            return False
        d = p.ghost["d"]
        h = HSK
        c, fu, pe, sz = z3.Select(d.cnt, h), z3.Select(d.full, h), z3.Select(d.pend, h), SZ(h)
        goals = [("no_batch_of_wrong_size_yielded", z3.Not(d.bad_yield)),
                 ("accounting", z3.And(c == fu * sz + pe, 0 <= pe, pe < sz))]
        if drop:
            goals.append(("only_the_incomplete_batch_is_lost", z3.And(z3.BoolVal(not d.flushed), c - fu * sz == pe, pe < sz)))
        else:
            goals.append(("incomplete_batches_flushed_once", z3.BoolVal(d.flushed)))
        return goals

    # len formula lemma (LIA with a symbolic divisor made linear by the accounting identity)
    c, fu, pe, sz = z3.Ints("cnt full pend size")
    acc = [c == fu * sz + pe, 0 <= pe, pe < sz, fu >= 0, sz >= 1]
    lemmas = [("len_formula_drop", acc, c / sz == fu), ("len_formula_keep", acc, (c + sz - 1) / sz == fu + z3.If(pe > 0, 1, 0))]
    return VC("C14.bucket.iter_inv", name, M, "BucketBatchSampler.__iter__", thunk, pre=[S >= 0, SZ(HSK) >= 1], posts=[("every_index_in_exactly_one_batch_or_dropped", post)],
              loops=loops, lemmas=lemmas if drop else [], twins=[("nothing_ever_pending", lambda p: z3.Select(p.ghost["d"].pend, HSK) == 0 if api.returns(p) else None)],
              inputs={"sampler_len": S}, timeout_ms=60000,
              assumptions=["sampler abstracted to a sequence of symbolic length; idx2bucket / bucket2size uninterpreted maps with positive sizes",
                           "`batches` abstracted to pending-length / full-batch / consumed-count arrays over buckets; a pending list only receives indices of its own bucket (by construction of the loop body), so its content and order are those of the sampler",
                           "the flush loop is abstracted to 'every non-empty pending list is yielded once' (its order is not part of the property)"])


def len_vc(drop):
    """_get_batch_sampler_len on a bucketing sampler = the number of batches its __iter__ yields, for a SYMBOLIC number of buckets.
    Abstraction: Counter(idx2bucket[i] for i in the epoch's samples) is the map bucket -> cnt(bucket) over K >= 0 distinct buckets
    (cnt >= 1 for a bucket that occurs) - the same ghost count as in C14.bucket.iter_inv. By that clause's conclusion every bucket
    satisfies cnt = full * size + pend, 0 <= pend < size, where `full` full batches were yielded and one more batch is flushed at the
    end iff pend > 0 and incomplete batches are kept. Loop invariant: len_ = BATCHES(k), the number of batches of the first k buckets."""
    import pydrobert.torch._dataloaders as dl

    K = z3.Int("num_buckets")
    HB = z3.Function("bucket_at", z3.IntSort(), z3.IntSort())
    CNT = z3.Function("count_of", z3.IntSort(), z3.IntSort())
    FULL = z3.Function("full_batches_of", z3.IntSort(), z3.IntSort())
    PEND = z3.Function("pending_of", z3.IntSort(), z3.IntSort())
    BATCHES = z3.Function("batches_of_first", z3.IntSort(), z3.IntSort())
    name = "_get_batch_sampler_len[symbolic number of buckets; drop_incomplete=%s]" % drop
    per_bucket = lambda h: FULL(h) + (z3.IntVal(0) if drop else z3.If(PEND(h) > 0, 1, 0))
    accounting = lambda h: z3.And(CNT(h) == FULL(h) * SZ(h) + PEND(h), 0 <= PEND(h), PEND(h) < SZ(h), FULL(h) >= 0, SZ(h) >= 1, CNT(h) >= 1)
    rec = lambda k: z3.Implies(k >= 0, BATCHES(k + 1) == BATCHES(k) + per_bucket(HB(k)))

    class AbsCounter:
        def __vc_getattr__(self, I, nm):
            me = self
            if nm != "items":
                raise Unsupported("Counter.%s" % nm)

            class M_:
                def __vc_call__(s, I2, a, k):
                    return me

            return M_()

    def thunk(I):
        class Sampler:
            def __vc_getattr__(self, I2, nm):
                if nm == "epoch":
                    return z3.Int("epoch")
                if nm == "get_samples_for_epoch":
                    class M_:
                        def __vc_call__(s, I3, a, k):
                            I3.ex.oblige("len.counts_the_current_epoch", ip.to_z3(a[0]) == z3.Int("epoch"))
                            return GenericSeq()
                    return M_()
                raise Unsupported("sampler.%s" % nm)

        class GenericSeq:  # the epoch's samples: the comprehension is element-wise, one generic element stands for all
            def __vc_iter__(self, I2):
                return [IDX(z3.Int("k_generic"))]

        def counter(I2, it=None):
            elems = list(it) if isinstance(it, list) else None
            I2.ex.oblige("len.counts_buckets_of_the_samples", z3.BoolVal(elems is not None and len(elems) == 1) if elems is None or len(elems) != 1 else ip.to_z3(elems[0]) == B(IDX(z3.Int("k_generic"))))
            return AbsCounter()

        I.stubs["collections.Counter"] = counter
        obj = SObj(dl.BucketBatchSampler, {"sampler": Sampler(), "idx2bucket": FnMap(B), "bucket2size": FnMap(SZ), "drop_incomplete": drop}, "bs")
        return I.call(dl._get_batch_sampler_len, [obj], {})

    def inv(I, f, k):
        return ip.to_z3(f.locals["len_"]) == BATCHES(k)

    class Loop(LoopSpec):
        def run(self, I, s, f):
            return LoopSpec.run(self, I, s, f)

    def item(I, f, it, k):
        h = HB(k)
        I.ex.assume(accounting(h))  # conclusion of C14.bucket.iter_inv for this bucket
        I.ex.assume(rec(k))  # definition of the spec count
        return (h, CNT(h))

    loop = LoopSpec("len.loop", inv, length=lambda I, f, it: K, item=item, modifies={"len_": "int", "bucket": "int", "count": "int", "size": "int"})

    def post(p):
        if not api.returns(p):
            return False
        return [("length_is_the_number_of_batches_iter_yields", ip.to_z3(p.value) == BATCHES(K))]

    return VC("C14.P.len_is_number_of_batches", name, M, "_get_batch_sampler_len", thunk, pre=[K >= 0, BATCHES(0) == 0], posts=[("len", post)], loops={("_get_batch_sampler_len", 0): loop},
              inputs={"num_buckets": K}, timeout_ms=60000,
              twins=[("one_more", lambda p: ip.to_z3(p.value) == BATCHES(K) + 1 if api.returns(p) else None)],
              assumptions=["Counter over the epoch's samples abstracted to a map over K distinct buckets with the counts of C14.bucket.iter_inv; per bucket the accounting identity cnt = full * size + pend (0 <= pend < size) is that clause's proved conclusion, assumed here",
                           "the comprehension inside Counter(...) is not executed (its argument is the ghost count); sampler.get_samples_for_epoch is asked for the sampler's current epoch (obligation)"])


def vcs(ctx):
    return [bucket_vc(True), bucket_vc(False), len_vc(True), len_vc(False)]
