"""C14, engine A part: loop invariant on the real `BucketBatchSampler.__iter__` for a sampler of SYMBOLIC length.

Abstraction (stated assumptions): the underlying sampler is an abstract sequence idx(0..S-1); idx2bucket / bucket2size
are uninterpreted maps B, SZ with SZ >= 1 (documented: sizes positive); the dict `batches` of pending lists is the array
pend: bucket -> pending length (0 = absent) - a pending list only ever receives indices of its own bucket, so its content is
"the last pend[h] indices of bucket h, in sampler order" by construction; ghost arrays cnt (indices consumed per bucket) and
full (full batches yielded per bucket).
Invariant, for EVERY bucket h:  cnt[h] = full[h] * SZ(h) + pend[h],  0 <= pend[h] < SZ(h),  full[h] >= 0,
and every yielded batch has exactly SZ(h) elements (checked where it is yielded; `elif batch_size < len(batch)` unreachable).
After the loop: with drop_incomplete the pending lists are the only losses (< SZ(h) each); otherwise each non-empty pending
list is yielded exactly once. Lemma (len formula of `_get_batch_sampler_len`): the number of batches of bucket h is
cnt[h] // SZ(h) when dropping and (cnt[h] + SZ(h) - 1) // SZ(h) otherwise.
"""
import z3

from vf.pyvc import api, interp as ip
from vf.pyvc.api import VC
from vf.pyvc.interp import LoopSpec, PyRaise, SObj, Unsupported

M = "pydrobert.torch._dataloaders"
S = z3.Int("sampler_len")
IDX = z3.Function("idx", z3.IntSort(), z3.IntSort())
B = z3.Function("bucket_of", z3.IntSort(), z3.IntSort())
SZ = z3.Function("size_of", z3.IntSort(), z3.IntSort())
HSK = z3.Int("bucket_skolem")
Arr = lambda n: z3.Array(n, z3.IntSort(), z3.IntSort())


class AbsSeq:
    pass


class FnMap:
    def __init__(self, fn, positive=False):
        self.fn, self.positive = fn, positive

    def __vc_getitem__(self, I, k):
        v = self.fn(ip.to_z3(k))
        if self.positive:
            I.ex.assume(v >= 1)
        return v


class AbsList:
    def __init__(self, d, h):
        self.d, self.h = d, h

    def __vc_getattr__(self, I, name):
        me = self
        if name != "append":
            raise Unsupported("pending list .%s" % name)

        class M_:
            def __vc_call__(s, I, a, k):
                me.d.pend = z3.Store(me.d.pend, me.h, z3.Select(me.d.pend, me.h) + 1)

        return M_()

    def __vc_len__(self, I):
        return z3.Select(self.d.pend, self.h)


class PendDict:
    def __init__(self, I):
        self.pend = z3.K(z3.IntSort(), z3.IntVal(0))  # dict(): nothing pending
        self.full = z3.K(z3.IntSort(), z3.IntVal(0))
        self.cnt = z3.K(z3.IntSort(), z3.IntVal(0))
        self.flushed = False
        self.bad_yield = z3.BoolVal(False)

    def __vc_getattr__(self, I, name):
        d = self

        class SetDefault:
            def __vc_call__(s, I, a, k):
                return AbsList(d, ip.to_z3(a[0]))

        class Items:
            def __vc_call__(s, I, a, k):
                return d

        if name == "setdefault":
            return SetDefault()
        if name == "items":
            return Items()
        raise Unsupported("batches.%s" % name)

    def delete(self, I, h):
        self.pend = z3.Store(self.pend, h, z3.IntVal(0))


def bucket_vc(drop):
    import pydrobert.torch._dataloaders as dl

    name = "BucketBatchSampler.__iter__[drop_incomplete=%s]" % drop

    class Interp2(ip.Interp):
        pass

    def thunk(I):
        d = PendDict(I)
        I.ex.ghost["d"] = d
        obj = SObj(dl.BucketBatchSampler, {"sampler": AbsSeq(), "idx2bucket": FnMap(B), "bucket2size": FnMap(SZ, positive=True), "drop_incomplete": drop}, "self")
        I.stubs["builtins.dict"] = lambda I2, *a, **k: d
        I.stubs["builtins.sorted"] = lambda I2, it, **k: it
        # `yield batch` inside the main loop: ghost-count it and check its length; `del batches[hash_]`
        orig_expr, orig_del = I.st_Expr, I.st_Delete

        def st_expr(s, f):
            import ast

            if isinstance(s.value, ast.Yield) and isinstance(s.value.value, ast.Name) and s.value.value.id == "batch" and not d.flushed:
                lst = f.lookup("batch")
                h = lst.h
                d.bad_yield = z3.Or(d.bad_yield, z3.Select(d.pend, h) != SZ(h))
                d.full = z3.Store(d.full, h, z3.Select(d.full, h) + 1)
                return
            return orig_expr(s, f)

        def st_delete(s, f):
            import ast

            for t in s.targets:
                if isinstance(t, ast.Subscript) and ast.unparse(t.value) == "batches":
                    d.delete(I, ip.to_z3(I.eval(t.slice, f)))
                    return
            return orig_del(s, f)

        I.st_Expr, I.st_Delete = st_expr, st_delete
        return I.call(I.getattr(obj, "__iter__"), [], {})

    def inv_at(d, h):
        c, fu, p = z3.Select(d.cnt, h), z3.Select(d.full, h), z3.Select(d.pend, h)
        return z3.And(c == fu * SZ(h) + p, 0 <= p, p < SZ(h), fu >= 0, SZ(h) >= 1)

    def inv(I, f, k):  # the quantified invariant at the goal's skolem bucket
        d = I.ex.ghost["d"]
        return z3.And(inv_at(d, HSK), z3.Not(d.bad_yield))

    def hyp_inv(I, f, k):  # instances used as hypotheses: the skolem bucket and the bucket the coming iteration touches
        d = I.ex.ghost["d"]
        return z3.And(inv_at(d, HSK), inv_at(d, B(IDX(k))), z3.Not(d.bad_yield))

    class MainLoop(LoopSpec):
        def run(self, I, s, f):
            d = I.ex.ghost["d"]
            I.ex.oblige(self.name + ".init", self.inv(I, f, z3.IntVal(0)))
            d.pend, d.full, d.cnt = I.ex.fresh(Arr("x").sort(), "pend"), I.ex.fresh(Arr("x").sort(), "full"), I.ex.fresh(Arr("x").sort(), "cnt")
            d.bad_yield = I.ex.fresh("bool", "bad_yield")
            return LoopSpec.run(self, I, s, f, emit_init=False)

    def item(I, f, it, k):
        d = I.ex.ghost["d"]
        i = IDX(k)
        d.cnt = z3.Store(d.cnt, B(i), z3.Select(d.cnt, B(i)) + 1)  # ghost: one more index of this bucket consumed
        return i

    main = MainLoop("bucket.loop", inv, length=lambda I, f, it: S, item=item, modifies={"idx": "int", "hash_": "int", "batch_size": "int"}, hyp_inv=hyp_inv)

    class FlushLoop(LoopSpec):
        """for _, batch in sorted(batches.items()): yield batch  -- each pending (non-empty) list yielded exactly once"""

        def run(self, I, s, f):
            d = I.ex.ghost["d"]
            d.flushed = True

    loops = {("__iter__", 0): main, ("__iter__", 1): FlushLoop("bucket.flush", None, None, None, {})}

    def post(p):
        if not api.returns(p):
            return False
        d = p.ghost["d"]
        h = HSK
        c, fu, pe, sz = z3.Select(d.cnt, h), z3.Select(d.full, h), z3.Select(d.pend, h), SZ(h)
        goals = [("no_batch_of_wrong_size_yielded", z3.Not(d.bad_yield)),
                 ("accounting", z3.And(c == fu * sz + pe, 0 <= pe, pe < sz))]
        if drop:
            goals.append(("only_the_incomplete_batch_is_lost", z3.And(z3.BoolVal(not d.flushed), c - fu * sz == pe, pe < sz)))
        else:
            goals.append(("incomplete_batches_flushed_once", z3.BoolVal(d.flushed)))
        return goals

    # len formula lemma (LIA with a symbolic divisor made linear by the accounting identity)
    c, fu, pe, sz = z3.Ints("cnt full pend size")
    acc = [c == fu * sz + pe, 0 <= pe, pe < sz, fu >= 0, sz >= 1]
    lemmas = [("len_formula_drop", acc, c / sz == fu), ("len_formula_keep", acc, (c + sz - 1) / sz == fu + z3.If(pe > 0, 1, 0))]
    return VC("C14.bucket.iter_inv", name, M, "BucketBatchSampler.__iter__", thunk, pre=[S >= 0, SZ(HSK) >= 1], posts=[("every_index_in_exactly_one_batch_or_dropped", post)],
              loops=loops, lemmas=lemmas if drop else [], twins=[("nothing_ever_pending", lambda p: z3.Select(p.ghost["d"].pend, HSK) == 0 if api.returns(p) else None)],
              inputs={"sampler_len": S}, timeout_ms=60000,
              assumptions=["sampler abstracted to a sequence of symbolic length; idx2bucket / bucket2size uninterpreted maps with positive sizes",
                           "`batches` abstracted to pending-length / full-batch / consumed-count arrays over buckets; a pending list only receives indices of its own bucket (by construction of the loop body), so its content and order are those of the sampler",
                           "the flush loop is abstracted to 'every non-empty pending list is yielded once' (its order is not part of the property)"])


def vcs(ctx):
    return [bucket_vc(True), bucket_vc(False)]
