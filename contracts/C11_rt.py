"""C11 - transcript files read back exactly what was written (engine B: bounded run-time contracts).

Contracts on the real `pydrobert.torch.data` functions, each against a spec written from the
property's wording (never from `_parsing.py`):

  C11.trn.roundtrip            read_trn(write_trn(T)) == T, nested alternates, timed tokens lose their times
  C11.trn.processes            read_trn/read_trn_iter with processes in {0,1,3} and any chunk size give the same list
  C11.ctm.roundtrip            read_ctm(write_ctm(T, utt2wc), wc2utt) == T up to the ordering ctm mandates
  C11.tg.roundtrip             read_textgrid(write_textgrid(T)) == T within the print precision; gaps filled on request
  C11.dispatch.path_vs_handle  path and open handle: byte-identical files / equal results under every option combination
  C11.tok.roundtrip            token_to_transcript(transcript_to_token(T)) == T, times within one frame shift

A case is JSON: transcripts are lists; a trn element is a token `"a"`, a timed token `["a", s, e]` or a
top-level alternate `[[branch, ...], -1, -1]` whose branches are lists of tokens / nested `[branch, ...]`.
"""
import io
import itertools
import os
import random
import tempfile
import warnings
from functools import lru_cache

# ---------------------------------------------------------------------------------------------------
# helpers


def _data():
    import pydrobert.torch.data as data

    return data


def _tmpdir():
    """a private TemporaryDirectory (removed on exit); on a memory file system when there is one: directory creation on the shared disk costs milliseconds"""
    shm = "/dev/shm"
    return tempfile.TemporaryDirectory(prefix="verif_C11_", dir=shm if os.path.isdir(shm) and os.access(shm, os.W_OK) else None)


def _norm(x):
    """tuples -> lists, recursively (the library returns tuples, cases are JSON lists)"""
    if isinstance(x, (list, tuple)):
        return [_norm(y) for y in x]
    return x


def _is_alt(x):
    return isinstance(x, (list, tuple)) and len(x) == 3 and isinstance(x[0], (list, tuple))


def _is_timed(x):
    return isinstance(x, (list, tuple)) and len(x) == 3 and isinstance(x[0], str)


def _trn_in(transcript):
    """JSON transcript -> what a user hands to write_trn (alternates / timed tokens as tuples)"""
    out = []
    for x in transcript:
        if isinstance(x, str):
            out.append(x)
        else:
            out.append((x[0], x[1], x[2]))
    return out


def _trn_expect(transcript):
    """what must come back: times of timed tokens are not part of a trn file; everything else verbatim"""
    out = []
    for x in transcript:
        if _is_timed(x):
            out.append(x[0])
        else:
            out.append(_norm(x))
    return out


def _short(x, n=300):
    s = repr(x)
    return s if len(s) <= n else s[:n] + "..."


# ---------------------------------------------------------------------------------------------------
# trn: exhaustive generator of transcripts by number of leaves and nesting depth


@lru_cache(maxsize=None)
def _seqs(n, d, toks, min_br):
    """all sequences of elements with exactly n leaf tokens, alternates nested at most d deep"""
    if n == 0:
        return ((),)
    out = []
    for n1 in range(1, n + 1):
        for first in _elems(n1, d, toks, min_br):
            for rest in _seqs(n - n1, d, toks, min_br):
                out.append((first,) + rest)
    return tuple(out)


@lru_cache(maxsize=None)
def _elems(n, d, toks, min_br):
    out = []
    if n == 1:
        out.extend(toks)
    if d > 0:
        out.extend(_alts(n, d, toks, min_br))
    return tuple(out)


def _compositions(n, k):
    if k == 1:
        yield (n,)
        return
    for a in range(1, n - k + 2):
        for rest in _compositions(n - a, k - 1):
            yield (a,) + rest


@lru_cache(maxsize=None)
def _alts(n, d, toks, min_br):
    """alternates (tuples of branches) with n leaves in total; every branch non-empty"""
    out = []
    for k in range(min_br, n + 1):
        for comp in _compositions(n, k):
            for branches in itertools.product(*[_seqs(c, d - 1, toks, min_br) for c in comp]):
                out.append(tuple(branches))
    return tuple(out)


def _to_json_top(seq):
    """generator value -> JSON transcript: nested tuples -> lists, a top-level alternate gets its (-1, -1)"""
    out = []
    for x in seq:
        if isinstance(x, str):
            out.append(x)
        else:
            out.append([_norm(x), -1, -1])
    return out


def _depth(x):
    if isinstance(x, str):
        return 0
    if _is_alt(x):
        x = x[0]
    if _is_timed(x):
        return 0
    return 1 + max((max((_depth(y) for y in br), default=0) for br in x), default=0)


UTT_IDS = ["u1", "utt 2", "spk-A_003", "10", "9"]


def _all_trn(nmax, depth, toks, min_br=1):
    for n in range(nmax + 1):
        for s in _seqs(n, depth, tuple(toks), min_br):
            yield _to_json_top(s)


def _pack(transcripts, per_file, ids=UTT_IDS):
    """group transcripts into files of `per_file` utterances with distinct ids (the id order rotates from file to file)"""
    buf, k = [], 0
    for t in transcripts:
        j = len(buf)
        buf.append([ids[(k + j) % len(ids)] + ("" if j < len(ids) else ".%d" % j), t])
        if len(buf) == per_file:
            yield buf
            buf = []
            k += 1
    if buf:
        yield buf


SAFE_CHARS = "abcXYZ019@()-_'.,:;!?*+=&%$#~^|<>[]\\\"é中"


def _rand_token(rng, inside_alt=True):
    n = rng.choice([1, 1, 2, 3, 3, 5])
    return "".join(rng.choice(SAFE_CHARS) for _ in range(n))


def _rand_branches(rng, depth, budget):
    nb = rng.randint(1, 3)
    return [_rand_seq(rng, depth - 1, budget, nonempty=True, top=False) for _ in range(nb)]


def _rand_seq(rng, depth, budget, nonempty=False, top=True):
    n = rng.randint(1 if nonempty else 0, 4)
    out = []
    for _ in range(n):
        r = rng.random()
        if depth > 0 and r < 0.35 and budget[0] > 0:
            budget[0] -= 1
            br = _rand_branches(rng, depth, budget)
            out.append([br, -1, -1] if top else br)
        elif top and r > 0.9:
            s = rng.choice([0.0, 0.25, 1.5, 3.0])
            out.append([_rand_token(rng), s, s + rng.choice([0.0, 0.5])])
        else:
            out.append(_rand_token(rng))
    return out


def _rand_utt(rng):
    n = rng.randint(1, 8)
    s = "".join(rng.choice("abcXYZ019 -_./{}@é") for _ in range(n))
    return s


def check_trn(case):
    """case: {"utts": [[utt_id, transcript], ...]}"""
    data = _data()
    utts = case["utts"]
    given = [(u, _trn_in(t)) for u, t in utts]
    want = [[u, _trn_expect(t)] for u, t in utts]
    f = io.StringIO()
    data.write_trn(given, f)
    text = f.getvalue()
    if text.count("\n") != len(utts):
        return "file has %d lines for %d utterances: %r" % (text.count("\n"), len(utts), text[:200])
    with warnings.catch_warnings():
        warnings.simplefilter("ignore")
        back = _norm(data.read_trn(io.StringIO(text), warn=False))
    if back != want:
        for i, (b, w) in enumerate(itertools.zip_longest(back, want)):
            if b != w:
                return "utterance %d read back as %s, written %s (line %r)" % (i, _short(b), _short(w), text.split("\n")[i] if i < len(utts) else None)
    # a second write of what was read reproduces the file (the reader's value is itself expressible)
    f2 = io.StringIO()
    data.write_trn([(u, _trn_in(t)) for u, t in back], f2)
    if f2.getvalue() != text:
        return "re-writing the read transcripts gives a different file"
    return None


def cases_trn(ctx):
    if ctx.quick:
        gens = [_all_trn(5, 4, ("a", "b1", "@"), 2), _all_trn(4, 3, ("a", "b1", "@", "(x)"), 2), _all_trn(3, 2, ("a", "@"), 1), _all_trn(2, 1, ("a", "(x)", "\u00e9", "abc", "x'1", "@"), 1)]
        per = 8
    else:
        gens = [_all_trn(5, 4, ("a", "b1", "@", "(x)"), 2), _all_trn(6, 5, ("a", "@"), 2), _all_trn(4, 3, ("a", "@"), 1), _all_trn(3, 2, ("a", "(x)", "\u00e9", "abc", "x'1", "@"), 1)]
        per = 8
    for utts in _pack(itertools.chain(*gens), per):
        yield {"utts": utts}
    # timed tokens (times are dropped by the format) next to alternates
    timed = [[["a", 0.0, 0.5], "b1"], [["abc", 1.0, 1.0], [[["a"], ["@"]], -1, -1], ["b1", 2, 3]], [["x", 0.5, 0.25]]]
    yield {"utts": [[UTT_IDS[i], t] for i, t in enumerate(timed)]}
    if not ctx.quick:
        rng = random.Random(ctx.seed * 7919 + 11)
        for _ in range(30000):
            utts = []
            for j in range(rng.randint(1, 4)):
                u = _rand_utt(rng).replace("(", "").replace(")", "")
                utts.append([u, _rand_seq(rng, rng.randint(0, 6), [6])])
            yield {"utts": utts}


def _trn_nontrivial(case):
    return any(_is_alt(x) for _, t in case["utts"] for x in t)


# ---------------------------------------------------------------------------------------------------
# trn: one worker or many


def check_trn_processes(case):
    """case: {"utts": [...], "chunk_sizes": [..], "path": bool}"""
    data = _data()
    utts = case["utts"]
    given = [(u, _trn_in(t)) for u, t in utts]
    want = [[u, _trn_expect(t)] for u, t in utts]
    with _tmpdir() as d, warnings.catch_warnings():
        warnings.simplefilter("ignore")
        p = os.path.join(d, "x.trn")
        data.write_trn(given, p)

        def src():
            return p if case.get("path", True) else open(p)

        def done(s):
            if not isinstance(s, str):
                s.close()

        s = src()
        base = _norm(data.read_trn(s, warn=False))
        done(s)
        if base != want:
            return "single-process read differs from what was written"
        for procs in case.get("processes", [0, 1, 3]):
            for cs in case.get("chunk_sizes", [None]):
                kw = {} if cs is None else {"chunk_size": cs}
                s = src()
                got = _norm(data.read_trn(s, warn=False, processes=procs, **kw))
                done(s)
                if got != base:
                    i = next((i for i, (a, b) in enumerate(itertools.zip_longest(got, base)) if a != b), None)
                    return "processes=%d chunk_size=%s: list differs from the single-process list at index %s (%d vs %d entries)" % (procs, cs, i, len(got), len(base))
                s = src()
                got = _norm(list(data.read_trn_iter(s, False, procs, **kw)))
                done(s)
                if got != base:
                    return "read_trn_iter processes=%d chunk_size=%s differs from read_trn" % (procs, cs)
    return None


def cases_trn_processes(ctx):
    pool = list(_all_trn(3, 2, ("a", "b1", "@")))  # 0..3 leaves, depth 2
    rng = random.Random(ctx.seed + 5)
    nfiles = 10 if ctx.quick else 60
    sizes = [0, 1, 2, 3, 7, 31, 64, 257, len(pool)]
    for i in range(nfiles):
        n = sizes[i % len(sizes)]
        if n == len(pool):
            ts = list(pool)
        else:
            ts = [rng.choice(pool) for _ in range(n)]
        utts = [["utt %d" % j if j % 3 else "u%d" % j, t] for j, t in enumerate(ts)]
        yield {"utts": utts, "processes": [0, 1, 3] if i % 2 == 0 else [1, 2], "chunk_sizes": [[None, 1], [3], [1000, 2], [7]][i % 4], "path": i % 3 != 1}


# ---------------------------------------------------------------------------------------------------
# ctm


def _close(a, b, tol=0.0):
    return a == b or abs(a - b) <= tol * (1.0 + abs(a) + abs(b))


def check_ctm(case):
    """case: {"utts": [[utt, [[tok, s, e], ...]], ...], "map": "A" | "B" | {utt: [wfn, chan]}, "tol": 0.0}"""
    data = _data()
    utts = case["utts"]
    mp = case.get("map", None)
    tol = case.get("tol", 0.0)
    given = [(u, [tuple(x) for x in t]) for u, t in utts]
    f = io.StringIO()
    if mp is None:
        data.write_ctm(given, f)
        wc2utt = None
    elif isinstance(mp, str):
        data.write_ctm(given, f, mp)
        wc2utt = None
    else:
        data.write_ctm(given, f, {u: tuple(wc) for u, wc in mp.items()})
        wc2utt = {tuple(wc): u for u, wc in mp.items()}
    text = f.getvalue()
    ntok = sum(len(t) for _, t in utts)
    lines = text.split("\n")
    if lines[-1] != "" or len(lines) - 1 != ntok:
        return "file has %d lines for %d tokens" % (len(lines) - 1, ntok)
    # the file itself is in the order ctm mandates: waveform, channel, then start time numerically
    keys = []
    for ln in lines[:-1]:
        cols = ln.split()
        if len(cols) != 5:
            return "line %r does not have the five ctm columns" % ln
        keys.append((cols[0], cols[1], float(cols[2])))
        want_chan = mp if isinstance(mp, str) else ("A" if mp is None else None)
        if want_chan is not None and cols[1] != want_chan:
            return "line %r: channel should be %r" % (ln, want_chan)
    if keys != sorted(keys):
        return "file is not sorted by (waveform, channel, start): %s" % _short(keys)
    back = data.read_ctm(io.StringIO(text), wc2utt)
    want = {u: t for u, t in utts if len(t)}  # an utterance without tokens has no line in a ctm
    got_ids = [u for u, _ in back]
    if sorted(got_ids) != sorted(want):
        return "utterances read %s, written %s" % (got_ids, sorted(want))
    for u, t in back:
        t = _norm(t)
        starts = [x[1] for x in t]
        if starts != sorted(starts):
            return "utterance %r is not ordered by start time: %s" % (u, _short(t))
        w = sorted(want[u], key=lambda x: (x[1], x[2], x[0]))
        g = sorted(t, key=lambda x: (x[1], x[2], x[0]))
        if len(w) != len(g):
            return "utterance %r has %d tokens, written %d" % (u, len(g), len(w))
        if tol:
            # inexact durations may perturb the tie order; match greedily on (token, start)
            w = sorted(want[u], key=lambda x: (x[1], x[0], x[2]))
            g = sorted(t, key=lambda x: (x[1], x[0], x[2]))
        for a, b in zip(g, w):
            if a[0] != b[0] or a[1] != b[1] or not _close(a[2], b[2], tol):
                return "utterance %r: read %s, written %s" % (u, _short(g), _short(w))
    return None


CTM_IDS = ["u10", "u9", "u1"]


def _ctm_maps(ids):
    yield None
    yield "B"
    yield {u: ["w%d" % (len(ids) - i), "A"] for i, u in enumerate(ids)}  # waveform order opposite to the utterance order
    yield {u: ["w", "ABC"[i]] for i, u in enumerate(ids)}  # one waveform, the channel tells utterances apart
    yield {u: ["w%d" % (i % 2), "AB"[i // 2]] for i, u in enumerate(ids)}


def cases_ctm(ctx):
    if ctx.quick:
        times, toks, kmax = [0.0, 0.25, 0.5, 1.5], ["a", "b", "10"], 3
    else:
        times, toks, kmax = [0.0, 0.125, 0.25, 0.5, 1.5, 64.0], ["a", "b", "10"], 3
    segs = [[t, s, e] for t in toks for s in times for e in times if e >= s]
    maps = list(_ctm_maps(CTM_IDS))

    def transcripts():
        for k in range(0, kmax + 1):
            for tr in itertools.product(segs, repeat=k):
                yield list(tr)

    i = 0
    for utts in _pack(transcripts(), 3, CTM_IDS):
        ids = [u for u, _ in utts]
        m = maps[i % len(maps)]
        if isinstance(m, dict):
            m = {u: m[u] for u in ids}
        i += 1
        yield {"utts": utts, "map": m}
    # every mapping on a fixed set of files
    fixed = [[["u10", [["a", 0.5, 1.5], ["b", 0.0, 0.5]]], ["u9", [["c", 0.25, 0.25]]], ["u1", [["a", 0.0, 0.0], ["a", 0.0, 0.25], ["b", 0.0, 0.0]]]],
             [["u10", []], ["u9", [["x", 1.5, 1.5]]], ["u1", []]]]
    for utts in fixed:
        for m in maps:
            yield {"utts": utts, "map": m}
    if not ctx.quick:
        rng = random.Random(ctx.seed * 31 + 3)
        for _ in range(40000):
            n = rng.randint(1, 5)
            ids = ["".join(rng.choice("abcuU019-_.") for _ in range(rng.randint(1, 5))) for _ in range(n)]
            ids = list(dict.fromkeys(ids))
            utts = []
            for u in ids:
                tr = []
                for _ in range(rng.randint(0, 6)):
                    s = rng.choice([rng.random() * 100, rng.randint(0, 50) / 8.0, 0.0])
                    e = s + rng.choice([0.0, rng.random(), rng.randint(0, 16) / 16.0, 1e-5])
                    tr.append(["".join(rng.choice(SAFE_CHARS.replace(";", "")) for _ in range(rng.randint(1, 4))), s, e])
                utts.append([u, tr])
            kind = rng.randint(0, 3)
            if kind == 0:
                m = None
            elif kind == 1:
                m = rng.choice(["A", "B", "1"])
            else:
                wcs = [(w, c) for w in ("w", "v", "w10", "w9") for c in ("A", "B")]
                rng.shuffle(wcs)
                m = {u: list(wcs[j]) for j, u in enumerate(ids)}
            yield {"utts": utts, "map": m, "tol": 1e-12}


# ---------------------------------------------------------------------------------------------------
# TextGrid

FILL = "sil"


def _tg_fill_spec(entries, xmin, xmax, fill):
    """unlabelled gaps filled on request: wherever one entry ends before the next begins (and at the
    tier's ends) an interval carrying `fill` is inserted"""
    out = []
    cur = xmin
    for tok, s, e in entries:
        if cur < s:
            out.append([fill, cur, s])
        out.append([tok, s, e])
        cur = e
    if cur < xmax:
        out.append([fill, cur, xmax])
    return out


def _tg_write(data, f, case):
    kw = {}
    for k in ("start_time", "end_time", "tier_name", "point_tier", "precision"):
        if k in case and not (k in ("tier_name", "precision") and case[k] is None):
            kw[k] = case[k]
    data.write_textgrid([tuple(x) for x in case["tr"]], f, **kw)


def check_tg(case):
    """case: {"tr": [[tok, s, e], ...] ordered by time, "precision": p|None, "point_tier": None|bool,
              "tier_name": None|str, "start_time"/"end_time": optional, "fill": bool (only with point_tier False)}"""
    data = _data()
    from pydrobert.torch import config

    tr = case["tr"]
    prec = case.get("precision")
    p = config.DEFT_FLOAT_PRINT_PRECISION if prec is None else prec
    tol = 10.0 ** (-p)
    f = io.StringIO()
    _tg_write(data, f, case)
    text = f.getvalue()
    name = case.get("tier_name") or config.DEFT_TEXTGRID_TIER_NAME

    def near(a, b):
        return abs(a - b) < tol * (1 + 1e-9) + 1e-12 * abs(b)

    res = None
    for tier_id in (0, name):
        back, st, en = data.read_textgrid(io.StringIO(text), tier_id)
        back = _norm(back)
        if res is None:
            res = (back, st, en)
        elif (back, st, en) != res:
            return "tier by name %r differs from tier by index 0" % name
    back, st, en = res
    if len(back) != len(tr):
        return "%d entries read, %d written: %s" % (len(back), len(tr), _short(back))
    for i, (b, w) in enumerate(zip(back, tr)):
        if b[0] != w[0]:
            return "entry %d: token %r read, %r written (read %s)" % (i, b[0], w[0], _short(back))
        if not near(b[1], w[1]) or not near(b[2], w[2]):
            return "entry %d: times (%r, %r) read, (%r, %r) written at precision %d" % (i, b[1], b[2], w[1], w[2], p)
        if w[1] == w[2] and b[1] != b[2]:
            return "entry %d is a point (%r) but comes back with start %r != end %r" % (i, w[1], b[1], b[2])
        if b[2] < b[1]:
            return "entry %d ends before it starts: %r" % (i, b)
    lo, hi = min(x[1] for x in tr), max(x[2] for x in tr)
    if not near(st, lo) or not near(en, hi):
        return "tier span (%r, %r) read, transcript spans (%r, %r)" % (st, en, lo, hi)
    if case.get("fill"):
        fb, fst, fen = data.read_textgrid(io.StringIO(text), 0, FILL)
        fb = _norm(fb)
        want = _tg_fill_spec(back, st, en, FILL)
        if fb != want or (fst, fen) != (st, en):
            return "with fill_token: read %s, expected %s" % (_short(fb), _short(want))
        # the filled tier is contiguous from the tier's start to its end
        cur = st
        for tok, s, e in fb:
            if s > cur:
                return "filled tier still has a gap before %r" % ([tok, s, e],)
            cur = max(cur, e)
        if cur < en:
            return "filled tier stops at %r before the tier's end %r" % (cur, en)
        # and every written gap wider than the print resolution is filled
        k = sum(1 for a, b in zip(tr, tr[1:]) if b[1] - a[2] > 2 * tol)
        nfill = sum(1 for x in fb if x[0] == FILL)
        if nfill < k:
            return "%d gaps written, %d filled" % (k, nfill)
    return None


TG_LABELS = ["a", "b c", "", "é", "x1", "<p>"]


def _label(i, j):
    return TG_LABELS[(i * 7 + j * 3 + (i // 6)) % len(TG_LABELS)]


def _nondecreasing(grid, n):
    return itertools.combinations_with_replacement(grid, n)


def cases_tg(ctx):
    if ctx.quick:
        grid = [0.0, 0.125, 0.5, 2.5, 9.0, 9.5, 9.9996, 10.0, 99.5, 99.99951, 100.0]
        precs = [0, 1, 2, 3, 6]
        kint, kpt = 3, 4
    else:
        grid = [0.0, 0.125, 0.5, 0.9995, 1.0, 2.5, 9.0, 9.5, 9.9996, 10.0, 99.5, 99.99951, 100.0, 999.99996, 1000.0]
        precs = [0, 1, 2, 3, 4, 5, 6, 9]
        kint, kpt = 3, 4
    n = 0
    # interval tiers: k non-overlapping intervals in time order (zero-length intervals and gaps included)
    for k in range(1, kint + 1):
        for bounds in _nondecreasing(grid, 2 * k):
            tr_t = [(bounds[2 * j], bounds[2 * j + 1]) for j in range(k)]
            for prec in precs:
                n += 1
                tr = [[_label(n, j), s, e] for j, (s, e) in enumerate(tr_t)]
                mode = n % 3
                case = {"tr": tr, "precision": prec, "point_tier": None if mode == 0 else False, "fill": mode == 2}
                if n % 5 == 0:
                    case["tier_name"] = "my tier"
                if n % 7 == 0:
                    case["start_time"] = max(0.0, bounds[0] - 1.0)
                if n % 11 == 0:
                    case["end_time"] = bounds[-1] + 1.0
                if FILL in [x[0] for x in tr]:
                    continue
                yield case
    # point tiers
    for k in range(1, kpt + 1):
        for pts in _nondecreasing(grid, k):
            for prec in precs:
                n += 1
                tr = [[_label(n, j), t, t] for j, t in enumerate(pts)]
                case = {"tr": tr, "precision": prec, "point_tier": [None, True][n % 2]}
                if n % 5 == 0:
                    case["tier_name"] = "pts"
                if n % 7 == 0:
                    case["end_time"] = pts[-1] + 0.5
                yield case
    # default precision (option omitted), both tier kinds, digit boundaries
    for k in (1, 2, 3):
        for pts in itertools.combinations([0.0, 0.5, 9.0, 9.5, 10.0, 10.5, 99.5, 100.0, 100.5], k):
            yield {"tr": [[_label(k, j), t, t] for j, t in enumerate(pts)]}
            yield {"tr": [[_label(k, j), t, t + 0.5] for j, t in enumerate(pts)], "fill": True, "point_tier": False}
    if not ctx.quick:
        rng = random.Random(ctx.seed * 131 + 17)
        for _ in range(60000):
            prec = rng.randint(0, 9)
            k = rng.randint(1, 12)
            t = rng.choice([0.0, rng.random() * 10, 8.5, 98.0, 998.0])
            tr = []
            point = rng.random() < 0.3
            for j in range(k):
                t += rng.choice([0.0, rng.random(), rng.random() * 10 ** -rng.randint(0, 6), 0.5])
                e = t if point else t + rng.choice([0.0, rng.random(), rng.random() * 10 ** -rng.randint(0, 6), 0.25])
                tr.append(["".join(rng.choice(SAFE_CHARS.replace('"', "") + " ") for _ in range(rng.randint(0, 4))), t, e])
                t = e
            fill = not point and rng.random() < 0.5
            case = {"tr": tr, "precision": prec, "point_tier": rng.choice([None, True]) if point else (False if fill else rng.choice([None, False])), "fill": fill}
            if FILL in [x[0] for x in tr]:
                continue
            if rng.random() < 0.3:
                case["tier_name"] = rng.choice(["my tier", "w", "transcript"])
            yield case


# ---------------------------------------------------------------------------------------------------
# path or already open file

_DROPPED = "equals the handle output with point_tier and precision left at their defaults"


def _records(ws):
    return sorted(str(w.message) for w in ws)


def check_dispatch(case):
    """case: {"fn": one of write_trn/write_ctm/write_textgrid/read_trn/read_ctm/read_textgrid, ...options}"""
    data = _data()
    fn = case["fn"]
    with _tmpdir() as d:
        p1, p2 = os.path.join(d, "by_path"), os.path.join(d, "by_handle")

        def compare_files(extra=None):
            with open(p1, "rb") as a, open(p2, "rb") as b:
                x, y = a.read(), b.read()
            if x != y:
                msg = "%s: file written through a path differs from the one written through an open file: %r vs %r" % (fn, x[-120:], y[-120:])
                if extra is not None:
                    msg += extra(x)
                return msg
            return None

        if fn == "write_trn":
            given = [(u, _trn_in(t)) for u, t in case["utts"]]
            data.write_trn(given, p1)
            with open(p2, "w") as f:
                data.write_trn(given, f)
            return compare_files()
        if fn == "write_ctm":
            given = [(u, [tuple(x) for x in t]) for u, t in case["utts"]]
            mp = case.get("map")
            args = () if mp is None else ((mp,) if isinstance(mp, str) else ({u: tuple(wc) for u, wc in mp.items()},))
            data.write_ctm(given, p1, *args)
            with open(p2, "w") as f:
                data.write_ctm(given, f, *args)
            return compare_files()
        if fn == "write_textgrid":
            _tg_write(data, p1, case)
            with open(p2, "w") as f:
                _tg_write(data, f, case)

            def extra(x):
                p3 = os.path.join(d, "defaults")
                c2 = {k: v for k, v in case.items() if k not in ("point_tier", "precision")}
                with open(p3, "w") as f:
                    _tg_write(data, f, c2)
                with open(p3, "rb") as f:
                    return " (the path output " + _DROPPED + ")" if f.read() == x else ""

            return compare_files(extra)
        # readers: write once through a handle, then read through a path and through a handle
        if fn == "read_trn":
            given = [(u, _trn_in(t)) for u, t in case["utts"]]
            with open(p1, "w") as f:
                data.write_trn(given, f)
            kw = dict(case.get("kw", {}))
            out = []
            for src in ("path", "handle"):
                with warnings.catch_warnings(record=True) as ws:
                    warnings.simplefilter("always")
                    if src == "path":
                        r = data.read_trn(p1, **kw)
                    else:
                        with open(p1) as f:
                            r = data.read_trn(f, **kw)
                out.append((_norm(r), _records(ws)))
            if out[0][0] != out[1][0]:
                return "read_trn(%s): path gives %s, open file gives %s" % (kw, _short(out[0][0]), _short(out[1][0]))
            if out[0][1] != out[1][1]:
                return "read_trn(%s): %d warnings through a path, %d through an open file" % (kw, len(out[0][1]), len(out[1][1]))
            nalt = sum(1 for _, t in case["utts"] if any(_is_alt(x) for x in t))
            exp = nalt if kw.get("warn", True) else 0
            if len(out[1][1]) != exp:
                return "read_trn(%s): %d warnings for %d utterances with alternates" % (kw, len(out[1][1]), nalt)
            return None
        if fn == "read_ctm":
            given = [(u, [tuple(x) for x in t]) for u, t in case["utts"]]
            mp = case.get("map")
            with open(p1, "w") as f:
                if mp is None:
                    data.write_ctm(given, f)
                    wc2utt = None
                else:
                    data.write_ctm(given, f, {u: tuple(wc) for u, wc in mp.items()})
                    wc2utt = {tuple(wc): u for u, wc in mp.items()}
            a = _norm(data.read_ctm(p1, wc2utt))
            with open(p1) as f:
                b = _norm(data.read_ctm(f, wc2utt))
            if a != b:
                return "read_ctm: path gives %s, open file gives %s" % (_short(a), _short(b))
            if mp is not None and sorted(u for u, _ in a) != sorted(u for u, t in case["utts"] if t):
                return "read_ctm(path, wc2utt): utterance ids %s" % [u for u, _ in a]
            return None
        if fn == "read_textgrid":
            with open(p1, "w") as f:
                _tg_write(data, f, case)
            args = []
            if "tier_id" in case:
                args.append(case["tier_id"])
                if "fill_token" in case:
                    args.append(case["fill_token"])
            kw = {}
            if "tier_id" not in case and "fill_token" in case:
                kw["fill_token"] = case["fill_token"]
            a = _norm(data.read_textgrid(p1, *args, **kw))
            with open(p1) as f:
                b = _norm(data.read_textgrid(f, *args, **kw))
            if a != b:
                return "read_textgrid(%s %s): path gives %s, open file gives %s" % (args, kw, _short(a), _short(b))
            return None
    return "unknown fn %r" % fn


TG_DISPATCH_TRS = [
    [["a", 0.0, 0.5]],
    [["a", 0.25, 0.25]],
    [["a", 0.0, 0.0], ["b c", 9.96, 9.96], ["", 99.95, 99.95]],
    [["a", 0.0, 0.0], ["b", 0.00049, 0.00049]],
    [["a", 0.0, 0.5], ["b", 0.5, 0.5], ["c", 9.75, 10.125]],
    [["a", 0.1234567, 0.1234567], ["b", 0.1234567, 0.7654321]],
    [["x", 1.0, 1.0004]],
    [["x", 9.5, 9.99996], ["y", 99.5, 100.0]],
]


def cases_dispatch(ctx):
    q = ctx.quick
    # writers ------------------------------------------------------------------------------------
    trn_files = list(_pack(_all_trn(3, 2, ("a", "b1", "é")), 16 if q else 8))
    for utts in trn_files:
        yield {"fn": "write_trn", "utts": utts}
    ctm_files = [
        [["u10", [["a", 0.5, 1.5], ["b", 0.0, 0.5]]], ["u9", [["c", 0.25, 0.25]]], ["u1", [["a", 0.0, 0.0], ["a", 0.0, 0.25], ["é", 0.0, 0.0]]]],
        [["u10", []], ["u9", [["x", 1.5, 1.5]]], ["u1", []]],
        [["u1", [["a", 0.1, 0.3], ["b", 2.0, 2.0]]]],
    ]
    segs = [[t, s, e] for t in ("a", "b") for s in (0.0, 0.25, 1.5) for e in (0.0, 0.25, 1.5) if e >= s]
    for tr in itertools.product(segs, repeat=2):
        ctm_files.append([["u9", list(tr)], ["u10", [list(tr[1])]]])
    for utts in ctm_files:
        ids = [u for u, _ in utts]
        for m in _ctm_maps(CTM_IDS):
            if isinstance(m, dict):
                m = {u: m[u] for u in ids}
            yield {"fn": "write_ctm", "utts": utts, "map": m}
            if not isinstance(m, str):
                yield {"fn": "read_ctm", "utts": utts, "map": m}
    trs = list(TG_DISPATCH_TRS)
    if not q:
        rng = random.Random(ctx.seed + 23)
        for _ in range(40):
            t, tr = rng.choice([0.0, 8.0, 98.5]), []
            point = rng.random() < 0.4
            for j in range(rng.randint(1, 5)):
                t += rng.random() * 2
                e = t if point else t + rng.choice([0.0, rng.random(), 1e-4])
                tr.append(["t%d" % j, t, e])
                t = e
            trs.append(tr)
    for tr in trs:
        lo, hi = min(x[1] for x in tr), max(x[2] for x in tr)
        all_points = all(x[1] == x[2] for x in tr)
        for st, en, name, pt, prec in itertools.product([None, max(0.0, lo - 1.0)], [None, hi + 2.0], [None, "my tier"], [None, True, False], [None, 0, 1, 2, 3, 6, 9]):
            if pt is True and not all_points:
                continue  # not expressible: a point tier has no durations
            case = {"fn": "write_textgrid", "tr": tr}
            if st is not None:
                case["start_time"] = st
            if en is not None:
                case["end_time"] = en
            if name is not None:
                case["tier_name"] = name
            if pt is not None:
                case["point_tier"] = pt
            if prec is not None:
                case["precision"] = prec
            yield case
        # readers of TextGrid: tier id by index / name, fill token or not
        for name, tid, fill in itertools.product([None, "my tier"], ["-", 0, "name"], ["-", None, FILL]):
            case = {"fn": "read_textgrid", "tr": tr, "point_tier": all_points}
            if name is not None:
                case["tier_name"] = name
            if tid != "-":
                case["tier_id"] = 0 if tid == 0 else (name or "transcript")
            if fill != "-":
                case["fill_token"] = fill
            yield case
    # read_trn: warn on/off (processes > 0 through a path is exercised in C11.trn.processes)
    for utts in trn_files:
        for kw in ({}, {"warn": False}, {"warn": True}, {"warn": False, "processes": 0, "chunk_size": 2}):
            yield {"fn": "read_trn", "utts": utts, "kw": kw}


def _dispatch_nontrivial(case):
    return any(k in case for k in ("map", "start_time", "end_time", "tier_name", "point_tier", "precision", "tier_id", "fill_token")) or bool(case.get("kw"))


# ---------------------------------------------------------------------------------------------------
# transcript <-> token tensor


def check_tok(case):
    """case: {"tr": [tok | [tok, s, e], ...], "vocab": None | [tokens...] (token2id = index+offset), "offset": int,
              "unk": None | str | int, "fs": None | float, "skip": bool}
    tokens are strings when a vocabulary is given, ints (already ids) otherwise."""
    import torch

    data = _data()
    tr = case["tr"]
    vocab, off, unk, fs, skip = case.get("vocab"), case.get("offset", 0), case.get("unk"), case.get("fs"), case.get("skip", False)
    token2id = None if vocab is None else {t: i + off for i, t in enumerate(vocab)}
    id2token = None if vocab is None else {i: t for t, i in token2id.items()}
    given = [x if not isinstance(x, list) else tuple(x) for x in tr]
    kw = {}
    if skip:
        kw["skip_frame_times"] = True
    tok = data.transcript_to_token(given, token2id, fs, unk, **kw)
    if tok.dtype != torch.long or tuple(tok.shape) != ((len(tr),) if skip else (len(tr), 3)):
        return "token tensor has dtype %s shape %s" % (tok.dtype, tuple(tok.shape))
    back = data.token_to_transcript(tok, id2token, fs)
    if len(back) != len(tr):
        return "%d elements back, %d given" % (len(back), len(tr))

    def expect_token(t):
        if token2id is None or t in token2id:
            return t
        # out of vocabulary: replaced by unk (its token if unk is in the vocabulary, else the raw id)
        if unk in token2id:
            return unk
        return id2token.get(unk, unk)

    slack = 0.0 if not fs else fs / 1000.0 * (1 + 1e-9) + 1e-9
    for i, (b, w) in enumerate(zip(back, tr)):
        timed = isinstance(w, list)
        wt = expect_token(w[0] if timed else w)
        if not timed or skip:
            if isinstance(b, tuple) or b != wt:
                return "element %d: %r back, token %r given" % (i, b, wt)
            continue
        if not isinstance(b, tuple) or len(b) != 3:
            return "element %d: times lost (%r back, %r given)" % (i, b, w)
        if b[0] != wt:
            return "element %d: token %r back, %r expected" % (i, b[0], wt)
        if fs:
            if abs(b[1] - w[1]) > slack or abs(b[2] - w[2]) > slack:
                return "element %d: times (%r, %r) back, (%r, %r) given, frame shift %r ms" % (i, b[1], b[2], w[1], w[2], fs)
            if b[1] > w[1] + 1e-9:
                return "element %d: start %r moved later than given %r" % (i, b[1], w[1])
            if b[2] < b[1]:
                return "element %d: ends before it starts: %r" % (i, b)
            if tok[i, 2].item() <= tok[i, 1].item() and w[2] > w[1]:
                return "element %d: non-empty segment got an empty frame range %s" % (i, tok[i].tolist())
        elif (b[1], b[2]) != (w[1], w[2]):
            return "element %d: frame times (%r, %r) back, (%r, %r) given" % (i, b[1], b[2], w[1], w[2])
    return None


def cases_tok(ctx):
    q = ctx.quick
    vocab = ["a", "b1", "<unk>", "é"]
    cfgs = []
    for off in (0, 5):
        cfgs.append({"vocab": vocab, "offset": off})
        cfgs.append({"vocab": vocab, "offset": off, "unk": "<unk>"})
        cfgs.append({"vocab": vocab, "offset": off, "unk": 77})
    cfgs.append({"vocab": vocab[:2], "offset": 1, "unk": "zz"})  # unk neither a token nor an id: in-vocabulary tokens only
    shifts = [10.0, 20.0, 12.5, 0.0625, 1.0, 1000.0, 7.0] if q else [10.0, 20.0, 12.5, 0.0625, 1.0, 1000.0, 7.0, 0.1, 3.3, 25.0, 1000.0 / 44100]
    secs = [0.0, 0.004, 0.005, 0.01, 0.015, 0.29, 0.3, 0.995, 1.0, 1.0001, 2.5, 9.99, 10.0, 123.456] if q else \
        [0.0, 0.001, 0.004, 0.005, 0.0050001, 0.01, 0.015, 0.025, 0.29, 0.3, 0.57, 0.995, 1.0, 1.0001, 1.1, 2.5, 9.99, 10.0, 99.999, 123.456, 3600.0]
    frames = [0, 1, 2, 7, 100, 12345]
    # one element, everything: the conversion is element-wise
    for cfg in cfgs:
        toks = list(cfg["vocab"]) + (["oov"] if isinstance(cfg.get("unk"), (int,)) or cfg.get("unk") in cfg["vocab"] else [])
        for t in toks:
            for skip in (False, True):
                yield dict(cfg, tr=[t], skip=skip)
            for fs in shifts:
                for s in secs:
                    for e in secs:
                        if e >= s:
                            yield dict(cfg, tr=[[t, s, e]], fs=fs)
            for s in frames:
                for e in frames:
                    if e >= s:
                        yield dict(cfg, tr=[[t, s, e]])
                        yield dict(cfg, tr=[[t, s, e]], skip=True)
    # no vocabulary: tokens are ids already
    for t in (0, 3, 41):
        yield {"tr": [t]}
        yield {"tr": [t], "skip": True}
        for fs in shifts[:3]:
            for s in secs:
                for e in secs:
                    if e >= s:
                        yield {"tr": [[t, s, e]], "fs": fs}
        for s in frames:
            for e in frames:
                if e >= s:
                    yield {"tr": [[t, s, e]]}
    # sequences: mixed timed / untimed elements, lengths 0..4
    rng = random.Random(ctx.seed * 17 + 1)
    for _ in range(4000 if q else 60000):
        cfg = rng.choice(cfgs)
        toks = list(cfg["vocab"]) + (["oov", "oov2"] if isinstance(cfg.get("unk"), int) or cfg.get("unk") in cfg["vocab"] else [])
        fs = rng.choice([None] + shifts)
        tr = []
        for _ in range(rng.randint(0, 4 if q else 9)):
            t = rng.choice(toks)
            r = rng.random()
            if r < 0.3:
                tr.append(t)
            elif fs:
                s = rng.choice([rng.choice(secs), rng.random() * 100, rng.randint(0, 10 ** 4) * fs / 1000.0])
                e = s + rng.choice([0.0, rng.random() * fs / 1000.0, rng.random() * 3, fs / 2000.0])
                tr.append([t, s, e])
            else:
                s = rng.choice(frames)
                tr.append([t, s, s + rng.choice([0, 1, 5])])
        case = dict(cfg, tr=tr)
        if fs:
            case["fs"] = fs
        if rng.random() < 0.15:
            case["skip"] = True
        yield case


def _tok_nontrivial(case):
    return bool(case.get("fs")) and any(isinstance(x, list) for x in case["tr"])


# ---------------------------------------------------------------------------------------------------

CHECKERS = {
    "C11.trn.roundtrip": check_trn,
    "C11.trn.processes": check_trn_processes,
    "C11.ctm.roundtrip": check_ctm,
    "C11.tg.roundtrip": check_tg,
    "C11.dispatch.path_vs_handle": check_dispatch,
    "C11.tok.roundtrip": check_tok,
}

FINDINGS = [
    {"id": "KF-C11-1", "property": "C11", "clause": "C11.dispatch.path_vs_handle",
     "what": "write_textgrid(path, ...) does not pass point_tier and precision on to the call that writes the file: given a path, the tier kind is always inferred and times are printed with "
             "the default precision, so the file differs from the one written through an open file with the same options",
     "class": "write_textgrid called with a path (str) and with precision != the default or point_tier explicitly different from the value that would be inferred; "
              "the path output equals the open-file output for the same call with point_tier and precision omitted",
     "witness": {"fn": "write_textgrid", "tr": [["a", 0.0, 0.5]], "precision": 1}},
]


def _kf1(case, msg):
    return case.get("fn") == "write_textgrid" and ("precision" in case or "point_tier" in case) and _DROPPED in msg


KNOWN_MATCH = {"KF-C11-1": _kf1}


def _either(mine, other):
    def pred(case, msg):
        try:
            if mine(case, msg):
                return True
        except Exception:
            pass
        return bool(other is not None and other(case, msg))

    return pred


def run_bounded(ctx):
    for kid, fn in KNOWN_MATCH.items():
        ctx.known_match[kid] = _either(fn, ctx.known_match.get(kid))  # the deductive part may register its own predicate under the same id
    # import once in the parent so the forked workers inherit the loaded modules
    import torch

    torch.set_num_threads(1)
    import pydrobert.torch  # noqa: F401
    import pydrobert.torch.data  # noqa: F401

    only = getattr(ctx, "only", None)

    def want(name):
        return not only or any(name.startswith(p) for p in only)

    q = ctx.quick
    if want("C11.trn.roundtrip"):
        ctx.bounded("C11.trn.roundtrip", check_trn, cases_trn(ctx),
                    bound=("every transcript (sequence of tokens and alternates with >= 2 non-empty branches) with %s; with single-branch alternates allowed: %s; "
                           "8 utterances per file under ids {u1, 'utt 2', spk-A_003, 10, 9}; timed tokens next to alternates%s") % (
                        ("<= 5 leaf tokens over {a, b1, @} nested to depth <= 4, <= 4 leaves over {a, b1, @, (x)} to depth <= 3", "<= 3 leaves over {a, @} to depth 2, <= 2 leaves over {a, (x), e-acute, abc, x'1, @}", "") if q else
                        ("<= 5 leaf tokens over {a, b1, @, (x)} nested to depth <= 4, <= 6 leaves over {a, @} to depth <= 5", "<= 4 leaves over {a, @} to depth 3, <= 3 leaves over {a, (x), e-acute, abc, x'1, @} to depth 2",
                         "; + 30000 seeded random files: 1..4 utterances, ids with spaces/braces/slashes, tokens of 1..5 characters from a 40-character delimiter-free alphabet, up to 6 alternates nested to depth <= 6")),
                    text="read_trn(write_trn(T)) == T exactly (utterance ids, tokens, alternates tree; times of timed tokens are not stored); one line per utterance; writing the result again reproduces the file",
                    nontrivial=_trn_nontrivial, chunk=64,
                    functions=["_parsing.write_trn", "_parsing.read_trn", "_parsing.read_trn_iter", "_parsing._trn_line_to_transcript", "_parsing._AltTree"])
    if want("C11.trn.processes"):
        ctx.bounded("C11.trn.processes", check_trn_processes, cases_trn_processes(ctx),
                    bound="%d files of {0,1,2,3,7,31,64,257,all} lines drawn from every transcript with <= 3 leaves / depth <= 2; processes in {0,1,3} or {1,2}; chunk_size in {default,1,2,3,7,1000}; "
                          "file given as path or open handle; read_trn and read_trn_iter" % (10 if q else 60),
                    text="reading with one worker or many yields the same list as the single-process read (which equals what was written)",
                    parallel=False, chunk=1, functions=["_parsing.read_trn", "_parsing.read_trn_iter"])
    if want("C11.ctm.roundtrip"):
        ctx.bounded("C11.ctm.roundtrip", check_ctm, cases_ctm(ctx),
                    bound=("every utterance of 0..3 (token, start, end) entries in every order, tokens {a, b, 10}, start <= end on the dyadic grid %s; three utterances (u10, u9, u1) per file; the five "
                           "mappings {default channel, channel 'B', distinct waveforms in reverse order, one waveform three channels, two waveforms two channels} rotate over files and are all "
                           "applied to two fixed files%s") % (
                        ("{0,.25,.5,1.5}", "") if q else ("{0,.125,.25,.5,1.5,64}", "; + 40000 seeded random files with non-dyadic times (end compared to 1e-12 relative)")),
                    text="read_ctm(write_ctm(T, utt2wc), wc2utt): same utterance ids, per utterance the same multiset of (token, start, end) ordered by start; the file has one five-column line per token "
                         "sorted by (waveform, channel, start) and carries the requested channel",
                    nontrivial=lambda c: any(len(t) > 1 for _, t in c["utts"]), chunk=64,
                    functions=["_parsing.write_ctm", "_parsing.read_ctm"])
    if want("C11.tg.roundtrip"):
        ctx.bounded("C11.tg.roundtrip", check_tg, cases_tg(ctx),
                    bound=("interval tiers: every 1..3 time-ordered non-overlapping intervals with ends on a %d-point grid crossing 9->10, 99->100%s (incl. 9.9996, 99.99951, zero-length "
                           "intervals, gaps) x precision in %s, rotating (point_tier unset | False, with fill_token), tier name, start/end_time; point tiers: every 1..4 non-decreasing points on the grid x "
                           "precision x point_tier unset | True; default precision on 9 digit-boundary points; labels rotate over {a, 'b c', '', e-acute, x1, <p>}; read by tier index and by name%s") % (
                        (11, "", "{0,1,2,3,6}", "") if q else (15, ", 999->1000", "{0,1,2,3,4,5,6,9}", "; + 60000 seeded random tiers of 1..12 entries, precision 0..9, sub-resolution gaps and durations")),
                    text="read_textgrid(write_textgrid(T)): same tokens in the same order, every time within 10^-precision, point tiers come back with start == end, tier span = transcript span; "
                         "with fill_token the result is the unfilled result with an interval inserted exactly in every gap, contiguous over the tier",
                    nontrivial=lambda c: len(c["tr"]) > 1, chunk=128,
                    functions=["_parsing.write_textgrid", "_parsing.read_textgrid", "_textgrid.TextGrid", "_textgrid.Tier"])
    if want("C11.dispatch.path_vs_handle"):
        ctx.bounded("C11.dispatch.path_vs_handle", check_dispatch, cases_dispatch(ctx),
                    bound=("write_trn: every transcript with <= 3 leaves / depth <= 2; write_ctm/read_ctm: 3 fixed + 324 two-utterance files x 5 mappings; write_textgrid: %d transcripts x the full product "
                           "start_time {unset, given} x end_time {unset, given} x tier_name {unset, 'my tier'} x point_tier {unset, True, False} x precision {unset,0,1,2,3,6,9}; read_textgrid: "
                           "tier_id {unset, 0, name} x fill_token {unset, None, 'sil'} x tier name; read_trn: warn {unset, True, False}, chunk_size") % (8 if q else 48),
                    text="giving a path or an already open file: writers produce byte-identical files, readers return equal values (and raise the same warnings), under every option combination",
                    nontrivial=_dispatch_nontrivial, chunk=32,
                    functions=["_parsing.write_trn", "_parsing.write_ctm", "_parsing.write_textgrid", "_parsing.read_trn_iter", "_parsing.read_ctm", "_parsing.read_textgrid"])
    if want("C11.tok.roundtrip"):
        ctx.bounded("C11.tok.roundtrip", check_tok, cases_tok(ctx),
                    bound=("single elements: every token of a 4-token vocabulary (id offsets 0/5) plus an out-of-vocabulary token under unk in {unset, '<unk>', 77} x frame shift in %s ms x every "
                           "start <= end from %d second values (frame and rounding boundaries), frame-valued times from {0,1,2,7,100,12345} without a shift, untimed, skip_frame_times; integer ids without "
                           "vocabulary; + %d seeded sequences of 0..%d mixed elements") % (
                        ("{10,20,12.5,.0625,1,1000,7}", 14, 4000, 4) if q else ("{10,20,12.5,.0625,1,1000,7,.1,3.3,25,1000/44100}", 21, 60000, 9)),
                    text="token_to_transcript(transcript_to_token(T, token2id, fs, unk), id2token, fs): same tokens (out-of-vocabulary ones as unk), untimed stay untimed, frame-valued times exact, "
                         "second-valued times within one frame shift, start never later, a non-empty segment keeps at least one frame; tensor is long of shape (R,3) / (R,)",
                    nontrivial=_tok_nontrivial, chunk=256,
                    functions=["_parsing.transcript_to_token", "_parsing.token_to_transcript"])
    ctx.replay_known_witnesses()
    ctx.not_applicable.append("C11 'schedules': every completion order of the worker processes in multi-process trn parsing cannot be enumerated at run time; processes in {0,1,2,3} are observed "
                              "under the operating system's schedule only (Pool.imap is assumed to return results in submission order)")
    ctx.not_applicable.append("C11: chunk_size is not forwarded by read_trn_iter's path branch; it has no effect on the returned list, so no run-time contract can observe it "
                              "(left to C11.dispatch.forward_all)")
    ctx.assume("utterance ids and tokens are free of the format's delimiters: trn tokens without whitespace, '{', '/', '}' and ids without parentheses/newlines; ctm ids and tokens without whitespace "
               "and ';;'; TextGrid labels and tier names without double quotes and newlines",
               "TextGrid transcripts are given in time order and intervals do not overlap (what a tier can express); a point tier is written only from zero-length entries",
               "ctm times on a dyadic grid so that start + (end - start) is exact; random non-dyadic ends compared with relative tolerance 1e-12",
               "TextGrid times compared with tolerance 10^-precision (strict, plus 1e-12 relative float slack)",
               "token round trip: one frame shift = frame_shift_ms/1000 s, compared with slack 1e-9 (relative and absolute) for the library's float floor division",
               "files are written and read with the platform's default text encoding (UTF-8 here)")
