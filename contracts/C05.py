"""C05 - CTC prefix search reports true prefix mass, never more, never NaN.

The two functions (ctc_prefix_search_advance, CTCPrefixSearch.forward) are ~300 lines of data-dependent
gather/scatter and are outside the deductive engine's reach (DESIGN.md section 3, C05); every clause is a
bounded run-time contract, see contracts/C05_rt.py.
"""
from contracts import C05_rt

CHECKERS = dict(C05_rt.CHECKERS)


def run(ctx):
    C05_rt.run_bounded(ctx)
