"""C05 - CTC prefix search reports true prefix mass, never more, never NaN.

Deductive part (contracts/C05_vc.py, S rung): one step of the search, `ctc_prefix_search_advance`, against the scalar
prefix-beam recursion for all contents per small beam shape. The multi-frame search `CTCPrefixSearch.forward` (state
threading, fusion, valid masks) is decided by bounded run-time contracts only, see contracts/C05_rt.py.
"""
from contracts import C05_rt, C05_vc
from vf.pyvc import api

CHECKERS = dict(C05_rt.CHECKERS)


def run(ctx):
    from vf.pyvc import crosscheck_sym

    crosscheck_sym.guard(ctx)  # the symbolic-shape tensor layer against real torch, before the clauses that rest on it
    from contracts import C05_loop

    api.run_vcs(ctx, C05_loop.loop_p_vcs(ctx), {"C05.P.search_loop": "real CTCPrefixSearch.forward source (no language model, and shallow fusion with any language model: queried on the current prefixes / lengths / state, fused extension probabilities, states re-indexed and mixed by the non-extension flags) for a SYMBOLIC number of frames, batch size, vocabulary and width, with the step under an opaque contract: per frame the step gets the softmax of that frame (label classes as extension and non-extension probabilities, blank class), the width and the current beam; an element carries the step's result while the frame is inside its length and its own beam unchanged afterwards; the result is nb + b, lengths and prefixes of the beam after the element's own frames (loop invariant over a recorded ghost history of beams)"})
    api.run_vcs(ctx, C05_vc.p_vcs(ctx), {"C05.P.advance_step": "real ctc_prefix_search_advance source for SYMBOLIC batch size, old width, vocabulary, prefix length and beam width: every slot below min(width, K'(V+1)) reports its source and kind, carries the recursion's blank / non-blank masses (merge sum checked summand-wise, void when the extension already is a beam prefix), the source's tokens grown by the token when extending; best-first, distinct candidates, fillers"})
    api.run_vcs(ctx, C05_vc.vcs(ctx), {"C05.S.advance_step": "real ctc_prefix_search_advance source: every output slot is a candidate of the prefix-beam recursion with exactly its non-blank / blank masses (extension, keep, merge of an extension into an identical prefix), tokens / length / last token; distinct, best-first, optimal; new prefix relation; fillers; all contents"},
                bounded="beams of K' <= %d prefixes over V <= %d labels with prefix lengths <= 2, widths below and beyond the number of candidates, one batch element" % ((2, 2) if ctx.quick else (3, 3)))
    C05_rt.run_bounded(ctx)
