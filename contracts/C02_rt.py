"""C02 (engine B) - error rate counts the edits of some minimum-cost alignment; MER loss.

Run-time contracts on the real functions
    pydrobert.torch.functional.error_rate / prefix_error_rates / minimum_error_rate_loss
    pydrobert.torch.modules.ErrorRate / PrefixErrorRates / MinimumErrorRateLoss
over exhaustively enumerated, explicitly bounded batches, against spec functions written from the
property text (never from _string.py):

* `optimal_edit_counts(r, h, costs)`: for every hypothesis prefix h[:j] the SET of edit counts
  (#insertions + #deletions + #substitutions; a matched pair is no edit) over ALL alignments of r
  with h[:j] whose weighted cost is minimal, by a DP over the argmin sets in exact rationals. The
  DP itself is cross-checked on every run against a literal enumeration of every alignment
  (`brute_counts`, clause C02.guard.oracle).
* `levenshtein_prefixes(r, h)`: textbook unit-cost Levenshtein, integers.
* the string a column denotes: the tokens before its first eos (the eos kept when include_eos and
  present), the whole column when there is no eos / eos is None; what follows the eos is garbage.
* normalisation: count / len(ref); empty ref: 0 when the (prefix of the) hypothesis is empty, else 1.
* prefix form: row j is the value for h[:j], j = 0..len(h) (the full prefix j = len(h) omitted with
  exclude_last), the padding value in every later row; shape (H+1-exclude_last, N), transposed when
  batch_first.
* MER loss: loss[n,m] = softmax(log_probs[n,:])[m] * (er[n,m] - [sub_avg] * mean_m er[n,:]), then
  none / sum / mean(over all N*M); er[n,m] is the error rate of hyp[:,n,m] against ref[:,n] (2-D ref)
  or ref[:,n,m] (3-D ref). With non-uniform costs er[n,m] is only determined up to the set above,
  so the contract is existential over those sets.

Reading of the statement where it leaves room: the first sentence ("is the number of ... along an
alignment whose weighted cost is minimal") is read as membership in the set of edit counts of
optimal alignments, which implies the stated bounds [fewest, most]; messages say which of the two
fails. Costs are the decimal rationals written in the case (ties are ties of those rationals).
"""
import itertools
import random
from fractions import Fraction as Fr
from functools import lru_cache

# ---------------------------------------------------------------------------------------------------
# spec functions (from the property text)


def denoted(col, eos, include_eos):
    """the string a column of tokens denotes"""
    col = tuple(col)
    if eos is not None and eos in col:
        k = col.index(eos)
        return col[: k + (1 if include_eos else 0)]
    return col


@lru_cache(maxsize=1 << 17)
def optimal_edit_counts(r, h, costs):
    """tuple over j = 0..len(h) of the sorted edit counts found among the minimum-cost alignments of
    r with h[:j]. costs = (ins, del, sub) as decimal strings."""
    ic, dc, sc = (Fr(c) for c in costs)
    rows = []
    for i in range(len(r) + 1):
        cur = []
        for j in range(len(h) + 1):
            if i == 0 and j == 0:
                cur.append((Fr(0), frozenset([0])))
                continue
            cands = []
            if i > 0:  # r[i-1] is deleted
                c, s = rows[i - 1][j]
                cands.append((c + dc, s, 1))
            if j > 0:  # h[j-1] is inserted
                c, s = cur[j - 1]
                cands.append((c + ic, s, 1))
            if i > 0 and j > 0:  # r[i-1] is aligned with h[j-1]: match (free, no edit) or substitution
                c, s = rows[i - 1][j - 1]
                cands.append((c, s, 0) if r[i - 1] == h[j - 1] else (c + sc, s, 1))
            m = min(c for c, _, _ in cands)
            cur.append((m, frozenset(k + e for c, s, e in cands if c == m for k in s)))
        rows.append(cur)
    return tuple(tuple(sorted(cell[1])) for cell in rows[len(r)])


def brute_counts(r, h, costs):
    """literal enumeration of every alignment (edit script) of r with h: the edit counts of the cheapest"""
    ic, dc, sc = (Fr(c) for c in costs)
    found = {}

    def rec(i, j, cost, n):
        if i == len(r) and j == len(h):
            found.setdefault(cost, set()).add(n)
            return
        if i < len(r):
            rec(i + 1, j, cost + dc, n + 1)
        if j < len(h):
            rec(i, j + 1, cost + ic, n + 1)
        if i < len(r) and j < len(h):
            if r[i] == h[j]:
                rec(i + 1, j + 1, cost, n)
            else:
                rec(i + 1, j + 1, cost + sc, n + 1)

    rec(0, 0, Fr(0), 0)
    return tuple(sorted(found[min(found)]))


@lru_cache(maxsize=1 << 16)
def levenshtein_prefixes(r, h):
    """plain Levenshtein distance between r and h[:j] for j = 0..len(h)"""
    col = list(range(len(r) + 1))  # distances r[:i] vs empty hypothesis
    out = [col[len(r)]]
    for j in range(1, len(h) + 1):
        new = [j]
        for i in range(1, len(r) + 1):
            new.append(min(col[i] + 1, new[i - 1] + 1, col[i - 1] + (0 if r[i - 1] == h[j - 1] else 1)))
        col = new
        out.append(col[len(r)])
    return tuple(out)


def allowed_counts(r, h, costs):
    """per prefix j: the edit counts the property allows"""
    if len(set(costs)) == 1:  # "equals the plain Levenshtein distance whenever the three costs are equal"
        return tuple((d,) for d in levenshtein_prefixes(r, h))
    return optimal_edit_counts(r, h, tuple(costs))


def normalised(count, ref_len, hyp_len, norm):
    if not norm:
        return Fr(count)
    if ref_len == 0:
        return Fr(0) if hyp_len == 0 else Fr(1)
    return Fr(count, ref_len)


def _close(got, want):
    want = float(want)
    return abs(got - want) <= 1e-5 * (1.0 + abs(want))


# ---------------------------------------------------------------------------------------------------
# checkers

UNIFORM = [("1", "1", "1"), ("2", "2", "2"), ("0.3", "0.3", "0.3")]
NONUNIFORM = [("3", "3", "4"), ("1", "1", "2"), ("1", "2", "3"), ("2", "1", "1"), ("1", "3", "1"), ("1", "1", "0.5"),
              ("0.3", "0.7", "1"), ("1", "1", "2.5")]
MER_COSTS = [("1", "1", "1"), ("2", "2", "2"), ("1", "2", "3"), ("3", "3", "4"), ("1", "0", "1")]


def _cols(rows, T, N):
    """time-major nested list (T x N) -> list of N columns"""
    return [tuple(rows[t][n] for t in range(T)) for n in range(N)]


def _exc(e):
    return "%s: %s" % (type(e).__name__, " ".join(str(e).split())[:240])


def check_sm(case):
    """error_rate ('er') / prefix_error_rates ('per') on one batch.
    case: fn, via ('F' functional | 'M' module), R, H, N, ref (R x N, time-major), hyp (H x N), eos, include_eos, norm,
    batch_first, costs [ins, del, sub] (decimal strings), and for 'per': exclude_last, padding (None = library default)"""
    import torch
    from pydrobert.torch import config, functional as F, modules as Mod

    fn, via = case["fn"], case.get("via", "F")
    R, H, N = case["R"], case["H"], case["N"]
    eos, inc, norm, bf = case["eos"], case["include_eos"], case["norm"], case["batch_first"]
    costs = tuple(case["costs"])
    ic, dc, sc = (float(Fr(c)) for c in costs)
    excl, padding = bool(case.get("exclude_last", False)), case.get("padding")
    ref = torch.tensor(case["ref"], dtype=torch.long).reshape(R, N)
    hyp = torch.tensor(case["hyp"], dtype=torch.long).reshape(H, N)
    a, b = (ref.t().contiguous(), hyp.t().contiguous()) if bf else (ref, hyp)
    kw = dict(eos=eos, include_eos=inc, norm=norm, batch_first=bf, ins_cost=ic, del_cost=dc, sub_cost=sc)
    if fn == "per":
        kw["exclude_last"] = excl
        if padding is not None:
            kw["padding"] = padding
    name = {"er": "error_rate", "per": "prefix_error_rates"}[fn]
    try:
        if via == "F":
            out = getattr(F, name)(a, b, warn=False, **kw)
        else:
            out = {"er": Mod.ErrorRate, "per": Mod.PrefixErrorRates}[fn](warn=False, **kw)(a, b)
    except Exception as e:
        return "%s raised %s (the contract: it returns for every batch) R=%d H=%d N=%d eos=%s" % (name, _exc(e), R, H, N, eos)
    pad_value = config.INDEX_PAD_VALUE if padding is None else padding
    rcols, hcols = _cols(case["ref"], R, N), _cols(case["hyp"], H, N)
    if fn == "er":
        if tuple(out.shape) != (N,):
            return "error_rate: shape %s, expected (%d,)" % (tuple(out.shape), N)
        vals = out.tolist()
    else:
        T = H + (0 if excl else 1)
        want_shape = (N, T) if bf else (T, N)
        if tuple(out.shape) != want_shape:
            return "prefix_error_rates: shape %s, expected %s" % (tuple(out.shape), want_shape)
        vals = (out if bf else out.t()).tolist()  # vals[n][j]
    for n in range(N):
        r, h = denoted(rcols[n], eos, inc), denoted(hcols[n], eos, inc)
        allowed = allowed_counts(r, h, costs)

        def verdict(got, j):
            opts = allowed[j]
            if any(_close(got, normalised(c, len(r), j, norm)) for c in opts):
                return None
            lo, hi = float(normalised(opts[0], len(r), j, norm)), float(normalised(opts[-1], len(r), j, norm))
            how = "outside [fewest, most] = [%g, %g]" % (lo, hi) if not (lo - 1e-5 <= got <= hi + 1e-5) else \
                "inside [%g, %g] but not the edit count of any minimum-cost alignment (counts %s)" % (lo, hi, list(opts))
            kind = "plain Levenshtein %d" % opts[0] if len(set(costs)) == 1 else "edit counts of minimum-cost alignments %s" % list(opts)
            return "pair %d ref=%s hyp=%s%s costs(ins,del,sub)=%s norm=%s: got %r, %s; %s" % (
                n, list(r), list(h[:j]), "" if j == len(h) else " (prefix %d of %s)" % (j, list(h)), list(costs), norm, got, how, kind)

        if fn == "er":
            msg = verdict(vals[n], len(h))
            if msg:
                return "error_rate " + msg
        else:
            last_valid = len(h) - (1 if excl else 0)
            for j in range(len(vals[n])):
                got = vals[n][j]
                if j <= last_valid:
                    msg = verdict(got, j)
                    if msg:
                        return "prefix_error_rates row %d " % j + msg
                elif got != pad_value:
                    return "prefix_error_rates pair %d hyp=%s (length %d, exclude_last=%s): row %d is %r, expected padding %r" % (
                        n, list(h), len(h), excl, j, got, pad_value)
    return None


def _mer_layout(case):
    import torch

    N, M, R, H = case["N"], case["M"], case["R"], case["H"]
    lp = torch.tensor(case["lp"], dtype=torch.float).reshape(N, M)
    hyp = torch.tensor(case["hyp"], dtype=torch.long).reshape(H, N, M)
    if case["ref3d"]:
        ref = torch.tensor(case["ref"], dtype=torch.long).reshape(R, N, M)
    else:
        ref = torch.tensor(case["ref"], dtype=torch.long).reshape(R, N)
    if case["batch_first"]:
        hyp = hyp.permute(1, 2, 0).contiguous()
        ref = ref.permute(1, 2, 0).contiguous() if case["ref3d"] else ref.t().contiguous()
    return lp, ref, hyp


def check_mer(case):
    """minimum_error_rate_loss on one sample set.
    case: via, N, M, R, H, lp (N x M), ref (R x N or R x N x M, time-major nested lists), ref3d, hyp (H x N x M), eos,
    include_eos, sub_avg, batch_first, norm, costs, reduction"""
    import math

    import torch
    from pydrobert.torch import functional as F, modules as Mod

    N, M, R, H = case["N"], case["M"], case["R"], case["H"]
    eos, inc, norm = case["eos"], case["include_eos"], case["norm"]
    costs = tuple(case["costs"])
    ic, dc, sc = (float(Fr(c)) for c in costs)
    red, sub_avg = case["reduction"], case["sub_avg"]
    lp, ref, hyp = _mer_layout(case)
    kw = dict(eos=eos, include_eos=inc, sub_avg=sub_avg, batch_first=case["batch_first"], norm=norm, ins_cost=ic, del_cost=dc,
              sub_cost=sc, reduction=red)
    try:
        if case.get("via", "F") == "F":
            out = F.minimum_error_rate_loss(lp, ref, hyp, warn=False, **kw)
        else:
            out = Mod.MinimumErrorRateLoss(**kw)(lp, ref, hyp, warn=False)
    except Exception as e:
        return "minimum_error_rate_loss raised %s (the contract: it returns for M >= 2) N=%d M=%d R=%d H=%d" % (_exc(e), N, M, R, H)
    want_shape = (N, M) if red == "none" else ()
    if tuple(out.shape) != want_shape:
        return "minimum_error_rate_loss: shape %s, expected %s (reduction %s)" % (tuple(out.shape), want_shape, red)
    # the error rates the property allows for every (n, m)
    ers, pairs = [], []
    for n in range(N):
        row, prow = [], []
        for m in range(M):
            rcol = [case["ref"][t][n][m] if case["ref3d"] else case["ref"][t][n] for t in range(R)]
            hcol = [case["hyp"][t][n][m] for t in range(H)]
            r, h = denoted(rcol, eos, inc), denoted(hcol, eos, inc)
            opts = allowed_counts(r, h, costs)[len(h)]
            row.append(sorted(set(float(normalised(c, len(r), len(h), norm)) for c in opts)))
            prow.append((r, h))
        ers.append(row)
        pairs.append(prow)
    probs = []
    for n in range(N):
        mx = max(case["lp"][n])
        e = [math.exp(x - mx) for x in case["lp"][n]]
        probs.append([x / sum(e) for x in e])

    def row_loss(n, er):
        mu = sum(er) / M if sub_avg else 0.0
        return [probs[n][m] * (er[m] - mu) for m in range(M)]

    def describe():
        return "N=%d M=%d ref%s reduction=%s sub_avg=%s norm=%s batch_first=%s costs=%s pairs(ref,hyp)=%s allowed error rates=%s softmax=%s" % (
            N, M, "3d" if case["ref3d"] else "2d", red, sub_avg, norm, case["batch_first"], list(costs),
            [[(list(r), list(h)) for r, h in pr] for pr in pairs], ers, [[round(p, 4) for p in pr] for pr in probs])

    if red == "none":
        got = out.tolist()
        for n in range(N):
            if not any(all(_close(got[n][m], w) for m, w in enumerate(row_loss(n, er))) for er in itertools.product(*ers[n])):
                return "loss[%d,:]=%s is not softmax * (er - mean) for any allowed error rates; e.g. expected %s; %s" % (
                    n, got[n], row_loss(n, [o[0] for o in ers[n]]), describe())
        return None
    got = float(out)
    scale = 1.0 / (N * M) if red == "mean" else 1.0
    size = 1
    for n in range(N):
        for m in range(M):
            size *= len(ers[n][m])
    if size > 20000:
        # too many tie combinations to search: take the real function's own choice per pair (checked to be allowed)
        chosen = []
        for n in range(N):
            row = []
            for m in range(M):
                r, h = pairs[n][m]
                v = float(F.error_rate(torch.tensor(r, dtype=torch.long).reshape(-1, 1), torch.tensor(h, dtype=torch.long).reshape(-1, 1),
                                       norm=norm, ins_cost=ic, del_cost=dc, sub_cost=sc, warn=False)[0])
                near = [w for w in ers[n][m] if _close(v, w)]
                if not near:
                    return "error_rate of pair (%d,%d) = %r is not allowed (%s); %s" % (n, m, v, ers[n][m], describe())
                row.append([near[0]])
            chosen.append(row)
        ers_search = chosen
    else:
        ers_search = ers
    # the total is a sum of independent per-row terms: achievable totals = sum set over rows
    totals = [0.0]
    for n in range(N):
        terms = sorted(set(sum(row_loss(n, er)) for er in itertools.product(*ers_search[n])))
        totals = sorted(set(t + x for t in totals for x in terms))
        if len(totals) > 200000:
            return None  # undecidable by search within budget; never reached inside the stated bounds
    if any(_close(got, t * scale) for t in totals):
        return None
    return "loss=%r is not the %s of softmax * (er - mean) for any allowed error rates; e.g. expected %r; %s" % (got, red, totals[0] * scale, describe())


def check_mer_rejects(case):
    """inputs the loss must refuse (fewer than two samples, wrong ranks, mismatched batch/sample sizes, unknown reduction) and a
    well-formed control it must accept. case: kind, batch_first, ref3d"""
    import torch
    from pydrobert.torch import functional as F

    kind, bf, ref3d = case["kind"], case["batch_first"], case["ref3d"]
    N, M, R, H = 2, (1 if kind == "one_sample" else 2), 2, 3
    g = torch.Generator().manual_seed(7)
    lp = torch.randn(N, M, generator=g)
    hyp = torch.randint(0, 3, (H, N, M), generator=g)
    ref = torch.randint(0, 3, (R, N, M) if ref3d else (R, N), generator=g)
    reduction = "mean"
    if kind == "bad_reduction":
        reduction = "average"
    elif kind == "empty_reduction":
        reduction = ""
    elif kind == "lp_1d":
        lp = lp[0]
    elif kind == "lp_3d":
        lp = lp.unsqueeze(0)
    elif kind == "hyp_2d":
        hyp = hyp[..., 0]
    elif kind == "hyp_4d":
        hyp = hyp.unsqueeze(-1)
    elif kind == "ref_1d":
        ref = ref[:, 0, 0] if ref3d else ref[:, 0]
    elif kind == "ref_4d":
        ref = ref.unsqueeze(-1) if ref3d else ref.unsqueeze(-1).unsqueeze(-1)
    elif kind == "ref_batch":
        ref = torch.cat([ref, ref[:, :1]], 1)
    elif kind == "ref_samples":
        if not ref3d:
            return None
        ref = torch.cat([ref, ref[..., :1]], 2)
    elif kind == "lp_samples":
        lp = torch.cat([lp, lp[:, :1]], 1)
    elif kind == "lp_batch":
        lp = torch.cat([lp, lp[:1]], 0)
    if bf:
        if hyp.dim() == 3:
            hyp = hyp.permute(1, 2, 0).contiguous()
        if ref.dim() == 3:
            ref = ref.permute(1, 2, 0).contiguous()
        elif ref.dim() == 2:
            ref = ref.t().contiguous()
    try:
        out = F.minimum_error_rate_loss(lp, ref, hyp, batch_first=bf, reduction=reduction, warn=False)
    except Exception as e:
        return "well-formed sample set was refused: %s" % _exc(e) if kind == "control" else None
    if kind == "control":
        return None
    return "minimum_error_rate_loss accepted a malformed call (%s) and returned %s" % (kind, out.tolist())


def check_any(case):
    return check_mer(case) if case["fn"] == "mer" else check_sm(case)


# ---------------------------------------------------------------------------------------------------
# case generators

EOS_CFGS = [(None, False), (0, False), (0, True)]


def _batches(R, H, alphabet, nmax, keep=None):
    """every pair (ref column in alphabet^R, hyp column in alphabet^H), dealt into batches of <= nmax columns by stride, so
    that a batch mixes different references, lengths-to-eos and garbage"""
    pairs = [(r, h) for r in itertools.product(alphabet, repeat=R) for h in itertools.product(alphabet, repeat=H)]
    if keep is not None:
        pairs = [p for p in pairs if keep(*p)]
    if not pairs:
        return
    nb = -(-len(pairs) // nmax)
    for b in range(nb):
        yield pairs[b::nb]


def _sm_case(fn, batch, R, H, eos, inc, norm, bf, costs, excl=False, padding=None, via="F"):
    N = len(batch)
    c = {"fn": fn, "via": via, "R": R, "H": H, "N": N,
         "ref": [[batch[n][0][t] for n in range(N)] for t in range(R)],
         "hyp": [[batch[n][1][t] for n in range(N)] for t in range(H)],
         "eos": eos, "include_eos": inc, "norm": norm, "batch_first": bf, "costs": list(costs)}
    if fn == "per":
        c["exclude_last"], c["padding"] = excl, padding
    return c


PADDINGS = [None, -1, 3]


def _shapes(ctx, lo):
    top = 3 if ctx.quick else 4
    return [(R, H) for R in range(lo, top + 1) for H in range(lo, top + 1)]


def _random_sm(rng, fn, cost_pool, via="F", force_empty_ref=False):
    N = rng.randint(1, 16)
    R, H = rng.randint(1, 7), rng.randint(1, 7)
    K = rng.randint(2, 5)
    eos = rng.choice([None] + list(range(K)))
    if force_empty_ref and eos is None:
        eos = 0
    garbage = list(range(K)) + [-1, 9]

    def col(T, empty=False):
        c = [rng.randrange(K) for _ in range(T)]
        if eos is not None:
            c = [x if x != eos else (eos + 1) % K for x in c]  # eos-free, then place (or not) one eos, garbage after
            k = 0 if empty else rng.randint(0, T + 1)  # k > T - 1: no eos in the column
            if k < T:
                c[k] = eos
                for t in range(k + 1, T):
                    c[t] = rng.choice(garbage)
        return tuple(c)

    batch = [(col(R, force_empty_ref and (n == 0 or rng.random() < 0.3)), col(H)) for n in range(N)]
    return _sm_case(fn, batch, R, H, eos, rng.random() < 0.5, True if force_empty_ref else rng.random() < 0.5, rng.random() < 0.5,
                    rng.choice(cost_pool), excl=rng.random() < 0.5, padding=rng.choice(PADDINGS), via=via)


DYADIC = ["0.25", "0.5", "0.75", "1", "1.25", "1.5", "2", "2.5", "3", "4"]


def _cost_pool(rng, uniform):
    if uniform:
        return UNIFORM + [(c, c, c) for c in DYADIC]
    pool = list(NONUNIFORM)
    while len(pool) < 40:
        t = tuple(rng.choice(DYADIC) for _ in range(3))
        if len(set(t)) > 1:
            pool.append(t)
    return pool


def cases_sm(ctx, fn, cost_list, tag):
    """exhaustive: every pair of columns over {0,1,2} with R,H in 1..3 (thorough 1..4), as raw columns (eos None) and read with
    eos=0 excluded/included (ragged lengths, garbage after eos), norm, batch_first, [exclude_last], every listed cost triple"""
    nmax = 16 if ctx.quick else 32
    k = 0
    for R, H in _shapes(ctx, 1):
        for batch in _batches(R, H, (0, 1, 2), nmax):
            for eos, inc in EOS_CFGS:
                for norm in (False, True):
                    for bf in (False, True):
                        for costs in cost_list:
                            for excl in ((False, True) if fn == "per" else (False,)):
                                k += 1
                                yield _sm_case(fn, batch, R, H, eos, inc, norm, bf, costs, excl, PADDINGS[k % 3])
    if not ctx.quick:
        rng = random.Random("%s/%s/%d" % (tag, fn, ctx.seed))
        pool = _cost_pool(rng, cost_list is UNIFORM)
        for _ in range(3000):
            yield _random_sm(rng, fn, pool)


def cases_uniform(ctx):
    yield from cases_sm(ctx, "er", UNIFORM, "uniform")
    yield from cases_sm(ctx, "per", UNIFORM, "uniform")


def cases_norm_empty(ctx):
    """normalised, at least one empty reference (eos in its first row, not counted) next to non-empty ones"""
    nmax = 16 if ctx.quick else 32
    k = 0
    for R, H in [(R, H) for R, H in _shapes(ctx, 1)]:
        mate = (tuple([1] * R), tuple([2] * H))
        for batch in _batches(R, H, (0, 1, 2), nmax - 1, keep=lambda r, h: r[0] == 0):
            for bf in (False, True):
                for costs in UNIFORM + NONUNIFORM:
                    for fn in ("er", "per"):
                        for excl in ((False, True) if fn == "per" else (False,)):
                            k += 1
                            yield _sm_case(fn, batch + [mate], R, H, 0, False, True, bf, costs, excl, PADDINGS[k % 3])
    if not ctx.quick:
        rng = random.Random("norm_empty/%d" % ctx.seed)
        pool = _cost_pool(rng, False) + UNIFORM
        for i in range(2000):
            yield _random_sm(rng, ("er", "per")[i % 2], pool, force_empty_ref=True)


def cases_empty_dim(ctx):
    """a time dimension of size 0: R = 0 (every reference empty) or H = 0 (every hypothesis empty)"""
    k = 0
    for R, H in [s for s in _shapes(ctx, 0) if min(s) == 0]:
        for batch in _batches(R, H, (0, 1, 2), 9):
            for eos, inc in EOS_CFGS:
                for norm in (False, True):
                    for bf in (False, True):
                        for costs in UNIFORM[:2] + NONUNIFORM[:3]:
                            for fn in ("er", "per"):
                                for excl in ((False, True) if fn == "per" else (False,)):
                                    k += 1
                                    yield _sm_case(fn, batch, R, H, eos, inc, norm, bf, costs, excl, PADDINGS[k % 3])


def _mer_case(rng, N, M, R, H, ref3d, eos, inc, sub_avg, bf, norm, costs, red, K=3, via="F"):
    tok = lambda: rng.randrange(K)
    return {"fn": "mer", "via": via, "N": N, "M": M, "R": R, "H": H, "ref3d": ref3d,
            "lp": [[round(rng.gauss(0, 2), 3) for _ in range(M)] for _ in range(N)],
            "ref": [[[tok() for _ in range(M)] if ref3d else tok() for _ in range(N)] for _ in range(R)],
            "hyp": [[[tok() for _ in range(M)] for _ in range(N)] for _ in range(H)],
            "eos": eos, "include_eos": inc, "sub_avg": sub_avg, "batch_first": bf, "norm": norm, "costs": list(costs), "reduction": red}


def cases_mer(ctx, lo=1, only_empty=False):
    """every configuration (N, M, R, H, ref rank, eos, sub_avg, layout, norm, cost triple, reduction) within the bound, two
    seeded draws of (log_probs, tokens over {0,1,2}) per configuration"""
    rng = random.Random("mer/%d/%d/%s" % (ctx.seed, lo, only_empty))
    top = 3 if ctx.quick else 4
    for N in (1, 2):
        for M in ((2, 3) if ctx.quick else (2, 3, 4)):
            for R in range(lo, top + 1):
                for H in range(lo, top + 1):
                    if only_empty and min(R, H) > 0:
                        continue
                    for ref3d in (False, True):
                        for eos, inc in EOS_CFGS:
                            for sub_avg in (False, True):
                                for bf in (False, True):
                                    for norm in (False, True):
                                        for costs in (MER_COSTS[:1] + MER_COSTS[2:3] if only_empty else MER_COSTS):
                                            for red in ("none", "sum", "mean"):
                                                for _ in range(1 if only_empty else 2):
                                                    yield _mer_case(rng, N, M, R, H, ref3d, eos, inc, sub_avg, bf, norm, costs, red)
    if not ctx.quick and not only_empty:
        pool = _cost_pool(rng, False) + UNIFORM
        for _ in range(4000):
            K = rng.randint(2, 4)
            yield _mer_case(rng, rng.randint(1, 4), rng.randint(2, 5), rng.randint(1, 6), rng.randint(1, 6), rng.random() < 0.5,
                            rng.choice([None] + list(range(K))), rng.random() < 0.5, rng.random() < 0.5, rng.random() < 0.5,
                            rng.random() < 0.5, rng.choice(pool), rng.choice(["none", "sum", "mean"]), K=K)


REJECT_KINDS = ["control", "one_sample", "bad_reduction", "empty_reduction", "lp_1d", "lp_3d", "hyp_2d", "hyp_4d", "ref_1d", "ref_4d",
                "ref_batch", "ref_samples", "lp_samples", "lp_batch"]


def cases_mer_rejects(ctx):
    for kind in REJECT_KINDS:
        for bf in (False, True):
            for ref3d in (False, True):
                yield {"kind": kind, "batch_first": bf, "ref3d": ref3d}


def cases_modules(ctx):
    """the module forms with every option given to the constructor"""
    k = 0
    shapes = [(2, 3), (3, 2), (3, 3)] if ctx.quick else [(2, 3), (3, 2), (3, 3), (4, 3), (3, 4)]
    for R, H in shapes:
        for batch in list(_batches(R, H, (0, 1, 2), 16))[:: (9 if ctx.quick else 5)]:
            for eos, inc in EOS_CFGS:
                for norm in (False, True):
                    for bf in (False, True):
                        for costs in [("2", "2", "2"), ("1", "2", "3"), ("3", "3", "4"), ("2", "1", "1")]:
                            for fn in ("er", "per"):
                                for excl in ((False, True) if fn == "per" else (False,)):
                                    k += 1
                                    yield _sm_case(fn, batch, R, H, eos, inc, norm, bf, costs, excl, PADDINGS[k % 3], via="M")
    rng = random.Random("modules/%d" % ctx.seed)
    for N, M, R, H in [(1, 2, 2, 3), (2, 3, 3, 2), (2, 2, 3, 3)]:
        for ref3d in (False, True):
            for eos, inc in EOS_CFGS:
                for sub_avg in (False, True):
                    for bf in (False, True):
                        for norm in (False, True):
                            for costs in [("2", "2", "2"), ("1", "2", "3"), ("2", "1", "1"), ("1", "3", "1")]:
                                for red in ("none", "sum", "mean"):
                                    for _ in range(2):
                                        yield _mer_case(rng, N, M, R, H, ref3d, eos, inc, sub_avg, bf, norm, costs, red, via="M")


# ---------------------------------------------------------------------------------------------------
# non-triviality predicates (evaluated in the workers; the oracle is cached)


def _pairs_of(case):
    rc, hc = _cols(case["ref"], case["R"], case["N"]), _cols(case["hyp"], case["H"], case["N"])
    for n in range(case["N"]):
        yield denoted(rc[n], case["eos"], case["include_eos"]), denoted(hc[n], case["eos"], case["include_eos"])


def nt_ties(case):
    """some pair (or prefix) has minimum-cost alignments with different edit counts: the tie-breaking matters"""
    if case["fn"] == "mer":
        return nt_mer(case)
    return any(len(o) > 1 for r, h in _pairs_of(case) for o in allowed_counts(r, h, tuple(case["costs"])))


def nt_mer(case):
    """some batch element has samples with different (sets of) error rates: the weighting and the mean subtraction matter"""
    R, H, eos, inc = case["R"], case["H"], case["eos"], case["include_eos"]
    for n in range(case["N"]):
        seen = set()
        for m in range(case["M"]):
            r = denoted([case["ref"][t][n][m] if case["ref3d"] else case["ref"][t][n] for t in range(R)], eos, inc)
            h = denoted([case["hyp"][t][n][m] for t in range(H)], eos, inc)
            seen.add((allowed_counts(r, h, tuple(case["costs"]))[len(h)], len(r) if case["norm"] else 1))
        if len(seen) > 1:
            return True
    return False


def nt_differs(case):
    """some pair has a non-empty reference and hypothesis that differ"""
    return any(r and h and r != h for r, h in _pairs_of(case))


def nt_empty_ref(case):
    refs = [r for r, _ in _pairs_of(case)]
    return any(len(r) == 0 for r in refs) and any(len(r) > 0 for r in refs)


# ---------------------------------------------------------------------------------------------------

CHECKERS = {
    "C02.mis.optimal_alignment": check_sm,
    "C02.prefix.optimal_alignment": check_sm,
    "C02.mis.uniform_is_lev": check_sm,
    "C02.mis.norm_empty": check_sm,
    "C02.mis.empty_dim": check_sm,
    "C02.mer.formula": check_mer,
    "C02.mer.empty_dim": check_mer,
    "C02.mer.rejects": check_mer_rejects,
    "C02.wrap.modules": check_any,
}

FINDINGS = [
    {"id": "KF-C02-1", "property": "C02", "clause": "C02.mer.empty_dim",
     "what": "minimum_error_rate_loss raises RuntimeError (view(T, -1) of a 0-element tensor is ambiguous) when ref or hyp has a time "
             "dimension of size 0; the contract is the loss of all-empty references / hypotheses",
     "class": "R == 0 or H == 0",
     "witness": {"fn": "mer", "via": "F", "N": 1, "M": 2, "R": 1, "H": 0, "ref3d": False, "lp": [[0.0, 0.0]], "ref": [[1]], "hyp": [],
                 "eos": None, "include_eos": False, "sub_avg": False, "batch_first": False, "norm": True, "costs": ["1", "1", "1"],
                 "reduction": "none"}},
]

KNOWN_MATCH = {
    "KF-C02-1": lambda case, msg: case.get("fn") == "mer" and (case["R"] == 0 or case["H"] == 0) and "raised RuntimeError" in msg
    and "reshape" in msg,
}


def oracle_selfcheck():
    """DP over argmin sets == literal enumeration of all alignments, for every pair over {0,1} (lengths <= 3), every prefix, every
    listed cost triple; unit-cost DP == levenshtein_prefixes"""
    n = bad = 0
    strings = [s for L in range(4) for s in itertools.product((0, 1), repeat=L)]
    for costs in UNIFORM + NONUNIFORM:
        for r in strings:
            for h in strings:
                dp = optimal_edit_counts(r, h, costs)
                for j in (len(h), len(h) // 2):
                    n += 1
                    bad += dp[j] != brute_counts(r, h[:j], costs)
                if len(set(costs)) == 1:
                    n += 1
                    bad += tuple(o[0] for o in dp) != levenshtein_prefixes(r, h) or any(len(o) != 1 for o in dp)
    return n, bad


def _want(ctx, name):
    only = getattr(ctx, "only", None)
    return not only or any(name.startswith(p) or p.startswith(name) for p in only)


def run_bounded(ctx):
    from vf.core import Clause

    import torch  # noqa: F401  (loaded before the pools fork, so that workers do not each import it)
    import pydrobert.torch.functional  # noqa: F401
    import pydrobert.torch.modules  # noqa: F401

    ctx.known_match.update(KNOWN_MATCH)
    n, bad = oracle_selfcheck()
    ctx.add_clause(Clause(name="C02.guard.oracle", kind="guard", status="ok" if bad == 0 else "error", evaluations=n,
                          detail="spec DP over argmin sets vs literal enumeration of every alignment (strings over {0,1}, lengths <= 3, "
                                 "11 cost triples, full and half prefixes) and vs textbook Levenshtein: %d disagreements" % bad))
    if bad:
        ctx.errors.append("C02 oracle self-check failed")
    q = ctx.quick
    L = 3 if q else 4
    space = ("all pairs of columns over {0,1,2}, R,H in 1..%d, dealt into batches of N<=%d; read raw (eos None) and with eos=0 "
             "excluded/included (ragged lengths, garbage after eos); norm and batch_first both ways" % (L, 16 if q else 32))
    rnd = "" if q else "; plus 3000 seeded random ragged batches (N<=16, R,H<=7, alphabet<=5, any eos, out-of-alphabet garbage, 40 cost triples)"
    sm_fns = ["_string._string_matching", "_string.error_rate", "_string.prefix_error_rates"]
    if _want(ctx, "C02.mis.optimal_alignment"):
        ctx.bounded("C02.mis.optimal_alignment", check_sm, cases_sm(ctx, "er", NONUNIFORM, "mis"),
                    bound=space + "; 8 non-uniform cost triples incl. NIST (3,3,4), tie-rich (1,1,2), (1,2,3), non-dyadic (0.3,0.7,1)" + rnd,
                    text="error_rate (x ref length when normalised) is the edit count of some minimum-cost alignment, hence within "
                         "[fewest, most]; oracle: DP over argmin sets in exact rationals (= enumeration of all optimal alignments)",
                    nontrivial=nt_ties, chunk=32, functions=sm_fns[:2])
    if _want(ctx, "C02.prefix.optimal_alignment"):
        ctx.bounded("C02.prefix.optimal_alignment", check_sm, cases_sm(ctx, "per", NONUNIFORM, "prefix"),
                    bound=space + "; exclude_last both ways; padding cycled over {default,-1,3}; 8 non-uniform cost triples" + rnd,
                    text="prefix_error_rates row j is an optimal-alignment edit count for hyp[:j] (normalised likewise), the padding value "
                         "past the hypothesis's length (full prefix omitted with exclude_last), shape and layout",
                    nontrivial=nt_ties, chunk=32, functions=[sm_fns[0], sm_fns[2]])
    if _want(ctx, "C02.mis.uniform_is_lev"):
        ctx.bounded("C02.mis.uniform_is_lev", check_sm, cases_uniform(ctx),
                    bound=space + "; both functions; exclude_last both ways; cost triples (1,1,1), (2,2,2), (0.3,0.3,0.3)"
                          + ("" if q else "; plus 2x3000 seeded random ragged batches with 13 uniform triples"),
                    text="equal costs: error rate (and every prefix row) = plain Levenshtein distance, whatever the common cost",
                    nontrivial=nt_differs, chunk=48, functions=sm_fns)
    if _want(ctx, "C02.mis.norm_empty"):
        ctx.bounded("C02.mis.norm_empty", check_sm, cases_norm_empty(ctx),
                    bound="every pair of columns over {0,1,2}, R,H in 1..%d, whose reference starts with eos=0 (empty reference, garbage after), "
                          "plus one non-empty mate per batch; norm on; both functions, exclude_last, batch_first both ways; 11 cost triples%s"
                          % (L, "" if q else "; plus 2000 seeded random batches with >= 1 empty reference"),
                    text="normalised, empty reference: 0 if the hypothesis (prefix) is empty, 1 otherwise; other pairs of the batch unaffected",
                    nontrivial=nt_empty_ref, chunk=32, functions=sm_fns)
    if _want(ctx, "C02.mis.empty_dim"):
        ctx.bounded("C02.mis.empty_dim", check_sm, cases_empty_dim(ctx),
                    bound="R = 0 or H = 0 (tensor time dimension of size 0), the other in 0..%d, all columns over {0,1,2}, eos None / 0 "
                          "excluded / 0 included, norm, batch_first, exclude_last, both functions, 5 cost triples" % L,
                    text="all references (hypotheses) empty through a zero-size time dimension: the functions return the same contract values",
                    chunk=32, functions=sm_fns + ["_string._lens_from_eos"])
    mer_fns = ["_string.minimum_error_rate_loss", "_string.error_rate"]
    if _want(ctx, "C02.mer.formula"):
        ctx.bounded("C02.mer.formula", check_mer, cases_mer(ctx, 1),
                    bound="N in 1..2, M in %s, R,H in 1..%d, 2-D and 3-D ref, eos None / 0 excl / 0 incl, sub_avg, batch_first, norm, "
                          "4 cost triples, 3 reductions: every configuration, two seeded draws of log_probs and tokens over {0,1,2} each%s"
                          % ("2..3" if q else "2..4", L, "" if q else "; plus 4000 seeded random sample sets (N<=4, M<=5, R,H<=6)"),
                    text="loss = softmax(log_probs)[n,m] * (er[n,m] - [sub_avg] mean_m er[n,:]) reduced by none/sum/mean, for some allowed "
                         "error rates er (existential over the optimal-alignment counts; unique for uniform costs)",
                    nontrivial=nt_mer, chunk=128, functions=mer_fns)
    if _want(ctx, "C02.mer.empty_dim"):
        ctx.bounded("C02.mer.empty_dim", check_mer, cases_mer(ctx, 0, only_empty=True),
                    bound="as C02.mer.formula with R = 0 or H = 0 (zero-size time dimension), 2 cost triples",
                    text="the loss is defined (and given by the same formula) when every reference or every hypothesis is empty",
                    chunk=128, functions=mer_fns)
    if _want(ctx, "C02.mer.rejects"):
        ctx.bounded("C02.mer.rejects", check_mer_rejects, cases_mer_rejects(ctx),
                    bound="13 malformed call kinds + control, both layouts, both ref ranks",
                    text="fewer than two samples, wrong tensor ranks, mismatched batch/sample sizes and unknown reductions are refused; "
                         "the well-formed control is accepted",
                    nontrivial=lambda c: c["kind"] != "control", chunk=8, functions=mer_fns[:1])
    if _want(ctx, "C02.wrap.modules"):
        ctx.bounded("C02.wrap.modules", check_any, cases_modules(ctx),
                    bound="ErrorRate / PrefixErrorRates on a stride sample of the batches of shapes %s with every flag combination and 4 cost "
                          "triples; MinimumErrorRateLoss on 3 shapes x every configuration x 4 cost triples x 2 seeded draws"
                          % ("(2,3),(3,2),(3,3)" if q else "(2,3),(3,2),(3,3),(4,3),(3,4)"),
                    text="the module forms forward every constructor option to the same contract (same oracles)",
                    nontrivial=nt_ties, chunk=32,
                    functions=["_string.ErrorRate.forward", "_string.PrefixErrorRates.forward", "_string.MinimumErrorRateLoss.forward"])
    ctx.replay_known_witnesses()
    ctx.assume("float32 results compared with tolerance 1e-5*(1+|x|); edit counts are small integers, exact in float32",
               "cost triples are the decimal rationals written in the case; the library's float32 sums of them are taken as exact "
               "(ties of the rationals may be broken either way, non-ties differ by >= 0.05)",
               "minimum over edit scripts = Wagner-Fischer recurrence (the spec DP is cross-checked against literal enumeration of "
               "all alignments for lengths <= 3 on every run)",
               "a matched pair (equal tokens aligned) costs nothing and is not an edit; costs are positive",
               "MER loss: log_probs finite; tensors contiguous; long tokens")
