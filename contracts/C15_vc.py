"""C15 / C16, engine A part: contracts on the real TrainingStateController methods.

Abstraction of the controller's state (stated assumptions, see ASSUME below):
  * `cache_hist` is an abstract map epoch -> record over [0, last], one SMT array per field (HistMap);
    dict order = epoch order; row 0 is the dummy row (metrics +inf are modelled by a symbolic bound INFV
    strictly above every finite metric).
  * `float(fmt.format(x))` (printing a metric with 5 significant digits and reading it back) is an
    uninterpreted monotone function rnd.
  * single process (`_rank = -1`): the distributed all-reduce branch is outside the contract.
The inductive history invariant Hist is the precondition and is re-proved for the successor state.
"""
import z3

from vf.pyvc import api, interp as ip
from vf.pyvc.api import VC
from vf.pyvc.interp import LoopSpec, PyRaise, SObj, Unsupported

M = "pydrobert.torch.training"
INT_FIELDS = ["es_resume_cd", "es_patience_cd", "rlr_resume_cd", "rlr_patience_cd"]
REAL_FIELDS = ["lr", "train_met", "val_met"]
IntArr = lambda n: z3.Array(n, z3.IntSort(), z3.IntSort())
RealArr = lambda n: z3.Array(n, z3.IntSort(), z3.RealSort())
RND = z3.Function("rnd", z3.RealSort(), z3.RealSort())
INFV = z3.Real("INF")

LAST = z3.Int("last")
A0 = {n: IntArr("h_" + n) for n in INT_FIELDS}
A0.update({n: RealArr("h_" + n) for n in REAL_FIELDS})
TM, VM = z3.Reals("train_met val_met")
NE, EP, EB, RP, RC, RB = z3.Ints("num_epochs es_patience es_burnin rlr_patience rlr_cooldown rlr_burnin")
ET, RT, RF, RE, L10 = z3.Reals("es_threshold rlr_threshold rlr_factor rlr_log10_eps log10_lr")
DEFLR, G0, G1 = z3.Reals("opt_default_lr group0_lr group1_lr")

ASSUME = [
    "cache_hist abstracted to per-field SMT arrays over epochs [0,last]; dict iteration order = epoch order",
    "float(fmt.format(x)) abstracted to an uninterpreted monotone function rnd; +inf metrics of the dummy row 0 modelled by a bound INF above all finite metrics",
    "single process (_rank=-1); torch.distributed reduction branch not covered by the contract",
    "float arithmetic treated as real arithmetic; 10**x is an uninterpreted positive function",
]


class Fmt:
    """self.fmt_dict[key]: .format(x) then float(...) is rnd(x)"""

    def __vc_getattr__(self, I, name):
        if name != "format":
            raise Unsupported("fmt.%s" % name)

        class F:
            def __vc_call__(s, I, a, k):
                return Formatted(a[0])

        return F()


class Formatted:
    def __init__(self, x):
        self.x = x

    def __vc_float__(self, I):
        return RND(ip.to_z3(self.x) if not ip.is_z3(self.x) else (self.x if z3.is_real(self.x) else z3.ToReal(self.x)))


class FmtDict:
    def __vc_getitem__(self, I, k):
        return Fmt()


class HistMap:
    def __init__(self, arrays, last, lr0_none):
        self.arr, self.last, self.lr0_none = dict(arrays), last, lr0_none
        self.writes = []

    def row(self, I, k):
        d = {"epoch": k}
        for n in INT_FIELDS + REAL_FIELDS:
            d[n] = z3.Select(self.arr[n], k)
        if self.lr0_none and I.ex.branch(k == 0):
            d["lr"] = None
        return d

    def indom(self, k):
        return z3.And(k >= 0, k <= self.last)

    def __vc_getattr__(self, I, name):
        hm = self

        class Get:
            def __vc_call__(s, I, a, kw):
                k = ip.to_z3(a[0])
                if I.ex.branch(hm.indom(k)):
                    return hm.row(I, k)
                if len(a) > 1:
                    return a[1]
                raise PyRaise("KeyError")  # (dict.get without default returns None; get_info passes *default so this is cache_hist.get(epoch))

        class Values:
            def __vc_call__(s, I, a, kw):
                return HistValues(hm)

        if name == "get":
            return Get()
        if name == "values":
            return Values()
        raise Unsupported("cache_hist.%s" % name)

    def __vc_getitem__(self, I, k):
        k = ip.to_z3(k)
        if I.ex.branch(self.indom(k)):
            return self.row(I, k)
        raise PyRaise("KeyError")

    def __vc_setitem__(self, I, k, info):
        k = ip.to_z3(k)
        # the contract only admits extending the history by the next epoch or overwriting an existing row
        I.ex.oblige("hist.store_contiguous", z3.And(k >= 0, k <= self.last + 1))
        for n in INT_FIELDS + REAL_FIELDS:
            v = info[n]
            if v is None:
                raise Unsupported("storing lr=None")
            v = ip.to_z3(v)
            if n in REAL_FIELDS and z3.is_int(v):
                v = z3.ToReal(v)
            self.arr[n] = z3.Store(self.arr[n], k, v)
        I.ex.oblige("hist.epoch_field_is_key", ip.to_z3(info["epoch"]) == k)
        self.last = z3.If(k > self.last, k, self.last)
        self.writes.append(k)

    def __vc_max__(self, I):
        return self.last


class HistValues:
    def __init__(self, hm):
        self.hm = hm


def dict_get_none_default(I, hm, k):
    pass


def mk_self(I, state_dir=None, keep=False, ne_set=True, lr0_none=False, l10_set=True, csv=None):
    import pydrobert.torch.training as tr

    params = SObj(None, {
        "num_epochs": NE if ne_set else None, "early_stopping_threshold": ET, "early_stopping_patience": EP, "early_stopping_burnin": EB,
        "reduce_lr_threshold": RT, "reduce_lr_patience": RP, "reduce_lr_cooldown": RC, "reduce_lr_burnin": RB, "reduce_lr_factor": RF,
        "reduce_lr_log10_epsilon": RE, "keep_last_and_best_only": keep, "log10_learning_rate": L10 if l10_set else None, "seed": None,
        "saved_model_fmt": "model_{epoch}.pt", "saved_optimizer_fmt": "optim_{epoch}.pt"}, "params")
    hm = HistMap(A0, LAST, lr0_none)
    obj = SObj(tr.TrainingStateController, {
        "params": params, "cache_hist": hm, "user_entry_types": {}, "fmt_dict": FmtDict(), "state_dir": state_dir, "state_csv_path": csv,
        "_rank": -1, "reduced_entries": {"train_met", "val_met"}, "reduce_op": None}, "self")
    return obj, hm


def mk_optimizer():
    return SObj(None, {"param_groups": [{"lr": G0}, {"lr": G1}], "defaults": {"lr": DEFLR}}, "optimizer")


# ---- the history invariant -----------------------------------------------------------------------------------------------
# Hist(last) for one criterion with patience P, count-down array cd and resume array res:
#   0 <= c <= P,  res >= 0,  res > 0 => c = P,  stale := P - c <= last,  and  FORALL k in [0, stale]: cd(last - k) = c + k
# i.e. the last `stale` rows are consecutive failures counted down from a full count `stale` rows back, which is the row
# "when the patience count was last reset": the code's reference epoch  epoch - P + c - 1  is exactly that row.
# Obligations are kept quantifier-free: a universally quantified hypothesis is used through explicit instances
# (FORALL-elimination) and a universally quantified goal is proved for a fresh constant (FORALL-introduction).
KSK = z3.Int("k_skolem")
KF = z3.Int("k_frame")


def cd_inv_at(arr_cd, arr_res, last, P, ks):
    c, r = z3.Select(arr_cd, last), z3.Select(arr_res, last)
    stale = P - c
    inst = [z3.Implies(z3.And(0 <= k, k <= stale), z3.Select(arr_cd, last - k) == c + k) for k in ks]
    return z3.And(0 <= c, c <= P, r >= 0, z3.Implies(r > 0, c == P), stale <= last, *inst)


def params_pre(ne_set):
    pre = [EP >= 1, EB >= 0, RP >= 1, RC >= 0, RB >= 0, ET >= 0, RT >= 0, RF > 0, RF < 1, LAST >= 0]
    if ne_set:
        pre.append(NE >= 1)
    return pre


def hist_pre(arrs, last):
    es_c, rlr_c = z3.Select(arrs["es_patience_cd"], last), z3.Select(arrs["rlr_patience_cd"], last)
    return [cd_inv_at(arrs["es_patience_cd"], arrs["es_resume_cd"], last, EP, [KSK - 1, EP - es_c]),
            cd_inv_at(arrs["rlr_patience_cd"], arrs["rlr_resume_cd"], last, RP, [KSK - 1, RP - rlr_c]),
            # the controller has not already told the caller to stop (the property's domain)
            z3.Implies(ET > 0, es_c > 0), rlr_c > 0]


def range_only_best(I, args, kwargs):
    """get_best_epoch at call sites whose result the decision part never uses: only its range is assumed"""
    hm = args[0].fields["cache_hist"]
    b = I.ex.fresh("int", "best")
    I.ex.assume(z3.And(0 <= b, b <= hm.last))
    return b


def best_contract(I, args, kwargs):
    """assumed at call sites, proved by the get_best_epoch VC: the earliest epoch minimising the formatted metric"""
    self_ = args[0]
    train = args[1] if len(args) > 1 else kwargs.get("train_met", False)
    hm = self_.fields["cache_hist"]
    arr = hm.arr["train_met" if train else "val_met"]
    b = I.ex.fresh("int", "best")
    k = z3.Int("kb")
    I.ex.assume(z3.And(0 <= b, b <= hm.last,
                       z3.ForAll([k], z3.Implies(z3.And(0 <= k, k <= hm.last), RND(z3.Select(arr, b)) <= RND(z3.Select(arr, k)))),
                       z3.ForAll([k], z3.Implies(z3.And(0 <= k, k < b), RND(z3.Select(arr, k)) > RND(z3.Select(arr, b))))))
    return b


def step_vcs(quick=True):
    out = []
    for ne_set in (True, False):
        for first_lr_none in (False, True):
            if quick and ne_set == first_lr_none:
                continue  # quick tier: two of the four flag combinations (each flag both ways); thorough: all four
            name = "update_for_epoch[num_epochs=%s,lr0_none=%s]" % ("set" if ne_set else "unset", first_lr_none)

            def thunk(I, ne_set=ne_set, first_lr_none=first_lr_none):
                obj, hm = mk_self(I, None, False, ne_set, first_lr_none, not first_lr_none)
                opt = mk_optimizer()
                I.ex.ghost.update(self=obj, hm=hm, opt=opt)
                return I.call(I.getattr(obj, "update_for_epoch"), [SObj(None, {}, "model"), opt, TM, VM], {})

            pre = params_pre(ne_set) + hist_pre(A0, LAST)
            e = LAST + 1

            def post(p, ne_set=ne_set, first_lr_none=first_lr_none):
                if not api.returns(p):
                    return False
                hm, opt = p.ghost["hm"], p.ghost["opt"]
                new = {n: z3.Select(hm.arr[n], e) for n in INT_FIELDS + REAL_FIELDS}
                old = {n: z3.Select(A0[n], LAST) for n in INT_FIELDS + REAL_FIELDS}
                goals = []
                # ---- early stopping transition (ghost: stale = P - cd, ref value = metric `stale` rows back)
                c, r = old["es_patience_cd"], old["es_resume_cd"]
                ref = z3.Select(A0["val_met"], LAST - (EP - c))
                fail = z3.If(ref - VM > 0, ref - VM, 0) < ET
                c2 = z3.If(r > 0, c, z3.If(fail, c - 1, EP))
                goals.append(("es.transition", z3.And(new["es_resume_cd"] == z3.If(r > 0, r - 1, 0), new["es_patience_cd"] == c2)))
                stop = z3.Or(z3.And(z3.BoolVal(ne_set), e >= NE), z3.And(ET != 0, c2 == 0))
                cont = p.value if ip.is_z3(p.value) else z3.BoolVal(bool(p.value))
                goals.append(("stop_iff_budget_or_patience_exhausted", cont == z3.Not(stop)))
                # ---- lr reduction transition
                cr, rr = old["rlr_patience_cd"], old["rlr_resume_cd"]
                refr = z3.Select(A0["val_met"], LAST - (RP - cr))
                failr = z3.If(refr - VM > 0, refr - VM, 0) < RT
                fired = z3.And(rr == 0, failr, cr - 1 == 0)
                old_lr = DEFLR if first_lr_none else old["lr"]
                if first_lr_none:
                    old_lr = z3.If(LAST == 0, DEFLR, old["lr"])
                new_lr = old_lr * RF
                change = z3.And(fired, old_lr - new_lr > ip.POW10(RE))
                goals.append(("rlr.transition", z3.And(
                    new["rlr_resume_cd"] == z3.If(rr > 0, rr - 1, z3.If(fired, RC, 0)),
                    new["rlr_patience_cd"] == z3.If(rr > 0, cr, z3.If(failr, z3.If(fired, RP, cr - 1), RP)))))
                g0, g1 = opt.fields["param_groups"][0]["lr"], opt.fields["param_groups"][1]["lr"]
                goals.append(("lr.multiplied_iff_fired_outside_cooldown_and_not_negligible", z3.And(
                    new["lr"] == z3.If(change, new_lr, old_lr),
                    z3.If(change, z3.And(g0 == new_lr, g1 == new_lr), z3.And(g0 == G0, g1 == G1)))))
                goals.append(("row.metrics_recorded", z3.And(new["val_met"] == VM, new["train_met"] == TM, hm.last == e)))
                # ---- frame: earlier rows untouched
                goals.append(("frame.earlier_rows_unchanged", z3.Implies(z3.And(0 <= KF, KF <= LAST), z3.And(
                    [z3.Select(hm.arr[n], KF) == z3.Select(A0[n], KF) for n in INT_FIELDS + REAL_FIELDS]))))
                # ---- the invariant is re-established for the successor state (unless the controller just said stop)
                inv_es = cd_inv_at(hm.arr["es_patience_cd"], hm.arr["es_resume_cd"], e, EP, [KSK])
                inv_rlr = cd_inv_at(hm.arr["rlr_patience_cd"], hm.arr["rlr_resume_cd"], e, RP, [KSK])
                goals.append(("hist.invariant_preserved", z3.And(inv_es, inv_rlr, z3.Select(hm.arr["rlr_patience_cd"], e) > 0,
                                                                  z3.Implies(cont, z3.Implies(ET > 0, z3.Select(hm.arr["es_patience_cd"], e) > 0)))))
                return [z3.And([g for _, g in goals])]

            def twin(p, ne_set=ne_set):  # must fail: "never stops early"
                if not api.returns(p):
                    return None
                cont = p.value if ip.is_z3(p.value) else z3.BoolVal(bool(p.value))
                return cont == z3.Not(z3.And(z3.BoolVal(ne_set), e >= NE))

            pre_lr = [z3.Select(A0["lr"], LAST) > 0, DEFLR > 0]
            out.append(VC("C15.step.rules", name, M, "TrainingStateController.update_for_epoch", thunk, pre=pre + pre_lr,
                          posts=[("decision_rules", post)], twins=[("never_stops_early", twin)],
                          contracts={"TrainingStateController.get_best_epoch": range_only_best},
                          inputs={"last": LAST, "val_met": VM, "es_patience": EP, "es_threshold": ET, "num_epochs": NE, "rlr_patience": RP,
                                  "rlr_threshold": RT, "rlr_factor": RF, "rlr_cooldown": RC, "es_burnin": EB},
                          assumptions=ASSUME, timeout_ms=60000))
    return out


# ---- get_best_epoch against its contract (loop invariant over the history) ------------------------------------------------
def best_vcs():
    out = []
    for train in (False, True):
        ent = "train_met" if train else "val_met"

        def thunk(I, train=train):
            obj, hm = mk_self(I)
            I.ex.ghost.update(hm=hm)
            return I.call(I.getattr(obj, "get_best_epoch"), [train], {})

        arr = A0[ent]

        def inv(I, f, k, arr=arr):
            me, mm = f.locals["min_epoch"], f.locals["min_met"]
            j = z3.Int("j")
            me, mm = ip.to_z3(me), ip.to_z3(mm)
            return z3.And(0 <= me, me <= LAST, z3.Or(z3.And(k == 0, me == 0), me < k), mm == RND(z3.Select(arr, me)),
                          z3.ForAll([j], z3.Implies(z3.And(0 <= j, j < k), mm <= RND(z3.Select(arr, j)))),
                          z3.ForAll([j], z3.Implies(z3.And(0 <= j, j < me), RND(z3.Select(arr, j)) > mm)))

        loop = LoopSpec("best.loop", inv, length=lambda I, f, it: LAST + 1, item=lambda I, f, it, k: it.hm.row(I, k),
                        modifies={"min_epoch": "int", "min_met": "real", "cur": "real"})

        def post(p, arr=arr):
            if not api.returns(p):
                return False
            b = ip.to_z3(p.value)
            k = z3.Int("kq")
            return [z3.And(0 <= b, b <= LAST),
                    z3.ForAll([k], z3.Implies(z3.And(0 <= k, k <= LAST), RND(z3.Select(arr, b)) <= RND(z3.Select(arr, k)))),
                    z3.ForAll([k], z3.Implies(z3.And(0 <= k, k < b), RND(z3.Select(arr, k)) > RND(z3.Select(arr, b))))]

        stubs = {"builtins.list": lambda I, it=(): it if isinstance(it, HistValues) else list(I.iterate(it))}
        out.append(VC("C15.best.argmin", "get_best_epoch[%s]" % ent, M, "TrainingStateController.get_best_epoch", thunk, pre=[LAST >= 0],
                      posts=[("earliest_epoch_minimising_formatted_metric", post)], loops={("get_best_epoch", 0): loop}, stubs=stubs,
                      twins=[("latest_argmin", lambda p, arr=arr: z3.ForAll([z3.Int("kq")], z3.Implies(z3.And(ip.to_z3(p.value) < z3.Int("kq"), z3.Int("kq") <= LAST),
                                                                                                     RND(z3.Select(arr, z3.Int("kq"))) > RND(z3.Select(arr, ip.to_z3(p.value))))) if api.returns(p) else None)],
                      inputs={"last": LAST}, assumptions=ASSUME, timeout_ms=60000))
    return out


def initial_row_vc(l10_set):
    """Base case of the history invariant: a controller with no history file starts from the epoch-0 row the documentation
    describes - early-stopping / learning-rate resume count-downs = their OWN burn-in periods, patience count-downs = their own
    patience, both metrics +inf, learning rate = 10 ** log10_learning_rate when configured (else unset)."""
    import pydrobert.torch.training as tr

    name = "TrainingStateController.update_cache[no history file; log10_learning_rate %s]" % ("set" if l10_set else "unset")

    def thunk(I):
        params = SObj(None, {"early_stopping_patience": EP, "early_stopping_burnin": EB, "reduce_lr_patience": RP, "reduce_lr_burnin": RB,
                             "log10_learning_rate": L10 if l10_set else None}, "params")
        obj = SObj(tr.TrainingStateController, {"params": params, "cache_hist": {}, "user_entry_types": {}, "state_csv_path": None, "_rank": -1}, "self")
        I.ex.ghost["obj"] = obj
        I.call(I.getattr(obj, "update_cache"), [], {})
        return obj

    def post(p):
        if not api.returns(p):
            return False
        h = p.ghost["obj"].fields["cache_hist"]
        if not isinstance(h, dict) or list(h.keys()) != [0] or not isinstance(h[0], dict):
            return [("exactly_the_epoch_0_row", z3.BoolVal(False))]
        r = h[0]
        eq = lambda k, v: ip.to_z3(r[k]) == v if r.get(k) is not None and not isinstance(r.get(k), float) else z3.BoolVal(False)
        inf = float("inf")
        goals = [("epoch_is_zero", z3.BoolVal(r.get("epoch") == 0)), ("es_resume_is_the_early_stopping_burnin", eq("es_resume_cd", EB)), ("es_patience_is_the_early_stopping_patience", eq("es_patience_cd", EP)),
                 ("rlr_resume_is_the_reduce_lr_burnin", eq("rlr_resume_cd", RB)), ("rlr_patience_is_the_reduce_lr_patience", eq("rlr_patience_cd", RP)),
                 ("metrics_start_at_infinity", z3.BoolVal(r.get("train_met") == inf and r.get("val_met") == inf))]
        if l10_set:
            goals.append(("learning_rate_is_ten_to_the_configured_power", ip.to_z3(r["lr"]) == ip.POW10(L10) if ip.is_z3(r.get("lr")) else z3.BoolVal(False)))
        else:
            goals.append(("learning_rate_unset", z3.BoolVal(r.get("lr") is None)))
        return goals

    return VC("C15.P.initial_row", name, M, "TrainingStateController.update_cache", thunk, pre=[EP >= 1, EB >= 0, RP >= 1, RB >= 0], posts=[("epoch_0_row", post)],
              inputs={"es_patience": EP, "es_burnin": EB, "rlr_patience": RP, "rlr_burnin": RB},
              assumptions=["no history file (state_csv_path None): reading a file back is the bounded driver's (restart equivalence)", "10 ** x as the uninterpreted POW10"])


def initial_vcs(ctx):
    return [initial_row_vc(True), initial_row_vc(False)]


def vcs(ctx):
    return step_vcs(ctx.quick) + best_vcs()
