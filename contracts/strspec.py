"""Symbolic spec functions for the string-matching properties (C01-C03), written from the property
statements: first-eos lengths, weighted Levenshtein (Wagner-Fischer recurrence taken as the
definition of 'minimum total cost of insertions, deletions and substitutions'), fewest/most edits
among minimum-cost alignments, optimal-completion sets. All return SMT terms over symbolic tokens."""
import z3

from vf.pyvc.ctensor import sc_add, sc_cmp, sc_min, sc_where, sc_and, sc_or


def ite_select(table, idx):
    """table[idx] for a python list of terms and an SMT integer index known to be in range"""
    acc = table[-1]
    for k in range(len(table) - 2, -1, -1):
        acc = sc_where(idx == k, table[k], acc)
    return acc


def first_eos_len(col, eos, include_eos):
    """col: list of token terms. Length up to (excluding, or including when include_eos and present)
    the first eos; the full length if no eos / eos is None."""
    T = len(col)
    if eos is None:
        return z3.IntVal(T)
    acc = z3.IntVal(T)
    for t in range(T - 1, -1, -1):
        acc = z3.If(col[t] == eos, z3.IntVal(t + (1 if include_eos else 0)), acc)
    return acc


def lev_table(ref, hyp, ins, dele, sub):
    """D[r][j] = weighted Levenshtein cost between ref[:r] and hyp[:j]"""
    R, H = len(ref), len(hyp)
    D = [[None] * (H + 1) for _ in range(R + 1)]
    D[0][0] = z3.RealVal(0)
    for r in range(1, R + 1):
        D[r][0] = D[r - 1][0] + dele
    for j in range(1, H + 1):
        D[0][j] = D[0][j - 1] + ins
    for r in range(1, R + 1):
        for j in range(1, H + 1):
            s = D[r - 1][j - 1] + z3.If(ref[r - 1] != hyp[j - 1], sub, z3.RealVal(0))
            D[r][j] = sc_min(sc_min(D[r][j - 1] + ins, s), D[r - 1][j] + dele)
    return D


def edits_tables(ref, hyp, ins, dele, sub):
    """(D, Emin, Emax): fewest / most edits among minimum-cost alignments"""
    R, H = len(ref), len(hyp)
    D = lev_table(ref, hyp, ins, dele, sub)
    Emin = [[None] * (H + 1) for _ in range(R + 1)]
    Emax = [[None] * (H + 1) for _ in range(R + 1)]
    for r in range(R + 1):
        for j in range(H + 1):
            if r == 0 or j == 0:
                Emin[r][j] = Emax[r][j] = z3.IntVal(r + j)
                continue
            neq = ref[r - 1] != hyp[j - 1]
            cands = [
                (D[r][j] == D[r][j - 1] + ins, Emin[r][j - 1] + 1, Emax[r][j - 1] + 1),
                (D[r][j] == D[r - 1][j - 1] + z3.If(neq, sub, z3.RealVal(0)), Emin[r - 1][j - 1] + z3.If(neq, 1, 0), Emax[r - 1][j - 1] + z3.If(neq, 1, 0)),
                (D[r][j] == D[r - 1][j] + dele, Emin[r - 1][j] + 1, Emax[r - 1][j] + 1),
            ]
            big, small = z3.IntVal(10 ** 6), z3.IntVal(-1)
            lo, hi = big, small
            for c, a, b in cands:
                lo = z3.If(z3.And(c, a < lo), a, lo)
                hi = z3.If(z3.And(c, b > hi), b, hi)
            Emin[r][j], Emax[r][j] = lo, hi
    return D, Emin, Emax


def sel2(T, r, j):
    """T[r][j] for symbolic in-range r, j"""
    return ite_select([ite_select(row, j) for row in T], r)
