"""C11 - transcript files read back exactly what was written."""
from contracts import C11_vc
from vf.pyvc import api

try:
    from contracts import C11_rt
except ImportError:
    C11_rt = None
CHECKERS = dict(C11_rt.CHECKERS) if C11_rt else {}
KNOWN_MATCH = {"KF-C11-1": lambda case, msg: (msg or "").startswith("write_textgrid/path_branch_forwards_every_parameter") and (msg or "").rsplit(".", 1)[-1] in ("param:point_tier", "param:precision")}


def run(ctx):
    ctx.known_match.update(KNOWN_MATCH)
    api.run_vcs(ctx, C11_vc.vcs(ctx), {
        "C11.dispatch.forward_all": "path-or-file dispatch: the path branch re-enters the function with the opened handle and every other parameter unchanged (7 functions)",
        "C11.P.tok_roundtrip": "transcript_to_token then token_to_transcript: id preserved, start in (s - shift, s], end within one frame shift"})
    if C11_rt:
        C11_rt.run_bounded(ctx)
    ctx.not_applicable.append("'every completion order of worker processes' in multi-process trn parsing (schedules): contracts are sequential; only processes in {0,1,k} actually run are compared")
