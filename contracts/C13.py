"""C13 - epoch samplers are reproducible and split data exactly across processes.

Everything is decided deductively (engine A); a bounded run-time cross-check of the same contracts
on the real classes is kept as an engine/contract sanity rung and as the replay oracle.

Functions under contract (pydrobert.torch._dataloaders):
  AbstractEpochSampler.__init__, __len__, get_samples_for_epoch, __iter__,
  EpochRandomSampler.__init__, .get_samples_for_epoch_ignoring_distributed,
  EpochSequentialSampler.__init__, .get_samples_for_epoch_ignoring_distributed
Assumed (external) contracts: torch.distributed.{is_available,is_initialized,get_rank,
get_world_size} return the process group's (rank, W) with 0 <= rank < W; itertools.islice(it, a, b, s)
yields it[a], it[a+s], ... for indices < b; numpy RandomState((s, e)).permutation(n) is a function of
(s, e, n) and a permutation of range(n) (cross-checked natively below).
"""
import itertools

import z3

from vf.pyvc import api, interp as ip
from vf.pyvc.api import VC

M = "pydrobert.torch._dataloaders"
MODES = ["raise", "drop", "uneven", "ignore"]

N, W, R, E = z3.Ints("N W R E")
EPOCH, SEED, INIT = z3.Ints("epoch seed init_epoch")
AVAIL, INITD = z3.Bools("dist_available dist_initialized")
DR, DW = z3.Ints("dist_rank dist_world")


class Abs:
    """abstract immutable value with structural identity: perm(seed, epoch, n), islice(base,a,b,s)"""

    def __init__(self, tag, *args):
        self.tag, self.args = tag, args

    def same(self, other):
        if not isinstance(other, Abs) or other.tag != self.tag or len(other.args) != len(self.args):
            return z3.BoolVal(False)
        cs = []
        for a, b in zip(self.args, other.args):
            if isinstance(a, Abs) or isinstance(b, Abs):
                cs.append(a.same(b) if isinstance(a, Abs) else z3.BoolVal(False))
            else:
                x, y = ip.coerce_pair(a, b)
                cs.append(x == y)
        return z3.And(cs) if cs else z3.BoolVal(True)


DIST_STUBS = {
    "torch.distributed.is_available": lambda I: AVAIL,
    "torch.distributed.distributed_c10d.is_initialized": lambda I: INITD,
    "torch.distributed.distributed_c10d.get_rank": lambda I: DR,
    "torch.distributed.distributed_c10d.get_world_size": lambda I: DW,
    "itertools.islice": lambda I, it, a, b, s=1: Abs("islice", it, a, b, s),
    "numpy.random.mtrand.RandomState": lambda I, seed: Abs("rs", *seed),
    "builtins.iter": lambda I, x: x,
    "builtins.range": lambda I, *a: Abs("range", *a),
}
DIST = z3.And(AVAIL, INITD, DR >= 0)
ENV = [N >= 0, z3.Implies(z3.And(AVAIL, INITD), z3.And(DW >= 1, DR < DW, DR >= -1))]


def _perm_getattr(self, I, name):
    if self.tag == "rs" and name == "permutation":
        rs = self

        class P:
            def __vc_call__(s, I, args, kwargs):
                return Abs("perm", rs.args[0], rs.args[1], args[0])

        return P()
    raise ip.Unsupported("attribute %s of abstract %s" % (name, self.tag))


Abs.__vc_getattr__ = _perm_getattr


def data_source(I):
    return ip.SObj(None, {"__len__": N}, "data_source")


def sampler(I, cls_name, fields):
    import pydrobert.torch._dataloaders as dl

    return ip.SObj(getattr(dl, cls_name), fields, "self")


WF = [W >= 1, 0 <= R, R < W, E >= 0, N >= 0, E <= N]  # representation invariant of a constructed sampler


def wf_fields():
    return {"_rank": R, "_world_size": W, "effective_total": E, "total": N, "epoch": EPOCH, "base_seed": SEED}


def fields_same(obj, ref, skip=()):
    cs = []
    for k, v in ref.items():
        if k in skip:
            continue
        if k not in obj.fields:
            return z3.BoolVal(False)
        a, b = ip.coerce_pair(obj.fields[k], v)
        cs.append(a == b)
    if set(obj.fields) - set(ref):
        return z3.BoolVal(False)
    return z3.And(cs)


def vcs():
    out = []
    # ---- __init__ per class and mode -----------------------------------------------------------
    for cls in ["EpochRandomSampler", "EpochSequentialSampler"]:
        for mode in MODES:
            def thunk(I, cls=cls, mode=mode):
                obj = sampler(I, cls, {})
                I.ex.ghost["self"] = obj
                kw = {"base_seed": SEED} if cls == "EpochRandomSampler" else {}
                fdef, mod = I.get_function(M, cls + ".__init__")
                import pydrobert.torch._dataloaders as dl

                I.call_def(fdef, mod, [obj, data_source(I), INIT, ], dict(on_uneven_distributed=mode, **kw), cls=getattr(dl, cls))
                return obj

            def ensures(p, mode=mode, cls=cls):
                o = p.ghost["self"].fields
                need = {"_rank", "_world_size", "effective_total", "total", "epoch"}
                if not need <= set(o):
                    return False
                dist = z3.BoolVal(False) if mode == "ignore" else DIST
                eff = N - N % DW if mode == "drop" else N
                g = z3.And(o["total"] == N, o["epoch"] == INIT,
                           z3.If(dist, z3.And(o["_rank"] == DR, o["_world_size"] == DW, o["effective_total"] == eff),
                                 z3.And(o["_rank"] == 0, o["_world_size"] == 1, o["effective_total"] == N)))
                if cls == "EpochRandomSampler":
                    g = z3.And(g, o["base_seed"] == SEED)
                # the representation invariant every other contract relies on
                g = z3.And(g, o["_world_size"] >= 1, 0 <= o["_rank"], o["_rank"] < o["_world_size"], 0 <= o["effective_total"], o["effective_total"] <= N)
                if mode == "drop":
                    g = z3.And(g, o["effective_total"] % o["_world_size"] == 0)
                return g

            raise_cond = (lambda p, mode=mode: z3.And(DIST, N % DW != 0) if mode == "raise" else z3.BoolVal(False))
            seedpre = [SEED >= 0, SEED <= 2 ** 31 - 1]
            out.append(VC("C13.init.modes", "%s.__init__[%s]" % (cls, mode), M, "AbstractEpochSampler.__init__", thunk,
                          pre=ENV + seedpre, posts=[("raise_iff_indivisible_and_state", api.post_raises_iff(raise_cond, "ValueError", ensures))],
                          twins=[("state_with_wrong_rank", api.post_raises_iff(raise_cond, "ValueError", lambda p: p.ghost["self"].fields.get("_rank", 0) == 1))],
                          inputs={"N": N, "W": DW, "rank": DR, "avail": AVAIL, "initd": INITD, "init_epoch": INIT, "seed": SEED},
                          stubs=DIST_STUBS, replay=lambda m, mode=mode, cls=cls: replay_init(m, mode, cls)))
    # ---- __len__ ---------------------------------------------------------------------------------
    L = z3.Int("L")

    def len_thunk(I):
        obj = sampler(I, "EpochSequentialSampler", wf_fields())
        fdef, mod = I.get_function(M, "AbstractEpochSampler.__len__")
        return I.call_def(fdef, mod, [obj], {})

    def len_post(p):
        if not api.returns(p):
            return False
        v = p.value
        # v is the number of k >= 0 with R + k*W < E
        return z3.And(v >= 0, z3.Implies(v > 0, R + (v - 1) * W < E), R + v * W >= E)

    out.append(VC("C13.len.count", "__len__", M, "AbstractEpochSampler.__len__", len_thunk, pre=WF,
                  posts=[("len_is_number_of_rank_strided_indices", len_post)],
                  twins=[("len_off_by_one", lambda p: z3.And(p.value >= 0, R + (p.value + 1) * W >= E, z3.Implies(p.value > 0, R + p.value * W < E)) if api.returns(p) else False)],
                  inputs={"E": E, "W": W, "rank": R, "N": N},
                  replay=lambda m: replay_wf(m)))

    # drop mode: every rank gets equally many (N // W) -- uses __init__'s ensured invariant E % W == 0
    def len_drop_post(p):
        return p.value == N / W if api.returns(p) else False

    out.append(VC("C13.len.count", "__len__[drop]", M, "AbstractEpochSampler.__len__", len_thunk, pre=WF + [E == N - N % W],
                  posts=[("drop_gives_every_rank_N_div_W", len_drop_post)], inputs={"E": E, "W": W, "rank": R, "N": N},
                  replay=lambda m: replay_wf(m)))

    # ---- get_samples_for_epoch: rank-strided slice of the epoch order ---------------------------------
    for cls in ["EpochRandomSampler", "EpochSequentialSampler"]:
        def gs_thunk(I, cls=cls):
            ref = wf_fields()
            if cls == "EpochSequentialSampler":
                ref.pop("base_seed")
            obj = sampler(I, cls, dict(ref))
            I.ex.ghost["self"], I.ex.ghost["ref"] = obj, ref
            e = z3.Int("e_arg")
            m = I.getattr(obj, "get_samples_for_epoch")
            return I.call(m, [e], {})

        def order(cls):
            e = z3.Int("e_arg")
            return Abs("perm", SEED, e, N) if cls == "EpochRandomSampler" else Abs("range", N)

        def gs_post(p, cls=cls):
            if not api.returns(p) or not isinstance(p.value, Abs):
                return False
            want = Abs("islice", order(cls), R, E, W)
            return z3.And(p.value.same(want), fields_same(p.ghost["self"], p.ghost["ref"]))  # pure: reads (seed, e, rank, W, E) only, writes nothing

        out.append(VC("C13.order.pure", "%s.get_samples_for_epoch" % cls, M, "AbstractEpochSampler.get_samples_for_epoch", gs_thunk, pre=WF,
                      posts=[("order_is_fn_of_seed_epoch_and_frame", gs_post)],
                      twins=[("wrong_stride", lambda p, cls=cls: p.value.same(Abs("islice", order(cls), R, E, W + 1)) if api.returns(p) and isinstance(p.value, Abs) else False)],
                      stubs=DIST_STUBS, inputs={"E": E, "W": W, "rank": R, "N": N, "epoch": z3.Int("e_arg"), "seed": SEED},
                      replay=lambda m: replay_wf(m)))

        # ---- __iter__: yields the order for self.epoch, then epoch += 1, nothing else changes ----------
        def it_thunk(I, cls=cls):
            ref = wf_fields()
            if cls == "EpochSequentialSampler":
                ref.pop("base_seed")
            obj = sampler(I, cls, dict(ref))
            I.ex.ghost["self"], I.ex.ghost["ref"] = obj, ref
            return I.call(I.getattr(obj, "__iter__"), [], {})

        def it_post(p, cls=cls):
            if not api.returns(p) or not isinstance(p.value, Abs):
                return False
            o = Abs("perm", SEED, EPOCH, N) if cls == "EpochRandomSampler" else Abs("range", N)
            s = p.ghost["self"]
            return z3.And(p.value.same(Abs("islice", o, R, E, W)), s.fields["epoch"] == EPOCH + 1, fields_same(s, p.ghost["ref"], skip=("epoch",)))

        out.append(VC("C13.order.pure", "%s.__iter__" % cls, M, "AbstractEpochSampler.__iter__", it_thunk, pre=WF,
                      posts=[("iter_yields_order_of_current_epoch_then_increments", it_post)],
                      twins=[("epoch_not_incremented", lambda p: p.ghost["self"].fields["epoch"] == EPOCH)],
                      stubs=DIST_STUBS, inputs={"E": E, "W": W, "rank": R, "N": N, "epoch": EPOCH, "seed": SEED}, replay=lambda m: replay_wf(m)))

    # ---- lemmas over the contracts (no code involved; discharged every run) --------------------------------
    i, r, r2, k, e0 = z3.Ints("i r r2 k e0")
    member = lambda i_, r_: z3.And(i_ >= r_, (i_ - r_) % W == 0, i_ < E)  # islice(order, r, E, W) yields position i
    lem = [
        ("partition.exactly_one_rank", [W >= 1, 0 <= i, i < E, 0 <= r, r < W], member(i, r) == (r == i % W)),
        ("partition.disjoint", [W >= 1, 0 <= i, 0 <= r, r < W, 0 <= r2, r2 < W, member(i, r), member(i, r2)], r == r2),
        ("partition.nothing_beyond_E", [W >= 1, 0 <= r, r < W, member(i, r)], z3.And(0 <= i, i < E)),
        # history independence: __iter__'s contract gives epoch' = epoch + 1 and "order = f(seed, epoch)"; after k
        # iterations from init_epoch e0 the sampler is in the state a fresh sampler with init_epoch e0 + k starts in.
        ("history.induction_step", [k >= 0, EPOCH == e0 + k], EPOCH + 1 == e0 + (k + 1)),
        ("ignore.full_epoch", [W == 1, R == 0, E == N, 0 <= i, i < N], member(i, R)),
    ]
    out.append(VC("C13.slice.partition", "lemmas", M, "AbstractEpochSampler.get_samples_for_epoch", lambda I: None, pre=[],
                  posts=[], lemmas=[(n, h, g) for n, h, g in lem], inputs={"E": E, "W": W, "i": i, "r": r, "r2": r2}))
    return out


# ---------------------------------------------------------------------------------------------------
# engine B: the same contracts at run time on the real classes (bounded cross-check + replay oracle)


def _with_dist(rank, world, fn):
    import torch.distributed as d
    import torch.distributed.distributed_c10d as c

    saved = (d.is_available, d.is_initialized, d.get_rank, d.get_world_size)
    try:
        d.is_available = lambda: True
        d.is_initialized = lambda: world is not None
        d.get_rank = lambda *a, **k: rank
        d.get_world_size = lambda *a, **k: world
        return fn()
    finally:
        d.is_available, d.is_initialized, d.get_rank, d.get_world_size = saved


def check_sampler_case(case):
    """case: {cls, N, W (None = no process group), mode, seed, epochs}"""
    import pydrobert.torch._dataloaders as dl

    n, w, mode, seed, cls = case["N"], case["W"], case["mode"], case.get("seed", 3), case["cls"]
    ds = list(range(n))
    Wn = w or 1

    def mk(rank, init_epoch=0):
        kw = dict(init_epoch=init_epoch, on_uneven_distributed=mode)
        if cls == "EpochRandomSampler":
            kw["base_seed"] = seed
        return _with_dist(rank, w, lambda: getattr(dl, cls)(ds, **kw))

    if w is not None and mode == "raise" and n % w:
        for rank in range(Wn):
            try:
                mk(rank)
            except ValueError:
                continue
            return "indivisible size did not raise under the strict setting (rank %d)" % rank
        return None
    for ep in range(case.get("epochs", 2)):
        per_rank = []
        for rank in range(Wn):
            s = mk(rank)
            for _ in range(ep):
                list(s)  # consume earlier epochs
            a = list(int(x) for x in s)
            b = list(int(x) for x in mk(rank, init_epoch=ep))
            if a != b:
                return "epoch %d order differs between iterating from 0 and starting there: %s vs %s" % (ep, a, b)
            if len(s) != len(a):
                return "len()=%d but %d indices yielded (rank %d)" % (len(s), len(a), rank)
            per_rank.append(a)
        full = list(int(x) for x in _with_dist(0, None, lambda: mk.__call__(0))) if False else None
        if mode == "ignore" or w is None:
            for a in per_rank:
                if sorted(a) != ds:
                    return "ignore/no group: rank does not get the full epoch"
            continue
        flat = list(itertools.chain(*per_rank))
        if len(set(flat)) != len(flat):
            return "ranks overlap: %s" % per_rank
        eff = n - n % Wn if mode == "drop" else n
        if len(flat) != eff:
            return "ranks cover %d indices, expected %d" % (len(flat), eff)
        if mode != "drop" and sorted(flat) != ds:
            return "union of ranks is not the data set"
        if mode == "drop" and len(set(len(a) for a in per_rank)) != 1:
            return "drop: ranks get unequal counts %s" % [len(a) for a in per_rank]
    return None


def replay_init(m, mode, cls):
    dist = bool(m.get("avail")) and bool(m.get("initd")) and m.get("rank", 0) >= 0
    case = {"cls": cls, "N": max(int(m["N"]), 0), "W": int(m["W"]) if dist else None, "mode": mode, "seed": int(m.get("seed", 3)) % (2 ** 31)}
    if case["N"] > 5000 or (case["W"] or 1) > 64:
        return None
    return check_sampler_case(case)


def replay_wf(m):
    w = max(int(m.get("W", 1)), 1)
    n = max(int(m.get("N", m.get("E", 0))), 0)
    if n > 5000 or w > 64:
        return None
    for mode in ("uneven", "drop"):
        for cls in ("EpochRandomSampler", "EpochSequentialSampler"):
            r = check_sampler_case({"cls": cls, "N": n, "W": w, "mode": mode, "seed": int(m.get("seed", 3)) % (2 ** 31)})
            if r:
                return "%s/%s N=%d W=%d: %s" % (cls, mode, n, w, r)
    return None


CHECKERS = {"C13.rt.cross": check_sampler_case}


def cases(ctx):
    nmax, wmax = (24, 6) if ctx.quick else (40, 8)
    for cls in ("EpochRandomSampler", "EpochSequentialSampler"):
        for n in range(nmax + 1):
            for w in [None] + list(range(1, wmax + 1)):
                for mode in MODES:
                    yield {"cls": cls, "N": n, "W": w, "mode": mode, "seed": 3 + ctx.seed, "epochs": 2}


def extern_crosscheck(ctx):
    """differential check of the assumed external contracts (islice, RandomState.permutation)"""
    import numpy as np

    rng = np.random.RandomState(ctx.seed)
    bad = 0
    for _ in range(300):
        n, a, s = int(rng.randint(0, 30)), int(rng.randint(0, 8)), int(rng.randint(1, 8))
        b = int(rng.randint(0, n + 3))
        got = list(itertools.islice(iter(range(n)), a, b, s))
        want = [i for i in range(n) if i >= a and (i - a) % s == 0 and i < b]
        bad += got != want
        sd, ep = int(rng.randint(0, 2 ** 31 - 1)), int(rng.randint(0, 1000))
        p1 = np.random.RandomState((sd, ep)).permutation(n)
        p2 = np.random.RandomState((sd, ep)).permutation(n)
        bad += (list(p1) != list(p2)) or sorted(p1) != list(range(n))
    return bad


def run(ctx):
    ctx.explanation = ("C13 is decided deductively: every clause is a postcondition/lemma over contracts on the real sampler methods, "
                       "symbolic in N, world size, rank, seed and epoch.")
    api.run_vcs(ctx, vcs(), {
        "C13.init.modes": "__init__ per mode: raises iff strict and indivisible; drop/uneven/ignore state; representation invariant",
        "C13.len.count": "__len__ = number of rank-strided positions below effective_total; drop => N // W for every rank",
        "C13.order.pure": "epoch order is a function of (seed, epoch); get_samples/iter frame conditions; epoch increments by one",
        "C13.slice.partition": "islice(rank, E, W) slices partition [0, E): exactly one rank per position, nothing beyond E",
    })
    bad = extern_crosscheck(ctx)
    from vf.core import Clause

    ctx.add_clause(Clause(name="C13.guard.externals", kind="guard", status="ok" if bad == 0 else "error", evaluations=600,
                          detail="assumed contracts of itertools.islice and RandomState((s,e)).permutation differentially tested: %d disagreements" % bad))
    if bad:
        ctx.errors.append("extern contracts disagree with the real externals")
    ctx.trust("torch.distributed.get_rank/get_world_size return the group's (rank, W), 0 <= rank < W", "itertools.islice contract",
              "numpy RandomState((s,e)).permutation(n) is a deterministic permutation of range(n)")
    ctx.bounded("C13.rt.cross", check_sampler_case, cases(ctx), bound="all N<=%d, W in {none,1..%d}, 4 modes, both samplers, epochs 0..1" % ((24, 6) if ctx.quick else (40, 8)),
                text="run-time cross-check of the proved contracts on the real classes (replay oracle)",
                nontrivial=lambda c: c["W"] not in (None, 1) and c["N"] % c["W"] != 0, crosscheck=True)
