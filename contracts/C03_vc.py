"""C03, engine A part (S rung): the row-minima mask produced by `_string_matching(return_mask=True)`,
which is what `optimal_completion` turns into target sets, equals the spec
  mask[j, r, n]  <=>  r < ref_len  and  prefix j exists  and  D(n, r, j) = min_{r' <= ref_len} D(n, r', j).
(The sort / de-duplication / scatter of optimal_completion has data-dependent shapes and is decided by the
bounded driver against the brute-force completion oracle.)"""
import z3

from contracts import strspec as sp
from contracts.C01_vc import DEL, EOS, INS, SUB, col, model_inputs
from vf.pyvc import api, ctensor as ct, interp as ip
from vf.pyvc.api import VC

M = "pydrobert.torch._string"


def mask_vc(R, H, N, eos_set, include_eos, batch_first, excl):
    import pydrobert.torch._string as S

    name = "R%dH%dN%d[eos=%s,inc=%s,bf=%s,excl=%s]" % (R, H, N, eos_set, include_eos, batch_first, excl)
    eos = EOS if eos_set else None

    def thunk(I):
        ref = ct.CT.symbolic("ref", (R, N), "long")
        hyp = ct.CT.symbolic("hyp", (H, N), "long")
        I.ex.ghost.update(ref=ref, hyp=hyp)
        a, b = (ct.CT(ref.a.T.copy(), "long"), ct.CT(hyp.a.T.copy(), "long")) if batch_first else (ref, hyp)
        return I.call(S._string_matching, [a, b, eos, include_eos, batch_first, INS, DEL, SUB, False], dict(return_mask=True, exclude_last=excl))

    def post(p):
        if not api.returns(p) or not isinstance(p.value, ct.CT):
            return False
        out, ref, hyp = p.value, p.ghost["ref"], p.ghost["hyp"]
        J = H + (0 if excl else 1)
        if out.shape != (J, R, N):
            return False
        goals = []
        for n in range(N):
            rc, hc = col(ref, n), col(hyp, n)
            rl, hl = sp.first_eos_len(rc, eos, include_eos), sp.first_eos_len(hc, eos, include_eos)
            D = sp.lev_table(rc, hc, INS, DEL, SUB)
            for j in range(J):
                exists = z3.BoolVal(True) if j == 0 else ((j < hl) if excl else (j <= hl))
                for r in range(R):
                    is_min = z3.And([z3.Implies(rp <= rl, D[r][j] <= D[rp][j]) for rp in range(R + 1)])
                    want = z3.And(r < rl, exists, is_min)
                    got = out.a[j, r, n]
                    goals.append((got if ct.is_z3(got) else z3.BoolVal(bool(got))) == want)
        return goals if goals else z3.BoolVal(True)

    return VC("C03.S.mask_row_minima", name, M, "_string_matching", thunk, pre=[INS > 0, DEL > 0, SUB > 0],
              posts=[("mask_iff_row_minimum_within_reference_length", post)], inputs=model_inputs(R, H, N),
              assumptions=["float arithmetic treated as real arithmetic; +inf tracked exactly through guarded terms", "R >= 1 (a zero-size reference dimension is outside this rung)",
                           "the empty hypothesis combined with exclude_last is outside C03's statement"])


def configs(quick):
    top = 3 if quick else 4
    for R in range(1, top):
        for H in range(0, top):
            for eos_set, include_eos in ((False, False), (True, False), (True, True)):
                for batch_first in (False, True):
                    for excl in (False, True):
                        if excl and H == 0:
                            continue
                        if quick and batch_first and (R + H) % 2 == 0:
                            continue
                        yield (R, H, 2 if R + H <= 2 else 1, eos_set, include_eos, batch_first, excl)


def vcs(ctx):
    return [mask_vc(*c) for c in configs(ctx.quick)]


# ---- P rung: the target lists optimal_completion builds from the mask, for SYMBOLIC shapes --------------------------------------------
def targets_p_vc(batch_first):
    """C03.P.targets_list. optimal_completion with `_string_matching(return_mask=True)` under CONTRACT (it returns some Boolean tensor
    mask[h, r, n] - what that mask means is C03.P.mask_row_minima): for SYMBOLIC numbers of prefixes H, reference positions R >= 1 and
    batch elements N, the list of prefix h and element n
      - holds, at its first count(h, n) slots, exactly the tokens ref[n, r'] with mask[h, r', n] (every such token is listed; every
        listed token is such a token), each ONCE and in ascending order, and
      - holds the padding value in every later slot.
    Assumed contracts (vf/pyvc/symtensor.py): sort = a permutation (with inverse) that makes the values non-decreasing; any = exists with a
    witness function; sum = partial sums; max over all elements = an attained upper bound; masked_select / masked_scatter_ = row-major
    compaction through per-dimension counters. Ghost: last(n, r) = the last sorted position holding the token of sorted position r
    (defined by recursion towards the end of the row); lemmas by induction: last stays in range on an equal token and ends a run; the
    innermost counters equal the partial sums of the code's own count (source) resp. clamp(c, 0, count) (destination); the counters
    of the two outer levels agree for source and destination. Each induction is a pair of base / step obligations."""
    import pydrobert.torch._string as S
    from vf.pyvc import symtensor as stn

    z = ip.to_z3
    H, R, N, H0, N0, R0, R2, RP, C0, H1, N1, R1, C1 = z3.Ints("H R N h0 n0 r0 r2 rp c0 h1 n1 r1 c1")
    PAD = z3.Int("padding")
    Iz, Bz = z3.IntSort(), z3.BoolSort()
    REF, MASK, LAST = z3.Function("ref", Iz, Iz, Iz), z3.Function("mask", Iz, Iz, Iz, Bz), z3.Function("last_of_run", Iz, Iz, Iz)
    a_, b_, c_ = z3.Ints("a_q b_q c_q")
    clamp = lambda v, lo, hi: z3.If(v < lo, lo, z3.If(v > hi, hi, v))
    name = "optimal_completion[batch_first=%s; symbolic H, R, N; mask under contract]" % batch_first

    def thunk(I):
        I.stubs.update(stn.stubs())
        ref = stn.ST((N, R) if batch_first else (R, N), (lambda n, r: REF(z(n), z(r))) if batch_first else (lambda r, n: REF(z(n), z(r))), "long")
        hyp = stn.ST((N, H) if batch_first else (H, N), lambda a, b: z3.IntVal(0), "long")
        the_mask = stn.ST((H, R, N), lambda h, r, n: MASK(z(h), z(r), z(n)), "bool")

        def sm_contract(I2, a, kw):
            I2.ex.oblige("structure.string_matching.called_for_the_mask_of_these_sequences", z3.BoolVal(a[0] is ref and a[1] is hyp and kw.get("return_mask") is True and a[4] == batch_first))
            return the_mask

        I.contracts["pydrobert.torch._string._string_matching"] = sm_contract

        def hook(rec2, src):
            g = I.ex.ghost
            rec1 = getattr(src, "compaction", None)
            sums = [s_ for s_ in g.get("sums", []) if s_.get("kind") == "sum"]
            if rec1 is None or rec1["rank_"] != 3 or rec2["rank_"] != 3 or len(sums) != 1 or len(g.get("anys", [])) != 1 or len(g.get("sorts", [])) != 1 or len(g.get("maxes", [])) != 1 or "cnt" in g:
                raise ip.Unsupported("optimal_completion: one duplicate test (any), one sort, one count, one maximum and one scatter of the selected tokens expected")
            an, so, sm, mx = g["anys"][0], g["sorts"][0], sums[0], g["maxes"][0]
            PS, SRC, INV, VAL, ANY, W = sm["S"], so["SRC"], so["INV"], so["val"], an["B"], an["W"]
            C = mx["max"]
            M3 = lambda h, n, r: ANY(h, n, SRC(n, r))
            KEPT = lambda h, n, r: z3.And(M3(h, n, r), z3.Or(r == R - 1, VAL(n, r) != VAL(n, r + 1)))
            g.update(cnt=PS, VAL=VAL, KEPT=KEPT, C=C, W=W, SRC=SRC, INV=INV)
            rows = lambda h, n: z3.And(0 <= h, h < H, 0 <= n, n < N)
            # --- what the code's pieces are
            I.ex.oblige("structure.extents", z3.And(sm["T"] == R, an["n"] == R, rec1["dims"][0] == H, rec1["dims"][1] == N, rec1["dims"][2] == R, rec2["dims"][0] == H, rec2["dims"][1] == N, rec2["dims"][2] == C))
            I.ex.oblige("sorted_values_are_the_reference_tokens", z3.Implies(z3.And(0 <= N1, N1 < N, 0 <= R1, R1 < R), VAL(N1, R1) == REF(N1, SRC(N1, R1))))
            el_ok = lambda h, n, r, rp: z3.Implies(z3.And(rows(h, n), 0 <= r, r < R, 0 <= rp, rp < R), an["el"]([h, n, r], rp) == z3.And(MASK(h, rp, n), REF(n, rp) == REF(n, r)))
            I.ex.oblige("duplicate_test_is_flagged_and_same_token", el_ok(H1, N1, R1, C1))
            I.ex.assume(z3.ForAll([a_, b_, c_, z3.Int("d_q")], el_ok(a_, b_, c_, z3.Int("d_q"))))
            for y in (so["fwd"](N1, R1), so["fwd"](N1, R1 + 1), so["fwd"](N0, R0), so["fwd"](N0, R0 + 1), so["fwd"](N0, R2), so["bwd"](N0, RP)):
                I.ex.instance(y)
            m1 = lambda h, n, r: z3.Implies(z3.And(rows(h, n), 0 <= r, r < R), rec1["mask"]([h, n, r]) == KEPT(h, n, r))
            m2 = lambda h, n, c: z3.Implies(z3.And(rows(h, n), 0 <= c, c < C), rec2["mask"]([h, n, c]) == (c < PS(h, n, R)))
            cv = lambda h, n, r: z3.Implies(z3.And(rows(h, n), 0 <= r, r < R), sm["val"]([h, n], r) == z3.If(KEPT(h, n, r), 1, 0))
            I.ex.oblige("compaction.source.mask_is_the_deduplicated_flag", m1(H1, N1, R1))
            I.ex.oblige("compaction.destination.mask_is_the_prefix_window", m2(H1, N1, C1))
            I.ex.oblige("compaction.counted_value_is_the_deduplicated_flag", cv(H1, N1, R1))
            for f_ in (m1, m2, cv):
                I.ex.assume(z3.ForAll([a_, b_, c_], f_(a_, b_, c_)))
            for y in (sm["base"](H1, N1), sm["step"](H1, N1, R1), cv(H1, N1, R1), sm["base"](H0, N0), sm["step"](H0, N0, R0), cv(H0, N0, R0), sm["step"](H0, N0, R1), cv(H0, N0, R1), mx["ub"](H1, N1), mx["ub"](H0, N0)):
                I.ex.instance(y)
            # --- the count: range, growth after a kept position
            rng = lambda h, n, r: z3.Implies(z3.And(rows(h, n), 0 <= r, r <= R), z3.And(0 <= PS(h, n, r), PS(h, n, r) <= r))
            I.ex.oblige("count.range.base", rng(H1, N1, z3.IntVal(0)))
            I.ex.oblige("count.range.step", z3.Implies(z3.And(0 <= R1, R1 < R, rng(H1, N1, R1)), rng(H1, N1, R1 + 1)))
            I.ex.assume(z3.ForAll([a_, b_, c_], rng(a_, b_, c_)))
            later = lambda r: z3.Implies(z3.And(rows(H0, N0), 0 <= R0, R0 < r, r <= R, KEPT(H0, N0, R0)), PS(H0, N0, r) >= PS(H0, N0, R0) + 1)
            I.ex.oblige("count.grows_after_a_kept_position.base", later(R0 + 1))
            I.ex.oblige("count.grows_after_a_kept_position.step", z3.Implies(z3.And(R0 < R1, R1 < R, later(R1)), later(R1 + 1)))
            I.ex.assume(z3.ForAll([c_], later(c_)))
            for y in (later(R), rng(H0, N0, R0), rng(H0, N0, R), rng(H1, N1, R), rng(H1, N1, R1)):
                I.ex.instance(y)
            # --- counters: innermost level against the partial sums / the prefix window, then the two outer levels
            c1, c2 = rec1["CNT"], rec2["CNT"]
            in1 = lambda h, n, r: z3.Implies(z3.And(rows(h, n), 0 <= r, r <= R), c1[2](h, n, r) == PS(h, n, r))
            in2 = lambda h, n, c: z3.Implies(z3.And(rows(h, n), 0 <= c, c <= C), c2[2](h, n, c) == clamp(c, 0, PS(h, n, R)))
            for tag, rec, lem, mm, ext in (("source", rec1, in1, m1, R), ("destination", rec2, in2, m2, C)):
                for y in (rec["base"](2, [H1, N1]), rec["step"](2, [H1, N1], R1), mm(H1, N1, R1)):
                    I.ex.instance(y)
                I.ex.oblige("compaction.%s.positions.base" % tag, lem(H1, N1, z3.IntVal(0)))
                I.ex.oblige("compaction.%s.positions.step" % tag, z3.Implies(z3.And(0 <= R1, R1 < ext, lem(H1, N1, R1)), lem(H1, N1, R1 + 1)))
                I.ex.assume(z3.ForAll([a_, b_, c_], lem(a_, b_, c_)))
            mid = lambda h, n: z3.Implies(z3.And(0 <= h, h < H, 0 <= n, n <= N), c1[1](h, n) == c2[1](h, n))
            for y in (rec1["base"](1, [H1]), rec2["base"](1, [H1]), rec1["step"](1, [H1], N1), rec2["step"](1, [H1], N1), in1(H1, N1, R), in2(H1, N1, C)):
                I.ex.instance(y)
            I.ex.oblige("compaction.elements.base", mid(H1, z3.IntVal(0)))
            I.ex.oblige("compaction.elements.step", z3.Implies(z3.And(0 <= N1, N1 < N, mid(H1, N1)), mid(H1, N1 + 1)))
            I.ex.assume(z3.ForAll([a_, b_], mid(a_, b_)))
            top = lambda h: z3.Implies(z3.And(0 <= h, h <= H), c1[0](h) == c2[0](h))
            for y in (rec1["base"](0, []), rec2["base"](0, []), rec1["step"](0, [], H1), rec2["step"](0, [], H1), mid(H1, N)):
                I.ex.instance(y)
            I.ex.oblige("compaction.prefixes.base", top(z3.IntVal(0)))
            I.ex.oblige("compaction.prefixes.step", z3.Implies(z3.And(0 <= H1, H1 < H, top(H1)), top(H1 + 1)))
            I.ex.assume(z3.ForAll([a_], top(a_)))
            # --- last position of a run of equal sorted tokens
            last_def = lambda n, r: LAST(n, r) == z3.If(z3.Or(r >= R - 1, VAL(n, r + 1) != VAL(n, r)), r, LAST(n, r + 1))
            I.ex.assume(z3.ForAll([a_, b_], last_def(a_, b_)))  # definition by recursion towards the end of the row
            ll = lambda n, r: z3.Implies(z3.And(0 <= n, n < N, 0 <= r, r < R), z3.And(r <= LAST(n, r), LAST(n, r) < R, VAL(n, LAST(n, r)) == VAL(n, r),
                                                                                    z3.Or(LAST(n, r) == R - 1, VAL(n, LAST(n, r) + 1) != VAL(n, LAST(n, r)))))
            for y in (last_def(N1, R1), last_def(N1, R - 1)):
                I.ex.instance(y)
            I.ex.oblige("last_of_run.base", ll(N1, R - 1))
            I.ex.oblige("last_of_run.step", z3.Implies(z3.And(0 <= R1, R1 < R - 1, ll(N1, R1 + 1)), ll(N1, R1)))
            I.ex.assume(z3.ForAll([a_, b_], ll(a_, b_)))
            # --- instances for the postcondition
            q = PS(H0, N0, R0)
            sp = INV(N0, RP)                # sorted position of the original position rp
            lp = LAST(N0, sp)               # the kept representative of its token
            for y in (top(H), top(H0), mid(H0, N0), in1(H0, N0, R0), in2(H0, N0, q), in2(H0, N0, C0), rec1["inj"]([H0, N0, R0]), m1(H0, N0, R0), m1(H0, N0, R2), m2(H0, N0, q), m2(H0, N0, C0),
                      so["sorted"](N0, R0 + 1, R2), ll(N0, sp), so["fwd"](N0, lp), so["bwd"](N0, RP), m1(H0, N0, lp),
                      an["intro"]([H0, N0, RP], RP), el_ok(H0, N0, RP, RP), an["witness"]([H0, N0, RP]), an["intro"]([H0, N0, SRC(N0, lp)], W(H0, N0, RP)), el_ok(H0, N0, RP, W(H0, N0, RP)), el_ok(H0, N0, SRC(N0, lp), W(H0, N0, RP)),
                      an["witness"]([H0, N0, SRC(N0, R0)]), el_ok(H0, N0, SRC(N0, R0), W(H0, N0, SRC(N0, R0)))):
                I.ex.instance(y)
            g["last_pos"] = lp

        I.ex.ghost["scatter_hooks"] = [hook]
        return I.call(S.optimal_completion, [ref, hyp], {"batch_first": batch_first, "padding": PAD, "warn": False})

    def post(p):
        if not api.returns(p) or not hasattr(p.value, "elem") or "cnt" not in p.ghost:
            return False
        g = p.ghost
        out, PS, VAL, KEPT, C, W, SRC, lp = p.value, g["cnt"], g["VAL"], g["KEPT"], g["C"], g["W"], g["SRC"], g["last_pos"]
        oe = (lambda h, n, c: z(out.elem(n, h, c))) if batch_first else (lambda h, n, c: z(out.elem(h, n, c)))
        at = z3.And(0 <= H0, H0 < H, 0 <= N0, N0 < N)
        wr = W(H0, N0, SRC(N0, R0))
        shp = (N, H, C) if batch_first else (H, N, C)
        return [("result_shape", z3.And(z3.BoolVal(len(out.shape) == 3), z3.And([z(a) == b for a, b in zip(out.shape, shp)]))),
                ("kept_position_puts_its_token_at_its_count", z3.Implies(z3.And(at, 0 <= R0, R0 < R, KEPT(H0, N0, R0)), z3.And(PS(H0, N0, R0) < PS(H0, N0, R), PS(H0, N0, R) <= C, oe(H0, N0, PS(H0, N0, R0)) == VAL(N0, R0)))),
                ("padding_from_the_count_on", z3.Implies(z3.And(at, PS(H0, N0, R) <= C0, C0 < C), oe(H0, N0, C0) == PAD)),
                ("every_flagged_token_is_listed", z3.Implies(z3.And(at, 0 <= RP, RP < R, MASK(H0, RP, N0)), z3.And(0 <= lp, lp < R, KEPT(H0, N0, lp), VAL(N0, lp) == REF(N0, RP)))),
                ("every_listed_token_is_flagged", z3.Implies(z3.And(at, 0 <= R0, R0 < R, KEPT(H0, N0, R0)), z3.And(0 <= wr, wr < R, MASK(H0, wr, N0), REF(N0, wr) == VAL(N0, R0)))),
                ("listed_once_each_in_ascending_order", z3.Implies(z3.And(at, 0 <= R0, R0 < R2, R2 < R, KEPT(H0, N0, R0), KEPT(H0, N0, R2)), VAL(N0, R0) < VAL(N0, R2)))]

    pre = [H >= 1, R >= 1, N >= 1]
    return VC("C03.P.targets_list", name, M, "optimal_completion", thunk, pre=pre, posts=[("deduplicated_flagged_tokens_then_padding", post)], inputs={"H": H, "R": R, "N": N}, timeout_ms=40000, max_paths=64,
              witness_hints=[H == 1, R == 2, N == 1],
              assumptions=["callee contract: _string_matching(return_mask=True) returns some Boolean mask[h, r, n] (its meaning: C03.P.mask_row_minima)",
                           "sort = a permutation with inverse that makes the values non-decreasing; any = exists with a witness function; sum = partial sums; max = attained upper bound; masked_select / masked_scatter_ = row-major compaction through counters (assumed contracts of vf/pyvc/symtensor.py, differentially tested against torch)",
                           "last_of_run defined by recursion towards the end of the row (conservative); the inductions (count range / growth, counters of the three levels, last_of_run) are applied outside the solver: base and step are obligations",
                           "R >= 1 (the slices [..., :-1] of an empty reference are outside the index-function model): the empty reference is the S rung's and the bounded driver's"])


def targets_p_vcs(ctx):
    return [targets_p_vc(False), targets_p_vc(True)]


# ---- P rung: the row-minima mask of _string_matching(return_mask=True) for SYMBOLIC shapes (R, H, N) ----------------------------------
def p_vcs(ctx=None):
    """C03.P.mask_row_minima. Same dynamic programme as C01.P.dp (contracts/C01_vc.py) in mask mode: after each hypothesis position the
    row is cut off beyond the reference length (+inf), its minimum taken, and `row == minimum` recorded.
    Spec: D = Wagner-Fischer table (definition); Dmin(n, j) = minimum of D(n, r', j) over r' <= ref_len (characterised by: a lower
    bound of every such entry, attained at Dargmin(n, j) <= ref_len - definitional for a finite non-empty set).
        mask[j, r, n]  <=>  r < ref_len  and  prefix j exists  and  D(n, r, j) = Dmin(n, j).
    Invariants of the hypothesis loop (skolem batch element n0), k = number of completed iterations:
        FORALL r <= ref_len.  row[r, n0] is finite and = D(n0, r, min(k, cap))
        FORALL j <= k, r < ref_len.  masks[j][r, n0]  <=>  prefix j exists and D(n0, r, j) = Dmin(n0, j)
    Row preservation by induction over r (as in C01.P.dp); the list of masks is abstracted to a function of (j, r, n).
    Assumed: callee contract of _lens_from_eos, min(dim) contracts, lin_c abstraction, the induction principle."""
    from vf.pyvc import interp as ip
    from vf.pyvc import symtensor as stn
    from vf.pyvc.ctensor import Guarded
    from vf.pyvc.interp import LoopSpec, PathAbort

    R, H, N, N0, R0, RM0, J0 = z3.Ints("R H N n0 r0 rm0 j0")
    HL0, RL0 = z3.Ints("hyp_len_n0 ref_len_n0")
    REF = z3.Function("ref", z3.IntSort(), z3.IntSort(), z3.IntSort())
    HYP = z3.Function("hyp", z3.IntSort(), z3.IntSort(), z3.IntSort())
    LR = z3.Function("ref_len", z3.IntSort(), z3.IntSort())
    LH = z3.Function("hyp_len", z3.IntSort(), z3.IntSort())
    D = z3.Function("D", z3.IntSort(), z3.IntSort(), z3.IntSort(), z3.RealSort())
    DMIN = z3.Function("Dmin", z3.IntSort(), z3.RealSort())      # for the skolem batch element: j -> min over r' <= ref_len
    DARG = z3.Function("Dargmin", z3.IntSort(), z3.IntSort())
    n, r, j = z3.Ints("n r j")
    mn = lambda a, b: z3.If(a <= b, a, b)
    mx = lambda a, b: z3.If(a >= b, a, b)
    neq = lambda rr, jj, nn: z3.If(REF(rr, nn) != HYP(jj, nn), SUB, z3.RealVal(0))
    c00 = lambda nn: D(nn, 0, 0) == 0
    cr0 = lambda nn, rr: z3.Implies(rr >= 1, D(nn, rr, 0) == D(nn, rr - 1, 0) + DEL)
    c0j = lambda nn, jj: z3.Implies(jj >= 1, D(nn, 0, jj) == D(nn, 0, jj - 1) + INS)
    crj = lambda nn, rr, jj: z3.Implies(z3.And(rr >= 1, jj >= 1), D(nn, rr, jj) == mn(mn(D(nn, rr, jj - 1) + INS, D(nn, rr - 1, jj - 1) + neq(rr - 1, jj - 1, nn)), D(nn, rr - 1, jj) + DEL))
    SPEC = [z3.ForAll([n], c00(n)), z3.ForAll([n, r], cr0(n, r)), z3.ForAll([n, j], c0j(n, j)), z3.ForAll([n, r, j], crj(n, r, j))]
    SPEC_AT = lambda nn, rr, jj: z3.And(c00(nn), cr0(nn, rr), c0j(nn, jj), crj(nn, rr, jj))
    min_lb = lambda jj, rr: z3.Implies(z3.And(0 <= rr, rr <= RL0), DMIN(jj) <= D(N0, rr, jj))
    min_att = lambda jj: z3.And(0 <= DARG(jj), DARG(jj) <= RL0, DMIN(jj) == D(N0, DARG(jj), jj))
    MINSPEC = [z3.ForAll([j, r], min_lb(j, r)), z3.ForAll([j], min_att(j))]

    class AbsMaskList:
        """masks: one (R, N) mask per hypothesis prefix; element j at (r, n) is fn(j, r, n); `new` = the mask appended in the body"""

        def __init__(self, fn, count):
            self.fn, self.count, self.new = fn, count, None

        def __vc_getattr__(self, I, name):
            me = self
            if name != "append":
                raise ip.Unsupported("masks.%s" % name)

            class M_:
                def __vc_call__(s, I2, a, k):
                    me.new = a[0]

            return M_()

    def make_vc(eos_set, include_eos, batch_first, excl):
        name = "_string_matching[return_mask; symbolic R,H,N; eos=%s,include_eos=%s,batch_first=%s,exclude_last=%s]" % ("set" if eos_set else "unset", include_eos, batch_first, excl)
        RLs = (lambda nn: z3.If(LR(nn) == R, R, LR(nn) + 1)) if include_eos else (lambda nn: LR(nn))
        HLs = (lambda nn: z3.If(LH(nn) == H, H, LH(nn) + 1)) if include_eos else (lambda nn: LH(nn))
        CAP = mx(HL0 - 1, 0) if excl else HL0
        LAST = mx(H - 1, 0) if excl else H
        exists = lambda jj: z3.Or(jj == 0, (jj < HL0) if excl else (jj <= HL0))
        MASKF = z3.Function("mask_of_prefix", z3.IntSort(), z3.IntSort(), z3.IntSort(), z3.BoolSort())

        def thunk(I):
            import pydrobert.torch._string as S

            I.stubs.update(stn.stubs())
            I.stubs["torch.zeros"] = lambda I2, size, dtype=None, device=None, **k: stn.ST.const(tuple(size), False if ct.dtype_tag(dtype, "float") == "bool" else 0, ct.dtype_tag(dtype, "float"))

            def stack(I2, ts, dim=0):
                if not isinstance(ts, AbsMaskList) or dim != 0:
                    raise ip.Unsupported("torch.stack other than of the list of masks")
                return stn.ST((ts.count, R, N), lambda a, b, c: ts.fn(ip.to_z3(a), ip.to_z3(b), ip.to_z3(c)), "bool")

            I.stubs["torch.stack"] = stack
            if batch_first:
                ref = stn.ST((N, R), lambda b, a: REF(ip.to_z3(a), ip.to_z3(b)), "long")
                hyp = stn.ST((N, H), lambda b, a: HYP(ip.to_z3(a), ip.to_z3(b)), "long")
            else:
                ref = stn.ST((R, N), lambda a, b: REF(ip.to_z3(a), ip.to_z3(b)), "long")
                hyp = stn.ST((H, N), lambda a, b: HYP(ip.to_z3(a), ip.to_z3(b)), "long")
            calls = []

            def lens_contract(I2, a, k):
                tok = a[0]
                calls.append(tok)
                L = LR if len(calls) == 1 else LH
                I2.ex.oblige("lens.called_on_time_major_tensor_dim0", z3.And(z3.BoolVal(a[2] == 0), ip.to_z3(tok.shape[0]) == (R if len(calls) == 1 else H), ip.to_z3(tok.elem(R0, N0)) == (REF if len(calls) == 1 else HYP)(R0, N0)))
                bound = lambda nn: z3.Implies(z3.And(0 <= nn, nn < N), z3.And(0 <= L(nn), L(nn) <= ip.to_z3(tok.shape[0])))
                I2.ex.assume(z3.ForAll([n], bound(n)))
                I2.ex.instance(bound(N0))
                return stn.ST((N,), lambda a_: L(ip.to_z3(a_)), "long")

            I.contracts["pydrobert.torch._string._lens_from_eos"] = lens_contract
            I.ex.ghost["any_points"] = {1: [(N0,)], 2: [(0, N0)]}
            if not eos_set:
                I.ex.assume(z3.ForAll([n], z3.And(LR(n) == R, LH(n) == H)))
                I.ex.instance(z3.And(LR(N0) == R, LH(N0) == H))
            return I.call(S._string_matching, [ref, hyp, EOS if eos_set else None, include_eos, batch_first, INS, DEL, SUB, False], dict(return_mask=True, exclude_last=excl))

        def cell(row, rr):
            return Guarded.split(row.elem(rr, N0))

        def at(row, rr, jj):  # finite and equal to the table
            p, v = cell(row, rr)
            fin = z3.Not(p) if ip.is_z3(p) else z3.BoolVal(not p)
            return z3.And(fin, ip.to_z3(v) == D(N0, rr, jj))

        row_at = lambda row, rr, jj: z3.Implies(z3.And(0 <= rr, rr <= RL0), at(row, rr, jj))
        B = lambda x: x if ip.is_z3(x) else z3.BoolVal(bool(x))
        mask_ok = lambda m, jj, rr: z3.Implies(z3.And(0 <= rr, rr < RL0), B(m) == z3.And(exists(jj), D(N0, rr, jj) == DMIN(jj)))
        list_at = lambda k, jj, rr: z3.Implies(z3.And(0 <= jj, jj <= k), mask_ok(MASKF(jj, rr, N0), jj, rr))

        class DPLoop(LoopSpec):
            def run(self, I, s, f):
                row0 = ip.local(f, "row")
                same = z3.And(ip.to_z3(ip.local(f, "hyp_lens").elem(N0)) == HL0, ip.to_z3(ip.local(f, "ref_lens").elem(N0)) == RL0)
                I.ex.oblige("dp.lengths_are_spec_lengths", same)
                I.ex.assume(same)
                # row initialisation, by induction over r
                g_base = at(row0, z3.IntVal(0), z3.IntVal(0))
                g_step = z3.Implies(z3.And(1 <= R0, R0 <= RL0, at(row0, R0 - 1, z3.IntVal(0))), at(row0, R0, z3.IntVal(0)))
                I.ex.instance(SPEC_AT(N0, R0, z3.IntVal(0)))
                for x in stn.lin_instances(I, R0 - 1):
                    I.ex.instance(x)
                I.ex.oblige("dp.init.base", g_base)
                I.ex.oblige("dp.init.step", g_step)
                I.ex.assume(z3.ForAll([r], row_at(row0, r, z3.IntVal(0))))
                # lemma: the first column is positive below the first row (induction over r), hence its minimum is D(0, 0) = 0
                pos = lambda rr: z3.Implies(rr >= 1, D(N0, rr, 0) > 0)
                I.ex.instance(SPEC_AT(N0, z3.IntVal(1), z3.IntVal(0)))
                I.ex.oblige("first_column.positive.base", pos(z3.IntVal(1)))
                I.ex.oblige("first_column.positive.step", z3.Implies(z3.And(R0 >= 1, pos(R0)), pos(R0 + 1)))
                I.ex.instance(SPEC_AT(N0, R0 + 1, z3.IntVal(0)))
                I.ex.assume(z3.ForAll([r], pos(r)))
                for x in (pos(RM0), pos(DARG(z3.IntVal(0))), min_lb(z3.IntVal(0), z3.IntVal(0)), min_att(z3.IntVal(0)), SPEC_AT(N0, RM0, z3.IntVal(0))):
                    I.ex.instance(x)
                masks0 = ip.local(f, "masks")
                I.ex.oblige("mask.init.one_mask", z3.BoolVal(isinstance(masks0, list) and len(masks0) == 1))
                I.ex.oblige("mask.init", z3.Implies(z3.And(0 <= RM0, RM0 < R), mask_ok(masks0[0].elem(RM0, N0), z3.IntVal(0), RM0)))
                # havoc: row (possibly +inf beyond the reference length from the second iteration on) and the list of masks
                ROWV = stn._fresh("row", z3.IntSort(), z3.IntSort(), z3.RealSort())
                ROWP = stn._fresh("row_is_inf", z3.IntSort(), z3.IntSort(), z3.BoolSort())
                f.locals["row"] = stn.ST((R + 1, N), lambda a, b: Guarded(ROWP(ip.to_z3(a), ip.to_z3(b)), ROWV(ip.to_z3(a), ip.to_z3(b))), "float")
                if I.ex.choose(2) == 0:
                    k = I.ex.fresh("int", "iter")
                    I.ex.assume(z3.And(0 <= k, k < LAST))
                    rowk = ip.local(f, "row")
                    I.ex.assume(z3.ForAll([r], row_at(rowk, r, mn(k, CAP))))
                    for rr in (R0, R0 - 1, z3.IntVal(0)):
                        I.ex.instance(row_at(rowk, rr, mn(k, CAP)))
                    lst = AbsMaskList(MASKF, k + 1)
                    f.locals["masks"] = lst
                    it = I.eval(s.iter, f)
                    I.ex.oblige("dp.loop.range", z3.And(ip.to_z3(it.lo) == 1, mx(ip.to_z3(it.hi) - 1, 0) == LAST, ip.to_z3(it.step) == 1))
                    I.assign(s.target, k + 1, f)
                    n_min = len(I.ex.ghost.get("mins", []))
                    I.exec_block(s.body, f)
                    row1 = ip.local(f, "row")
                    jn = mn(k + 1, CAP)
                    g_b = at(row1, z3.IntVal(0), jn)
                    g_i = z3.Implies(z3.And(1 <= R0, R0 <= RL0, at(row1, R0 - 1, jn)), at(row1, R0, jn))
                    g_m = None
                    if lst.new is not None:
                        g_m = z3.Implies(z3.And(0 <= RM0, RM0 < R), mask_ok(lst.new.elem(RM0, N0), k + 1, RM0))
                    I.ex.instance(SPEC_AT(N0, R0, jn))
                    new_mins = I.ex.ghost.get("mins", [])[n_min:]
                    for mm in new_mins:
                        if len(mm["t"].shape) != 3:
                            continue  # (the vectorised deletion step is the min over dim 1 of a rank-3 tensor)
                        w_ = lambda rr: mm["w"](rr, N0)
                        for o, kk in (([R0, N0], R0), ([R0, N0], w_(R0 - 1)), ([R0 - 1, N0], w_(R0)), ([R0 - 1, N0], R0 - 1), ([z3.IntVal(0), N0], z3.IntVal(0))):
                            I.ex.instance(mm["lb"](o, kk))
                        for o in ([R0, N0], [R0 - 1, N0], [z3.IntVal(0), N0]):
                            I.ex.instance(mm["att"](o))
                        for dist in (R0 - 1 - w_(R0), R0 - 1 - w_(R0 - 1)):
                            for x in stn.lin_instances(I, dist):
                                I.ex.instance(x)
                    I.ex.oblige("dp.step.base", g_b)
                    I.ex.oblige("dp.step.ind", g_i)
                    I.ex.assume(z3.ForAll([r], row_at(row1, r, jn)))  # conclusion of the induction over r
                    # the recorded mask: the code's column minimum is the spec's minimum
                    I.ex.oblige("mask.appended_once_per_iteration", z3.BoolVal(lst.new is not None))
                    if g_m is not None:
                        for mm in new_mins:
                            if len(mm["t"].shape) != 2:
                                continue  # the minimum over the reference index of the (R + 1, N) row
                            wc, o = mm["w"](N0), [N0]
                            for x in (mm["att"](o), mm["lb"](o, DARG(k + 1)), mm["lb"](o, RM0), row_at(row1, wc, jn), row_at(row1, DARG(k + 1), jn), row_at(row1, RM0, jn),
                                      min_lb(k + 1, wc), min_lb(k + 1, RM0), min_att(k + 1)):
                                I.ex.instance(x)
                        I.ex.oblige("mask.step", g_m)
                    raise PathAbort()
                I.ex.assume(z3.ForAll([r], row_at(ip.local(f, "row"), r, mn(LAST, CAP))))
                jj, rr = z3.Ints("j_l r_l")
                I.ex.assume(z3.ForAll([jj, rr], list_at(LAST, jj, rr)))
                I.ex.instance(list_at(LAST, J0, RM0))
                f.locals["masks"] = AbsMaskList(MASKF, LAST + 1)

        loop = DPLoop("dp.loop", None, None, None, {})

        def post(p):
            if not api.returns(p) or not hasattr(p.value, "elem"):
                return False
            shape = tuple(p.value.shape)
            got = p.value.elem(J0, RM0, N0)
            want = z3.And(RM0 < RL0, exists(J0), D(N0, RM0, J0) == DMIN(J0))
            return [("result_shape", z3.And(z3.BoolVal(len(shape) == 3), ip.to_z3(shape[0]) == LAST + 1, ip.to_z3(shape[1]) == R, ip.to_z3(shape[2]) == N)),
                    ("mask_iff_row_minimum_within_reference_length", (got if ip.is_z3(got) else z3.BoolVal(bool(got))) == want)]

        pre = [INS > 0, DEL > 0, SUB > 0, z3.Not(z3.And(INS == DEL, DEL == SUB)), R >= 1, H >= 0, N >= 1, 0 <= N0, N0 < N, 0 <= R0, HL0 == HLs(N0), RL0 == RLs(N0),
               0 <= J0, J0 <= LAST, 0 <= RM0, RM0 < R] + SPEC + MINSPEC
        return VC("C03.P.mask_row_minima", name, M, "_string_matching", thunk, pre=pre, posts=[("final", post)], loops={("_string_matching", 0): loop},
                  inputs={"R": R, "H": H, "N": N}, timeout_ms=20000,
                  assumptions=["Wagner-Fischer recurrence = minimum over edit scripts (definition of D); Dmin / Dargmin = minimum and a minimiser of a finite non-empty column (definitional)",
                               "min(dim) contract: lower bound of the finite entries, attained at a finite entry; any() contract; tensors as index functions (vf/pyvc/symtensor.py); +inf tracked through guarded terms",
                               "index * cost products abstracted to lin_c(i); float arithmetic treated as real arithmetic; the list of masks abstracted to a function of (prefix, reference position, batch element)",
                               "inductions over the reference index and over the loop applied outside the solver; callee contract of _lens_from_eos (C01.P.lens_first_eos)",
                               "unequal costs (with equal costs the code runs the same programme on unit costs - covered per shape by the S rung); R >= 1 (a zero-size reference dimension is outside this rung); the empty hypothesis combined with exclude_last is outside C03's statement"])

    return [make_vc(True, False, False, False), make_vc(False, False, False, False), make_vc(True, True, True, False), make_vc(True, False, False, True)]
