"""C03, engine A part (S rung): the row-minima mask produced by `_string_matching(return_mask=True)`,
which is what `optimal_completion` turns into target sets, equals the spec
  mask[j, r, n]  <=>  r < ref_len  and  prefix j exists  and  D(n, r, j) = min_{r' <= ref_len} D(n, r', j).
(The sort / de-duplication / scatter of optimal_completion has data-dependent shapes and is decided by the
bounded driver against the brute-force completion oracle.)"""
import z3

from contracts import strspec as sp
from contracts.C01_vc import DEL, EOS, INS, SUB, col, model_inputs
from vf.pyvc import api, ctensor as ct
from vf.pyvc.api import VC

M = "pydrobert.torch._string"


def mask_vc(R, H, N, eos_set, include_eos, batch_first, excl):
    import pydrobert.torch._string as S

    name = "R%dH%dN%d[eos=%s,inc=%s,bf=%s,excl=%s]" % (R, H, N, eos_set, include_eos, batch_first, excl)
    eos = EOS if eos_set else None

    def thunk(I):
        ref = ct.CT.symbolic("ref", (R, N), "long")
        hyp = ct.CT.symbolic("hyp", (H, N), "long")
        I.ex.ghost.update(ref=ref, hyp=hyp)
        a, b = (ct.CT(ref.a.T.copy(), "long"), ct.CT(hyp.a.T.copy(), "long")) if batch_first else (ref, hyp)
        return I.call(S._string_matching, [a, b, eos, include_eos, batch_first, INS, DEL, SUB, False], dict(return_mask=True, exclude_last=excl))

    def post(p):
        if not api.returns(p) or not isinstance(p.value, ct.CT):
            return False
        out, ref, hyp = p.value, p.ghost["ref"], p.ghost["hyp"]
        J = H + (0 if excl else 1)
        if out.shape != (J, R, N):
            return False
        goals = []
        for n in range(N):
            rc, hc = col(ref, n), col(hyp, n)
            rl, hl = sp.first_eos_len(rc, eos, include_eos), sp.first_eos_len(hc, eos, include_eos)
            D = sp.lev_table(rc, hc, INS, DEL, SUB)
            for j in range(J):
                exists = z3.BoolVal(True) if j == 0 else ((j < hl) if excl else (j <= hl))
                for r in range(R):
                    is_min = z3.And([z3.Implies(rp <= rl, D[r][j] <= D[rp][j]) for rp in range(R + 1)])
                    want = z3.And(r < rl, exists, is_min)
                    got = out.a[j, r, n]
                    goals.append((got if ct.is_z3(got) else z3.BoolVal(bool(got))) == want)
        return goals if goals else z3.BoolVal(True)

    return VC("C03.S.mask_row_minima", name, M, "_string_matching", thunk, pre=[INS > 0, DEL > 0, SUB > 0],
              posts=[("mask_iff_row_minimum_within_reference_length", post)], inputs=model_inputs(R, H, N),
              assumptions=["float arithmetic treated as real arithmetic; +inf tracked exactly through guarded terms", "R >= 1 (a zero-size reference dimension is outside this rung)",
                           "the empty hypothesis combined with exclude_last is outside C03's statement"])


def configs(quick):
    top = 3 if quick else 4
    for R in range(1, top):
        for H in range(0, top):
            for eos_set, include_eos in ((False, False), (True, False), (True, True)):
                for batch_first in (False, True):
                    for excl in (False, True):
                        if excl and H == 0:
                            continue
                        if quick and batch_first and (R + H) % 2 == 0:
                            continue
                        yield (R, H, 2 if R + H <= 2 else 1, eos_set, include_eos, batch_first, excl)


def vcs(ctx):
    return [mask_vc(*c) for c in configs(ctx.quick)]


# ---- P rung: the row-minima mask of _string_matching(return_mask=True) for SYMBOLIC shapes (R, H, N) ----------------------------------
def p_vcs(ctx=None):
    """C03.P.mask_row_minima. Same dynamic programme as C01.P.dp (contracts/C01_vc.py) in mask mode: after each hypothesis position the
    row is cut off beyond the reference length (+inf), its minimum taken, and `row == minimum` recorded.
    Spec: D = Wagner-Fischer table (definition); Dmin(n, j) = minimum of D(n, r', j) over r' <= ref_len (characterised by: a lower
    bound of every such entry, attained at Dargmin(n, j) <= ref_len - definitional for a finite non-empty set).
        mask[j, r, n]  <=>  r < ref_len  and  prefix j exists  and  D(n, r, j) = Dmin(n, j).
    Invariants of the hypothesis loop (skolem batch element n0), k = number of completed iterations:
        FORALL r <= ref_len.  row[r, n0] is finite and = D(n0, r, min(k, cap))
        FORALL j <= k, r < ref_len.  masks[j][r, n0]  <=>  prefix j exists and D(n0, r, j) = Dmin(n0, j)
    Row preservation by induction over r (as in C01.P.dp); the list of masks is abstracted to a function of (j, r, n).
    Assumed: callee contract of _lens_from_eos, min(dim) contracts, lin_c abstraction, the induction principle."""
    from vf.pyvc import interp as ip
    from vf.pyvc import symtensor as stn
    from vf.pyvc.ctensor import Guarded
    from vf.pyvc.interp import LoopSpec, PathAbort

    R, H, N, N0, R0, RM0, J0 = z3.Ints("R H N n0 r0 rm0 j0")
    HL0, RL0 = z3.Ints("hyp_len_n0 ref_len_n0")
    REF = z3.Function("ref", z3.IntSort(), z3.IntSort(), z3.IntSort())
    HYP = z3.Function("hyp", z3.IntSort(), z3.IntSort(), z3.IntSort())
    LR = z3.Function("ref_len", z3.IntSort(), z3.IntSort())
    LH = z3.Function("hyp_len", z3.IntSort(), z3.IntSort())
    D = z3.Function("D", z3.IntSort(), z3.IntSort(), z3.IntSort(), z3.RealSort())
    DMIN = z3.Function("Dmin", z3.IntSort(), z3.RealSort())      # for the skolem batch element: j -> min over r' <= ref_len
    DARG = z3.Function("Dargmin", z3.IntSort(), z3.IntSort())
    n, r, j = z3.Ints("n r j")
    mn = lambda a, b: z3.If(a <= b, a, b)
    mx = lambda a, b: z3.If(a >= b, a, b)
    neq = lambda rr, jj, nn: z3.If(REF(rr, nn) != HYP(jj, nn), SUB, z3.RealVal(0))
    c00 = lambda nn: D(nn, 0, 0) == 0
    cr0 = lambda nn, rr: z3.Implies(rr >= 1, D(nn, rr, 0) == D(nn, rr - 1, 0) + DEL)
    c0j = lambda nn, jj: z3.Implies(jj >= 1, D(nn, 0, jj) == D(nn, 0, jj - 1) + INS)
    crj = lambda nn, rr, jj: z3.Implies(z3.And(rr >= 1, jj >= 1), D(nn, rr, jj) == mn(mn(D(nn, rr, jj - 1) + INS, D(nn, rr - 1, jj - 1) + neq(rr - 1, jj - 1, nn)), D(nn, rr - 1, jj) + DEL))
    SPEC = [z3.ForAll([n], c00(n)), z3.ForAll([n, r], cr0(n, r)), z3.ForAll([n, j], c0j(n, j)), z3.ForAll([n, r, j], crj(n, r, j))]
    SPEC_AT = lambda nn, rr, jj: z3.And(c00(nn), cr0(nn, rr), c0j(nn, jj), crj(nn, rr, jj))
    min_lb = lambda jj, rr: z3.Implies(z3.And(0 <= rr, rr <= RL0), DMIN(jj) <= D(N0, rr, jj))
    min_att = lambda jj: z3.And(0 <= DARG(jj), DARG(jj) <= RL0, DMIN(jj) == D(N0, DARG(jj), jj))
    MINSPEC = [z3.ForAll([j, r], min_lb(j, r)), z3.ForAll([j], min_att(j))]

    class AbsMaskList:
        """masks: one (R, N) mask per hypothesis prefix; element j at (r, n) is fn(j, r, n); `new` = the mask appended in the body"""

        def __init__(self, fn, count):
            self.fn, self.count, self.new = fn, count, None

        def __vc_getattr__(self, I, name):
            me = self
            if name != "append":
                raise ip.Unsupported("masks.%s" % name)

            class M_:
                def __vc_call__(s, I2, a, k):
                    me.new = a[0]

            return M_()

    def make_vc(eos_set, include_eos, batch_first, excl):
        name = "_string_matching[return_mask; symbolic R,H,N; eos=%s,include_eos=%s,batch_first=%s,exclude_last=%s]" % ("set" if eos_set else "unset", include_eos, batch_first, excl)
        RLs = (lambda nn: z3.If(LR(nn) == R, R, LR(nn) + 1)) if include_eos else (lambda nn: LR(nn))
        HLs = (lambda nn: z3.If(LH(nn) == H, H, LH(nn) + 1)) if include_eos else (lambda nn: LH(nn))
        CAP = mx(HL0 - 1, 0) if excl else HL0
        LAST = mx(H - 1, 0) if excl else H
        exists = lambda jj: z3.Or(jj == 0, (jj < HL0) if excl else (jj <= HL0))
        MASKF = z3.Function("mask_of_prefix", z3.IntSort(), z3.IntSort(), z3.IntSort(), z3.BoolSort())

        def thunk(I):
            import pydrobert.torch._string as S

            I.stubs.update(stn.stubs())
            I.stubs["torch.zeros"] = lambda I2, size, dtype=None, device=None, **k: stn.ST.const(tuple(size), False if ct.dtype_tag(dtype, "float") == "bool" else 0, ct.dtype_tag(dtype, "float"))

            def stack(I2, ts, dim=0):
                if not isinstance(ts, AbsMaskList) or dim != 0:
                    raise ip.Unsupported("torch.stack other than of the list of masks")
                return stn.ST((ts.count, R, N), lambda a, b, c: ts.fn(ip.to_z3(a), ip.to_z3(b), ip.to_z3(c)), "bool")

            I.stubs["torch.stack"] = stack
            if batch_first:
                ref = stn.ST((N, R), lambda b, a: REF(ip.to_z3(a), ip.to_z3(b)), "long")
                hyp = stn.ST((N, H), lambda b, a: HYP(ip.to_z3(a), ip.to_z3(b)), "long")
            else:
                ref = stn.ST((R, N), lambda a, b: REF(ip.to_z3(a), ip.to_z3(b)), "long")
                hyp = stn.ST((H, N), lambda a, b: HYP(ip.to_z3(a), ip.to_z3(b)), "long")
            calls = []

            def lens_contract(I2, a, k):
                tok = a[0]
                calls.append(tok)
                L = LR if len(calls) == 1 else LH
                I2.ex.oblige("lens.called_on_time_major_tensor_dim0", z3.And(z3.BoolVal(a[2] == 0), ip.to_z3(tok.shape[0]) == (R if len(calls) == 1 else H), ip.to_z3(tok.elem(R0, N0)) == (REF if len(calls) == 1 else HYP)(R0, N0)))
                bound = lambda nn: z3.Implies(z3.And(0 <= nn, nn < N), z3.And(0 <= L(nn), L(nn) <= ip.to_z3(tok.shape[0])))
                I2.ex.assume(z3.ForAll([n], bound(n)))
                I2.ex.instance(bound(N0))
                return stn.ST((N,), lambda a_: L(ip.to_z3(a_)), "long")

            I.contracts["pydrobert.torch._string._lens_from_eos"] = lens_contract
            I.ex.ghost["any_points"] = {1: [(N0,)], 2: [(0, N0)]}
            if not eos_set:
                I.ex.assume(z3.ForAll([n], z3.And(LR(n) == R, LH(n) == H)))
                I.ex.instance(z3.And(LR(N0) == R, LH(N0) == H))
            return I.call(S._string_matching, [ref, hyp, EOS if eos_set else None, include_eos, batch_first, INS, DEL, SUB, False], dict(return_mask=True, exclude_last=excl))

        def cell(row, rr):
            return Guarded.split(row.elem(rr, N0))

        def at(row, rr, jj):  # finite and equal to the table
            p, v = cell(row, rr)
            fin = z3.Not(p) if ip.is_z3(p) else z3.BoolVal(not p)
            return z3.And(fin, ip.to_z3(v) == D(N0, rr, jj))

        row_at = lambda row, rr, jj: z3.Implies(z3.And(0 <= rr, rr <= RL0), at(row, rr, jj))
        B = lambda x: x if ip.is_z3(x) else z3.BoolVal(bool(x))
        mask_ok = lambda m, jj, rr: z3.Implies(z3.And(0 <= rr, rr < RL0), B(m) == z3.And(exists(jj), D(N0, rr, jj) == DMIN(jj)))
        list_at = lambda k, jj, rr: z3.Implies(z3.And(0 <= jj, jj <= k), mask_ok(MASKF(jj, rr, N0), jj, rr))

        class DPLoop(LoopSpec):
            def run(self, I, s, f):
                row0 = ip.local(f, "row")
                same = z3.And(ip.to_z3(ip.local(f, "hyp_lens").elem(N0)) == HL0, ip.to_z3(ip.local(f, "ref_lens").elem(N0)) == RL0)
                I.ex.oblige("dp.lengths_are_spec_lengths", same)
                I.ex.assume(same)
                # row initialisation, by induction over r
                g_base = at(row0, z3.IntVal(0), z3.IntVal(0))
                g_step = z3.Implies(z3.And(1 <= R0, R0 <= RL0, at(row0, R0 - 1, z3.IntVal(0))), at(row0, R0, z3.IntVal(0)))
                I.ex.instance(SPEC_AT(N0, R0, z3.IntVal(0)))
                for x in stn.lin_instances(I, R0 - 1):
                    I.ex.instance(x)
                I.ex.oblige("dp.init.base", g_base)
                I.ex.oblige("dp.init.step", g_step)
                I.ex.assume(z3.ForAll([r], row_at(row0, r, z3.IntVal(0))))
                # lemma: the first column is positive below the first row (induction over r), hence its minimum is D(0, 0) = 0
                pos = lambda rr: z3.Implies(rr >= 1, D(N0, rr, 0) > 0)
                I.ex.instance(SPEC_AT(N0, z3.IntVal(1), z3.IntVal(0)))
                I.ex.oblige("first_column.positive.base", pos(z3.IntVal(1)))
                I.ex.oblige("first_column.positive.step", z3.Implies(z3.And(R0 >= 1, pos(R0)), pos(R0 + 1)))
                I.ex.instance(SPEC_AT(N0, R0 + 1, z3.IntVal(0)))
                I.ex.assume(z3.ForAll([r], pos(r)))
                for x in (pos(RM0), pos(DARG(z3.IntVal(0))), min_lb(z3.IntVal(0), z3.IntVal(0)), min_att(z3.IntVal(0)), SPEC_AT(N0, RM0, z3.IntVal(0))):
                    I.ex.instance(x)
                masks0 = ip.local(f, "masks")
                I.ex.oblige("mask.init.one_mask", z3.BoolVal(isinstance(masks0, list) and len(masks0) == 1))
                I.ex.oblige("mask.init", z3.Implies(z3.And(0 <= RM0, RM0 < R), mask_ok(masks0[0].elem(RM0, N0), z3.IntVal(0), RM0)))
                # havoc: row (possibly +inf beyond the reference length from the second iteration on) and the list of masks
                ROWV = stn._fresh("row", z3.IntSort(), z3.IntSort(), z3.RealSort())
                ROWP = stn._fresh("row_is_inf", z3.IntSort(), z3.IntSort(), z3.BoolSort())
                f.locals["row"] = stn.ST((R + 1, N), lambda a, b: Guarded(ROWP(ip.to_z3(a), ip.to_z3(b)), ROWV(ip.to_z3(a), ip.to_z3(b))), "float")
                if I.ex.choose(2) == 0:
                    k = I.ex.fresh("int", "iter")
                    I.ex.assume(z3.And(0 <= k, k < LAST))
                    rowk = ip.local(f, "row")
                    I.ex.assume(z3.ForAll([r], row_at(rowk, r, mn(k, CAP))))
                    for rr in (R0, R0 - 1, z3.IntVal(0)):
                        I.ex.instance(row_at(rowk, rr, mn(k, CAP)))
                    lst = AbsMaskList(MASKF, k + 1)
                    f.locals["masks"] = lst
                    it = I.eval(s.iter, f)
                    I.ex.oblige("dp.loop.range", z3.And(ip.to_z3(it.lo) == 1, mx(ip.to_z3(it.hi) - 1, 0) == LAST, ip.to_z3(it.step) == 1))
                    I.assign(s.target, k + 1, f)
                    n_min = len(I.ex.ghost.get("mins", []))
                    I.exec_block(s.body, f)
                    row1 = ip.local(f, "row")
                    jn = mn(k + 1, CAP)
                    g_b = at(row1, z3.IntVal(0), jn)
                    g_i = z3.Implies(z3.And(1 <= R0, R0 <= RL0, at(row1, R0 - 1, jn)), at(row1, R0, jn))
                    g_m = None
                    if lst.new is not None:
                        g_m = z3.Implies(z3.And(0 <= RM0, RM0 < R), mask_ok(lst.new.elem(RM0, N0), k + 1, RM0))
                    I.ex.instance(SPEC_AT(N0, R0, jn))
                    new_mins = I.ex.ghost.get("mins", [])[n_min:]
                    for mm in new_mins:
                        if len(mm["t"].shape) != 3:
                            continue  # (the vectorised deletion step is the min over dim 1 of a rank-3 tensor)
                        w_ = lambda rr: mm["w"](rr, N0)
                        for o, kk in (([R0, N0], R0), ([R0, N0], w_(R0 - 1)), ([R0 - 1, N0], w_(R0)), ([R0 - 1, N0], R0 - 1), ([z3.IntVal(0), N0], z3.IntVal(0))):
                            I.ex.instance(mm["lb"](o, kk))
                        for o in ([R0, N0], [R0 - 1, N0], [z3.IntVal(0), N0]):
                            I.ex.instance(mm["att"](o))
                        for dist in (R0 - 1 - w_(R0), R0 - 1 - w_(R0 - 1)):
                            for x in stn.lin_instances(I, dist):
                                I.ex.instance(x)
                    I.ex.oblige("dp.step.base", g_b)
                    I.ex.oblige("dp.step.ind", g_i)
                    I.ex.assume(z3.ForAll([r], row_at(row1, r, jn)))  # conclusion of the induction over r
                    # the recorded mask: the code's column minimum is the spec's minimum
                    I.ex.oblige("mask.appended_once_per_iteration", z3.BoolVal(lst.new is not None))
                    if g_m is not None:
                        for mm in new_mins:
                            if len(mm["t"].shape) != 2:
                                continue  # the minimum over the reference index of the (R + 1, N) row
                            wc, o = mm["w"](N0), [N0]
                            for x in (mm["att"](o), mm["lb"](o, DARG(k + 1)), mm["lb"](o, RM0), row_at(row1, wc, jn), row_at(row1, DARG(k + 1), jn), row_at(row1, RM0, jn),
                                      min_lb(k + 1, wc), min_lb(k + 1, RM0), min_att(k + 1)):
                                I.ex.instance(x)
                        I.ex.oblige("mask.step", g_m)
                    raise PathAbort()
                I.ex.assume(z3.ForAll([r], row_at(ip.local(f, "row"), r, mn(LAST, CAP))))
                jj, rr = z3.Ints("j_l r_l")
                I.ex.assume(z3.ForAll([jj, rr], list_at(LAST, jj, rr)))
                I.ex.instance(list_at(LAST, J0, RM0))
                f.locals["masks"] = AbsMaskList(MASKF, LAST + 1)

        loop = DPLoop("dp.loop", None, None, None, {})

        def post(p):
            if not api.returns(p) or not hasattr(p.value, "elem"):
                return False
            shape = tuple(p.value.shape)
            got = p.value.elem(J0, RM0, N0)
            want = z3.And(RM0 < RL0, exists(J0), D(N0, RM0, J0) == DMIN(J0))
            return [("result_shape", z3.And(z3.BoolVal(len(shape) == 3), ip.to_z3(shape[0]) == LAST + 1, ip.to_z3(shape[1]) == R, ip.to_z3(shape[2]) == N)),
                    ("mask_iff_row_minimum_within_reference_length", (got if ip.is_z3(got) else z3.BoolVal(bool(got))) == want)]

        pre = [INS > 0, DEL > 0, SUB > 0, z3.Not(z3.And(INS == DEL, DEL == SUB)), R >= 1, H >= 0, N >= 1, 0 <= N0, N0 < N, 0 <= R0, HL0 == HLs(N0), RL0 == RLs(N0),
               0 <= J0, J0 <= LAST, 0 <= RM0, RM0 < R] + SPEC + MINSPEC
        return VC("C03.P.mask_row_minima", name, M, "_string_matching", thunk, pre=pre, posts=[("final", post)], loops={("_string_matching", 0): loop},
                  inputs={"R": R, "H": H, "N": N}, timeout_ms=20000,
                  assumptions=["Wagner-Fischer recurrence = minimum over edit scripts (definition of D); Dmin / Dargmin = minimum and a minimiser of a finite non-empty column (definitional)",
                               "min(dim) contract: lower bound of the finite entries, attained at a finite entry; any() contract; tensors as index functions (vf/pyvc/symtensor.py); +inf tracked through guarded terms",
                               "index * cost products abstracted to lin_c(i); float arithmetic treated as real arithmetic; the list of masks abstracted to a function of (prefix, reference position, batch element)",
                               "inductions over the reference index and over the loop applied outside the solver; callee contract of _lens_from_eos (C01.P.lens_first_eos)",
                               "unequal costs (with equal costs the code runs the same programme on unit costs - covered per shape by the S rung); R >= 1 (a zero-size reference dimension is outside this rung); the empty hypothesis combined with exclude_last is outside C03's statement"])

    return [make_vc(True, False, False, False), make_vc(False, False, False, False), make_vc(True, True, True, False), make_vc(True, False, False, True)]
