"""C03, engine A part (S rung): the row-minima mask produced by `_string_matching(return_mask=True)`,
which is what `optimal_completion` turns into target sets, equals the spec
  mask[j, r, n]  <=>  r < ref_len  and  prefix j exists  and  D(n, r, j) = min_{r' <= ref_len} D(n, r', j).
(The sort / de-duplication / scatter of optimal_completion has data-dependent shapes and is decided by the
bounded driver against the brute-force completion oracle.)"""
import z3

from contracts import strspec as sp
from contracts.C01_vc import DEL, EOS, INS, SUB, col, model_inputs
from vf.pyvc import api, ctensor as ct
from vf.pyvc.api import VC

M = "pydrobert.torch._string"


def mask_vc(R, H, N, eos_set, include_eos, batch_first, excl):
    import pydrobert.torch._string as S

    name = "R%dH%dN%d[eos=%s,inc=%s,bf=%s,excl=%s]" % (R, H, N, eos_set, include_eos, batch_first, excl)
    eos = EOS if eos_set else None

    def thunk(I):
        ref = ct.CT.symbolic("ref", (R, N), "long")
        hyp = ct.CT.symbolic("hyp", (H, N), "long")
        I.ex.ghost.update(ref=ref, hyp=hyp)
        a, b = (ct.CT(ref.a.T.copy(), "long"), ct.CT(hyp.a.T.copy(), "long")) if batch_first else (ref, hyp)
        return I.call(S._string_matching, [a, b, eos, include_eos, batch_first, INS, DEL, SUB, False], dict(return_mask=True, exclude_last=excl))

    def post(p):
        if not api.returns(p) or not isinstance(p.value, ct.CT):
            return False
        out, ref, hyp = p.value, p.ghost["ref"], p.ghost["hyp"]
        J = H + (0 if excl else 1)
        if out.shape != (J, R, N):
            return False
        goals = []
        for n in range(N):
            rc, hc = col(ref, n), col(hyp, n)
            rl, hl = sp.first_eos_len(rc, eos, include_eos), sp.first_eos_len(hc, eos, include_eos)
            D = sp.lev_table(rc, hc, INS, DEL, SUB)
            for j in range(J):
                exists = z3.BoolVal(True) if j == 0 else ((j < hl) if excl else (j <= hl))
                for r in range(R):
                    is_min = z3.And([z3.Implies(rp <= rl, D[r][j] <= D[rp][j]) for rp in range(R + 1)])
                    want = z3.And(r < rl, exists, is_min)
                    got = out.a[j, r, n]
                    goals.append((got if ct.is_z3(got) else z3.BoolVal(bool(got))) == want)
        return goals if goals else z3.BoolVal(True)

    return VC("C03.S.mask_row_minima", name, M, "_string_matching", thunk, pre=[INS > 0, DEL > 0, SUB > 0],
              posts=[("mask_iff_row_minimum_within_reference_length", post)], inputs=model_inputs(R, H, N),
              assumptions=["float arithmetic treated as real arithmetic; +inf tracked exactly through guarded terms", "R >= 1 (a zero-size reference dimension is outside this rung)",
                           "the empty hypothesis combined with exclude_last is outside C03's statement"])


def configs(quick):
    top = 3 if quick else 4
    for R in range(1, top):
        for H in range(0, top):
            for eos_set, include_eos in ((False, False), (True, False), (True, True)):
                for batch_first in (False, True):
                    for excl in (False, True):
                        if excl and H == 0:
                            continue
                        if quick and batch_first and (R + H) % 2 == 0:
                            continue
                        yield (R, H, 2 if R + H <= 2 else 1, eos_set, include_eos, batch_first, excl)


def vcs(ctx):
    return [mask_vc(*c) for c in configs(ctx.quick)]
