"""C12, engine A part, S rung: sos/eos insertion and stripping are inverse.

The real `_load_ref` and `_write_hyp` sources are executed over a stored transcript of every length up to the bound with SYMBOLIC
token ids, symbolic sos / eos values (each configured or None) and symbolic junk symbols around the hypothesis:

  read     _load_ref(stored) = [sos] + stored + [eos]        (2-D: the added rows are (symbol, -1, -1); tokens_only: first column)
  strip    _write_hyp(pre + read + post) stores exactly `stored` (1-D) / its rows (2-D), where `pre` ends at or before an sos
           only if sos is configured (everything up to the LAST sos goes) and `post` starts after the eos (everything from the
           FIRST eos goes)

Preconditions (the property's domain): token ids are non-negative and differ from the configured sos and eos; sos != eos.
sos and eos themselves range over ALL integers - in particular 0, which `if eos:` style tests get wrong.
Complete over all contents for each shape; bounded in the transcript length -> labelled bounded.
"""
import itertools

import z3

from vf.pyvc import api, ctensor as ct, interp as ip
from vf.pyvc.api import VC

M = "pydrobert.torch._datasets"
SOS, EOS = z3.Ints("sos eos")


def soseos_vc(R, two_d, tokens_only, sos_set, eos_set, npre, npost):
    """npre: junk symbols before the sos (needs sos configured); npost: junk symbols after the eos (needs eos configured)"""
    name = "R%d[%s,tokens_only=%s,sos=%s,eos=%s,pre=%d,post=%d]" % (R, "2d" if two_d else "1d", tokens_only, sos_set, eos_set, npre, npost)
    toks = [z3.Int("tok_%d" % i) for i in range(R)]
    starts = [z3.Int("start_%d" % i) for i in range(R)]
    ends = [z3.Int("end_%d" % i) for i in range(R)]
    pre_sym = [z3.Int("pre_%d" % i) for i in range(npre)]
    post_sym = [z3.Int("post_%d" % i) for i in range(npost)]
    sos, eos = (SOS if sos_set else None), (EOS if eos_set else None)
    as_2d = two_d and not tokens_only  # what the data set hands out

    def stored():
        if two_d:
            a = ct.obj_array(0, (R, 3))
            for i in range(R):
                a[i, 0], a[i, 1], a[i, 2] = toks[i], starts[i], ends[i]
            return ct.CT(a, "long")
        a = ct.obj_array(0, (R,))
        for i in range(R):
            a[i] = toks[i]
        return ct.CT(a, "long")

    def rows(syms):
        if as_2d:
            a = ct.obj_array(-1, (len(syms), 3))
            for i, v in enumerate(syms):
                a[i, 0] = v
            return ct.CT(a, "long")
        a = ct.obj_array(0, (len(syms),))
        for i, v in enumerate(syms):
            a[i] = v
        return ct.CT(a, "long")

    def thunk(I):
        import pydrobert.torch._datasets as D

        saved = {}
        I.stubs["torch.serialization.load"] = I.stubs["torch.load"] = lambda I2, pth, *a, **k: stored()
        I.stubs["torch.serialization.save"] = I.stubs["torch.save"] = lambda I2, obj, f=None, *a, **k: saved.__setitem__("hyp", obj)
        I.ex.ghost["saved"] = saved
        read = I.call(D._load_ref, ["ref/u.pt", tokens_only, sos, eos], {})
        I.ex.ghost["read"] = read
        hyp = ct.f_cat(I, [rows(pre_sym), read, rows(post_sym)], 0) if (npre or npost) else read
        I.call(D._write_hyp, [hyp, "hyp/u.pt", sos, eos], {})
        return read

    def cells(t):
        return [ip.to_z3(v) for v in t.a.reshape(-1)]

    def post_read(p):
        if not api.returns(p) or not isinstance(p.ghost.get("read"), ct.CT):
            return False
        read = p.ghost["read"]
        want_rows = []
        if sos_set:
            want_rows.append([SOS, -1, -1] if as_2d else [SOS])
        for i in range(R):
            want_rows.append([toks[i], starts[i], ends[i]] if as_2d else [toks[i]])
        if eos_set:
            want_rows.append([EOS, -1, -1] if as_2d else [EOS])
        want_shape = (len(want_rows), 3) if as_2d else (len(want_rows),)
        if tuple(read.shape) != want_shape:
            return False
        flat = [ip.to_z3(v) for row in want_rows for v in row]
        return z3.And([a == b for a, b in zip(cells(read), flat)]) if flat else z3.BoolVal(True)

    def post_strip(p):
        if not api.returns(p):
            return False
        back = p.ghost["saved"].get("hyp")
        if not isinstance(back, ct.CT):
            return False
        want_shape = (R, 3) if as_2d else (R,)
        if tuple(back.shape) != want_shape:
            return False
        flat = [ip.to_z3(v) for i in range(R) for v in ([toks[i], starts[i], ends[i]] if as_2d else [toks[i]])]
        return z3.And([a == b for a, b in zip(cells(back), flat)]) if flat else z3.BoolVal(True)

    pre = [t >= 0 for t in toks]
    if sos_set:
        pre += [t != SOS for t in toks]
    if eos_set:
        pre += [t != EOS for t in toks]
    if sos_set and eos_set:
        pre.append(SOS != EOS)
    # junk before the sos may hold anything, including further sos symbols (everything up to the LAST sos goes); junk after the
    # eos may hold anything, including further eos symbols (everything from the FIRST eos on goes) - but no sos, which would
    # move the "last sos" behind the transcript
    if sos_set:
        pre += [x != SOS for x in post_sym]
    inputs = {"sos": SOS, "eos": EOS}
    for i in range(R):
        inputs["tok_%d" % i] = toks[i]
    for i, x in enumerate(pre_sym):
        inputs["pre_%d" % i] = x
    for i, x in enumerate(post_sym):
        inputs["post_%d" % i] = x

    def replay(m):
        return replay_soseos(m, R, two_d, tokens_only, sos_set, eos_set, npre, npost)

    twins = [("stores_what_was_read", lambda p: z3.BoolVal(isinstance(p.ghost["saved"].get("hyp"), ct.CT) and tuple(p.ghost["saved"]["hyp"].shape) == tuple(p.ghost["read"].shape)) if api.returns(p) else None)] if (sos_set or eos_set) else []
    return VC("C12.S.soseos_inverse", name, M, "_write_hyp", thunk, pre=pre, posts=[("read_wraps_every_transcript", post_read), ("write_stores_the_bare_transcript", post_strip)],
              twins=twins, inputs=inputs, replay=replay, max_paths=3000,
              assumptions=["torch.load / torch.save abstracted to the stored / written tensor (the file system round trip is the bounded driver's)",
                           "nonzero(1-D): indices of the true entries in increasing order; cat, new_full, slicing as in vf/pyvc/ctensor.py",
                           "domain: token ids non-negative and different from the configured sos / eos; sos != eos; symbols after the eos are not sos (symbols before the sos are arbitrary, further sos / eos included)"])


def replay_soseos(m, R, two_d, tokens_only, sos_set, eos_set, npre, npost):
    """native replay of a counter-model: build the stored transcript, read it, write it back, compare"""
    import os
    import tempfile
    import warnings

    import torch
    from pydrobert.torch import _datasets as D

    def g(k, d=0):
        v = m.get(k, d)
        return int(v) if v is not None else d

    sos, eos = (g("sos") if sos_set else None), (g("eos") if eos_set else None)
    toks = [g("tok_%d" % i) for i in range(R)]
    if any(abs(x) > 2 ** 40 for x in toks + [sos or 0, eos or 0]):
        return None
    stored = torch.tensor([[t, i, i + 1] for i, t in enumerate(toks)], dtype=torch.long).view(R, 3) if two_d else torch.tensor(toks, dtype=torch.long)
    as_2d = two_d and not tokens_only
    with tempfile.TemporaryDirectory() as tmp, warnings.catch_warnings():
        warnings.simplefilter("ignore")
        torch.save(stored, os.path.join(tmp, "u.pt"))
        read = D._load_ref(os.path.join(tmp, "u.pt"), tokens_only, sos, eos)
        want = ([sos] if sos_set else []) + toks + ([eos] if eos_set else [])
        got = (read[:, 0] if read.dim() == 2 else read).tolist()
        if got != want:
            return "reading tokens %s with sos=%s eos=%s gives %s, expected %s" % (toks, sos, eos, got, want)

        def rows(syms):
            t = torch.tensor(syms, dtype=torch.long)
            if as_2d:
                t = torch.cat([t.view(-1, 1), torch.full((len(syms), 2), -1, dtype=torch.long)], 1)
            return t

        hyp = torch.cat([rows([g("pre_%d" % i) for i in range(npre)]), read, rows([g("post_%d" % i) for i in range(npost)])], 0)
        D._write_hyp(hyp, os.path.join(tmp, "h.pt"), sos, eos)
        back = torch.load(os.path.join(tmp, "h.pt"))
        bare = stored if as_2d or not two_d else stored[:, 0]
        if back.shape != bare.shape or not torch.equal(back, bare):
            return "write_hyp(%s) with sos=%s eos=%s stored %s, expected the bare transcript %s" % (hyp.tolist(), sos, eos, back.tolist(), bare.tolist())
    return None


def vcs(ctx):
    out = []
    Rmax = 2 if ctx.quick else 3
    for R in range(0, Rmax + 1):
        for two_d, tokens_only in ((False, False), (True, False), (True, True)):
            for sos_set, eos_set in itertools.product((False, True), repeat=2):
                out.append(soseos_vc(R, two_d, tokens_only, sos_set, eos_set, 0, 0))
                if (sos_set or eos_set) and (R <= 1 or not ctx.quick):
                    out.append(soseos_vc(R, two_d, tokens_only, sos_set, eos_set, 2 if sos_set else 0, 2 if eos_set else 0))
    return out


# ---- P rung: strict validation accepts exactly the well-formed directories, for a SYMBOLIC number of utterances ---------------------
def validate_vcs(ctx=None):
    """C12.P.validate_iff_wellformed. The real `_info_and_validate(data_set, info=False, validate=True, fix=None)` (what
    validate_spect_data_set runs) over a directory of U utterances, U symbolic, each stored object abstracted to a DESCRIPTOR of what
    the validator can observe: is it a tensor, its dtype class, is it on a GPU, its number of dimensions and sizes, and (2-D
    references) its rows (token, start, end) - all symbolic, per utterance. WF(i) is the documented condition list for utterance i
    (relative to utterance 0 for the "one dtype / one width / one reference dimensionality" conditions).
      loop invariant (utterances):  after k utterances without an exception  FORALL i < k. WF(i), and the carried state is
                                    (dtype, width, dimensionality) of utterance 0 (None before the first)
      nested invariant (rows of a 2-D reference): after j rows without an exception every row so far has valid boundaries
    Obligations: an iteration that completes has WF(k) and re-establishes the state; an iteration that raises raises ValueError and
    NOT WF(k); nothing is ever written. Hence validation returns iff FORALL i < U. WF(i) (both invariant rules applied outside the
    solver)."""
    import ast as _ast

    from vf.pyvc import source
    from vf.pyvc.interp import LoopSpec, Opaque, PathAbort, PyRaise, Unsupported
    from vf.pyvc.values import Vec

    U = z3.Int("num_utterances")
    bf = lambda n: z3.Function(n, z3.IntSort(), z3.BoolSort())
    nf = lambda n: z3.Function(n, z3.IntSort(), z3.IntSort())
    FTEN, FCUDA, ATEN, ACUDA, RTEN, RCUDA = bf("feat_is_tensor"), bf("feat_on_gpu"), bf("ali_is_tensor"), bf("ali_on_gpu"), bf("ref_is_tensor"), bf("ref_on_gpu")
    FDT, FND, FT, FF = nf("feat_dtype"), nf("feat_ndim"), nf("frames"), nf("feat_width")
    AKIND, AND_, ATP = nf("ali_dtype_class"), nf("ali_ndim"), nf("ali_length")  # dtype class: 0 long, 1 smaller integer, 2 anything else
    RKIND, RND, RS1, RN = nf("ref_dtype_class"), nf("ref_ndim"), nf("ref_size1"), nf("ref_rows")
    RTOK = z3.Function("ref_token", z3.IntSort(), z3.IntSort(), z3.IntSort())
    RA = z3.Function("ref_start", z3.IntSort(), z3.IntSort(), z3.IntSort())
    RB = z3.Function("ref_end", z3.IntSort(), z3.IntSort(), z3.IntSort())
    i_, j_ = z3.Ints("i_q j_q")
    J0 = z3.Int("row_q")
    fdef = source.find_def("pydrobert.torch._datasets", "_info_and_validate")
    loops = source.find_loops(fdef)
    ordinal = lambda text: [k for k, l in enumerate(loops) if isinstance(l, _ast.For) and _ast.unparse(l.iter) == text]
    o_utt, o_rows, o_toks = ordinal("range(len(data_set))"), ordinal("enumerate(ref)"), ordinal("ref.tolist()")
    if not (len(o_utt) == len(o_rows) == len(o_toks) == 1):
        raise AssertionError("the three loops of _info_and_validate were not located")

    def make_vc(has_ali, has_ref):
        name = "_info_and_validate[strict; symbolic number of utterances; alignments=%s, references=%s]" % (has_ali, has_ref)
        row_ok = lambda i, j: z3.Or(z3.And(RA(i, j) < 0, RB(i, j) < 0), z3.And(0 <= RA(i, j), RA(i, j) <= RB(i, j), RB(i, j) <= FT(i)))

        def WF(i):
            c = [FTEN(i), z3.Not(FCUDA(i)), FND(i) == 2, FDT(i) == FDT(0), FF(i) == FF(0)]
            if has_ali:
                c += [ATEN(i), AKIND(i) == 0, z3.Not(ACUDA(i)), AND_(i) == 1, ATP(i) == FT(i)]
            if has_ref:
                c += [RTEN(i), RKIND(i) == 0, z3.Not(RCUDA(i)), z3.Or(RND(i) == 1, RND(i) == 2), RND(i) == RND(0),
                      z3.Implies(RND(i) == 2, z3.And(RS1(i) == 3, z3.ForAll([j_], z3.Implies(z3.And(0 <= j_, j_ < RN(i)), row_ok(i, j_)))))]
            return z3.And(c)

        class DevType:
            def __init__(self, cuda):
                self.cuda = cuda

            def __vc_compare__(self, I, op, other, reflected):
                if other != "cuda":
                    raise Unsupported("device type compared with %r" % (other,))
                return self.cuda if isinstance(op, _ast.Eq) else z3.Not(self.cuda)

        class Dev:
            def __init__(self, cuda):
                self.cuda = cuda

            def __vc_getattr__(self, I, nm):
                if nm == "type":
                    return DevType(self.cuda)
                raise Unsupported("device.%s" % nm)

        class TDesc:
            """what the validator can observe of one stored object"""

            def __init__(self, role, i):
                self.role, self.i = role, i
                self.rows_1d = False

            def __vc_isinstance__(self, I, ts):
                import torch

                i = self.i
                ten = {"feat": FTEN, "ali": ATEN, "ref": RTEN}[self.role](i)
                kind = {"ali": AKIND, "ref": RKIND}.get(self.role)
                alts = []
                for t in ts:
                    if t is torch.Tensor:
                        alts.append(ten)
                    elif t is torch.LongTensor and kind is not None:
                        alts.append(z3.And(ten, kind(i) == 0))
                    elif t in (torch.ByteTensor, torch.CharTensor, torch.ShortTensor, torch.IntTensor) and kind is not None:
                        alts.append(z3.And(ten, kind(i) == 1))
                    else:
                        raise Unsupported("isinstance(%s, %r)" % (self.role, t))
                return z3.Or(alts) if len(alts) > 1 else alts[0]

            def __vc_getattr__(self, I, nm):
                i, me = self.i, self
                meth = lambda fn: type("M_", (), {"__vc_call__": lambda s, I2, a, k: fn(*a)})()
                if nm == "device":
                    return Dev({"feat": FCUDA, "ali": ACUDA, "ref": RCUDA}[self.role](i))
                if self.role == "feat":
                    if nm == "dtype":
                        return FDT(i)
                    if nm == "dim":
                        return meth(lambda: FND(i))
                    if nm == "shape":
                        return (FT(i), FF(i))  # read only after dim() == 2 was checked
                elif self.role == "ali":
                    if nm == "ndim":
                        return AND_(i)
                    if nm == "size":
                        return meth(lambda d: ATP(i) if d == 0 else (_ for _ in ()).throw(Unsupported("ali.size(%r)" % d)))
                    if nm == "shape":
                        return (ATP(i),)
                else:
                    if nm == "ndim":
                        return z3.IntVal(2) if me.rows_1d else RND(i)
                    if nm == "size":
                        return meth(lambda d: RN(i) if d == 0 else (RS1(i) if d == 1 else (_ for _ in ()).throw(Unsupported("ref.size(%r)" % d))))
                    if nm == "unsqueeze":
                        def uns(d):
                            me.rows_1d = True
                            return me
                        return meth(uns)
                    if nm == "tolist":
                        return meth(lambda: me)
                raise Unsupported("%s.%s is not part of the descriptor (strict validation does not use it)" % (self.role, nm))

        class DS:
            fields = {"file_prefix": "p_", "file_suffix": ".pt", "data_dir": "d", "feat_subdir": "feat", "ali_subdir": "ali", "ref_subdir": "ref", "has_ali": has_ali, "has_ref": has_ref}

            def __vc_getattr__(self, I, nm):
                if nm == "utt_ids":
                    return type("Ids", (), {"__vc_getitem__": lambda s, I2, idx: "u"})()
                if nm in self.fields:
                    return self.fields[nm]
                raise Unsupported("data_set.%s" % nm)

            def __vc_len__(self, I):
                return U

        def thunk(I):
            import pydrobert.torch._datasets as dsm

            I.ex.ghost.update(k=None, wrote=False)
            I.stubs["posixpath.join"] = lambda I2, *a: ("join",) + tuple(a)

            def load(I2, pth, *a, **k):
                if not (isinstance(pth, tuple) and pth[0] == "join" and pth[-2] in ("feat", "ali", "ref") and pth[-1] == "p_u.pt" and I2.ex.ghost["k"] is not None):
                    raise Unsupported("torch.load(%r)" % (pth,))
                return TDesc(pth[-2], I2.ex.ghost["k"])

            def save(I2, obj, f=None, *a, **k):
                I2.ex.ghost["wrote"] = True

            I.stubs["torch.serialization.load"] = I.stubs["torch.load"] = load
            I.stubs["torch.serialization.save"] = I.stubs["torch.save"] = save
            I.stubs["torch.full"] = lambda I2, *a, **k: Opaque("full")
            I.stubs["torch.cat"] = lambda I2, ts, *a, **k: next(t for t in ts if isinstance(t, TDesc))
            I.stubs["builtins.enumerate"] = lambda I2, it, start=0: it if isinstance(it, TDesc) else [(start + n, x) for n, x in enumerate(I2.iterate(it))]
            return I.call(dsm._info_and_validate, [DS(), False, True], {"fix": None})

        class Utterances(LoopSpec):
            def run(self, I, s, f):
                c = I.ex.choose(4 if has_ref else 3)
                if c == 0:  # the loop is over: every utterance completed
                    I.ex.assume(z3.ForAll([i_], z3.Implies(z3.And(0 <= i_, i_ < U), WF(i_))))
                    I.ex.ghost["k"] = None
                    return
                if c == 1:  # the first utterance: nothing carried yet
                    k = z3.IntVal(0)
                    I.ex.assume(U >= 1)
                    carried = {"feat_dtype": None, "num_filts": None, "ref_is_2d": None}
                else:  # a later utterance: the state is utterance 0's; for references the two dimensionalities are two cases
                    k = I.ex.fresh("int", "utt")
                    I.ex.assume(z3.And(1 <= k, k < U))
                    I.ex.assume(z3.ForAll([i_], z3.Implies(z3.And(0 <= i_, i_ < k), WF(i_))))
                    I.ex.assume(WF(z3.IntVal(0)))
                    two_d = (c == 2)
                    if has_ref:
                        I.ex.assume(RND(0) == (2 if two_d else 1))
                    carried = {"feat_dtype": FDT(0), "num_filts": FF(0), "ref_is_2d": (two_d if has_ref else None)}
                for nm, v in carried.items():
                    ip.local(f, nm)
                    f.locals[nm] = v
                I.ex.ghost["k"] = k
                I.assign(s.target, k, f)
                I.exec_block(s.body, f)
                same = lambda a, b: z3.BoolVal(a is b) if (a is None or b is None or isinstance(a, bool) or isinstance(b, bool)) else ip.to_z3(a) == ip.to_z3(b)
                state_ok = z3.And(same(ip.local(f, "feat_dtype"), FDT(0)), same(ip.local(f, "num_filts"), FF(0)),
                                  same(ip.local(f, "ref_is_2d"), None) if not has_ref else z3.If(RND(0) == 2, same(ip.local(f, "ref_is_2d"), True), same(ip.local(f, "ref_is_2d"), False)))
                I.ex.oblige("utterance.completes_only_if_wellformed", WF(k))
                I.ex.oblige("utterance.state_is_that_of_the_first", state_ok)
                I.ex.oblige("utterance.nothing_written", z3.BoolVal(not I.ex.ghost["wrote"]))
                raise PathAbort()

        class Rows(LoopSpec):
            """for idx2, r in enumerate(ref): rows of a 2-D reference of utterance k"""

            def run(self, I, s, f):
                k = I.ex.ghost["k"]
                ip.local(f, "write_back")
                if I.ex.choose(2) == 0:
                    j = I.ex.fresh("int", "row")
                    I.ex.assume(z3.And(0 <= j, j < RN(k)))
                    I.ex.ghost["row"] = j
                    I.assign(s.target, (j, Vec([RTOK(k, j), RA(k, j), RB(k, j)])), f)
                    I.exec_block(s.body, f)
                    wb = ip.local(f, "write_back")
                    I.ex.oblige("row.completes_only_if_valid", row_ok(k, j))
                    I.ex.oblige("row.strict_mode_never_repairs", z3.BoolVal(wb is False))
                    raise PathAbort()
                I.ex.ghost["row"] = None
                I.ex.assume(z3.ForAll([j_], z3.Implies(z3.And(0 <= j_, j_ < RN(k)), row_ok(k, j_))))

        class Tokens(LoopSpec):
            """for tok, start, end in ref.tolist(): only rejects negative token ids (outside the property's domain)"""

            def run(self, I, s, f):
                k = I.ex.ghost["k"]
                if I.ex.choose(2) == 0:
                    j = I.ex.fresh("int", "tok_row")
                    I.ex.assume(z3.And(0 <= j, j < RN(k), RTOK(k, j) >= 0))  # domain: token ids are non-negative
                    I.assign(s.target, (RTOK(k, j), RA(k, j), RB(k, j)), f)
                    I.exec_block(s.body, f)
                    raise PathAbort()

        loopspecs = {("_info_and_validate", o_utt[0]): Utterances("utterances", None, None, None, {}), ("_info_and_validate", o_rows[0]): Rows("rows", None, None, None, {}),
                     ("_info_and_validate", o_toks[0]): Tokens("tokens", None, None, None, {})}

        def post(p):
            k = p.ghost.get("k")
            if p.outcome == "raise":
                if not api.raises(p, "ValueError"):
                    return [("only_ValueError_is_raised", z3.BoolVal(False))]
                if k is None:
                    return [("raises_only_inside_an_utterance", z3.BoolVal(False))]
                return [("raises_only_if_not_wellformed", z3.Not(WF(k))), ("nothing_written_before_raising", z3.BoolVal(not p.ghost["wrote"]))]
            if not api.returns(p):
                return False
            return [("returns_none_after_the_last_utterance", z3.BoolVal(p.value is None and k is None)), ("nothing_written", z3.BoolVal(not p.ghost["wrote"]))]

        return VC("C12.P.validate_iff_wellformed", name, M, "_info_and_validate", thunk, pre=[U >= 0], posts=[("accepts_exactly_wellformed_directories", post)], loops=loopspecs,
                  inputs={"num_utterances": U}, timeout_ms=30000, max_paths=4000,
                  twins=[("rejects_everything", lambda p: z3.BoolVal(False) if api.returns(p) else None)],
                  assumptions=["stored objects abstracted to descriptors (tensor?, dtype class, device, dimensions, sizes, rows of a 2-D reference) with torch's isinstance / ndim / size / device.type semantics on them; torch.load / torch.save / os.path.join abstracted",
                               "strict mode (fix=None), info=False: the fixing variants are C12.val.ref_bounds / ali_len (fragments, unbounded) and the bounded driver; token ids non-negative (the property's domain)",
                               "both loop-invariant rules applied outside the solver; message strings are not modelled"])

    return [make_vc(a, r) for a in (False, True) for r in (False, True)]
