"""C12, engine A part, S rung: sos/eos insertion and stripping are inverse.

The real `_load_ref` and `_write_hyp` sources are executed over a stored transcript of every length up to the bound with SYMBOLIC
token ids, symbolic sos / eos values (each configured or None) and symbolic junk symbols around the hypothesis:

  read     _load_ref(stored) = [sos] + stored + [eos]        (2-D: the added rows are (symbol, -1, -1); tokens_only: first column)
  strip    _write_hyp(pre + read + post) stores exactly `stored` (1-D) / its rows (2-D), where `pre` ends at or before an sos
           only if sos is configured (everything up to the LAST sos goes) and `post` starts after the eos (everything from the
           FIRST eos goes)

Preconditions (the property's domain): token ids are non-negative and differ from the configured sos and eos; sos != eos.
sos and eos themselves range over ALL integers - in particular 0, which `if eos:` style tests get wrong.
Complete over all contents for each shape; bounded in the transcript length -> labelled bounded.
"""
import itertools

import z3

from vf.pyvc import api, ctensor as ct, interp as ip
from vf.pyvc.api import VC

M = "pydrobert.torch._datasets"
SOS, EOS = z3.Ints("sos eos")


def soseos_vc(R, two_d, tokens_only, sos_set, eos_set, npre, npost):
    """npre: junk symbols before the sos (needs sos configured); npost: junk symbols after the eos (needs eos configured)"""
    name = "R%d[%s,tokens_only=%s,sos=%s,eos=%s,pre=%d,post=%d]" % (R, "2d" if two_d else "1d", tokens_only, sos_set, eos_set, npre, npost)
    toks = [z3.Int("tok_%d" % i) for i in range(R)]
    starts = [z3.Int("start_%d" % i) for i in range(R)]
    ends = [z3.Int("end_%d" % i) for i in range(R)]
    pre_sym = [z3.Int("pre_%d" % i) for i in range(npre)]
    post_sym = [z3.Int("post_%d" % i) for i in range(npost)]
    sos, eos = (SOS if sos_set else None), (EOS if eos_set else None)
    as_2d = two_d and not tokens_only  # what the data set hands out

    def stored():
        if two_d:
            a = ct.obj_array(0, (R, 3))
            for i in range(R):
                a[i, 0], a[i, 1], a[i, 2] = toks[i], starts[i], ends[i]
            return ct.CT(a, "long")
        a = ct.obj_array(0, (R,))
        for i in range(R):
            a[i] = toks[i]
        return ct.CT(a, "long")

    def rows(syms):
        if as_2d:
            a = ct.obj_array(-1, (len(syms), 3))
            for i, v in enumerate(syms):
                a[i, 0] = v
            return ct.CT(a, "long")
        a = ct.obj_array(0, (len(syms),))
        for i, v in enumerate(syms):
            a[i] = v
        return ct.CT(a, "long")

    def thunk(I):
        import pydrobert.torch._datasets as D

        saved = {}
        I.stubs["torch.serialization.load"] = I.stubs["torch.load"] = lambda I2, pth, *a, **k: stored()
        I.stubs["torch.serialization.save"] = I.stubs["torch.save"] = lambda I2, obj, pth, *a, **k: saved.__setitem__("hyp", obj)
        I.ex.ghost["saved"] = saved
        read = I.call(D._load_ref, ["ref/u.pt", tokens_only, sos, eos], {})
        I.ex.ghost["read"] = read
        hyp = ct.f_cat(I, [rows(pre_sym), read, rows(post_sym)], 0) if (npre or npost) else read
        I.call(D._write_hyp, [hyp, "hyp/u.pt", sos, eos], {})
        return read

    def cells(t):
        return [ip.to_z3(v) for v in t.a.reshape(-1)]

    def post_read(p):
        if not api.returns(p) or not isinstance(p.ghost.get("read"), ct.CT):
            return False
        read = p.ghost["read"]
        want_rows = []
        if sos_set:
            want_rows.append([SOS, -1, -1] if as_2d else [SOS])
        for i in range(R):
            want_rows.append([toks[i], starts[i], ends[i]] if as_2d else [toks[i]])
        if eos_set:
            want_rows.append([EOS, -1, -1] if as_2d else [EOS])
        want_shape = (len(want_rows), 3) if as_2d else (len(want_rows),)
        if tuple(read.shape) != want_shape:
            return False
        flat = [ip.to_z3(v) for row in want_rows for v in row]
        return z3.And([a == b for a, b in zip(cells(read), flat)]) if flat else z3.BoolVal(True)

    def post_strip(p):
        if not api.returns(p):
            return False
        back = p.ghost["saved"].get("hyp")
        if not isinstance(back, ct.CT):
            return False
        want_shape = (R, 3) if as_2d else (R,)
        if tuple(back.shape) != want_shape:
            return False
        flat = [ip.to_z3(v) for i in range(R) for v in ([toks[i], starts[i], ends[i]] if as_2d else [toks[i]])]
        return z3.And([a == b for a, b in zip(cells(back), flat)]) if flat else z3.BoolVal(True)

    pre = [t >= 0 for t in toks]
    if sos_set:
        pre += [t != SOS for t in toks]
    if eos_set:
        pre += [t != EOS for t in toks]
    if sos_set and eos_set:
        pre.append(SOS != EOS)
    # junk before the sos may hold anything, including further sos symbols (everything up to the LAST sos goes); junk after the
    # eos may hold anything, including further eos symbols (everything from the FIRST eos on goes) - but no sos, which would
    # move the "last sos" behind the transcript
    if sos_set:
        pre += [x != SOS for x in post_sym]
    inputs = {"sos": SOS, "eos": EOS}
    for i in range(R):
        inputs["tok_%d" % i] = toks[i]
    for i, x in enumerate(pre_sym):
        inputs["pre_%d" % i] = x
    for i, x in enumerate(post_sym):
        inputs["post_%d" % i] = x

    def replay(m):
        return replay_soseos(m, R, two_d, tokens_only, sos_set, eos_set, npre, npost)

    twins = [("stores_what_was_read", lambda p: z3.BoolVal(isinstance(p.ghost["saved"].get("hyp"), ct.CT) and tuple(p.ghost["saved"]["hyp"].shape) == tuple(p.ghost["read"].shape)) if api.returns(p) else None)] if (sos_set or eos_set) else []
    return VC("C12.S.soseos_inverse", name, M, "_write_hyp", thunk, pre=pre, posts=[("read_wraps_every_transcript", post_read), ("write_stores_the_bare_transcript", post_strip)],
              twins=twins, inputs=inputs, replay=replay, max_paths=3000,
              assumptions=["torch.load / torch.save abstracted to the stored / written tensor (the file system round trip is the bounded driver's)",
                           "nonzero(1-D): indices of the true entries in increasing order; cat, new_full, slicing as in vf/pyvc/ctensor.py",
                           "domain: token ids non-negative and different from the configured sos / eos; sos != eos; symbols after the eos are not sos (symbols before the sos are arbitrary, further sos / eos included)"])


def replay_soseos(m, R, two_d, tokens_only, sos_set, eos_set, npre, npost):
    """native replay of a counter-model: build the stored transcript, read it, write it back, compare"""
    import os
    import tempfile
    import warnings

    import torch
    from pydrobert.torch import _datasets as D

    def g(k, d=0):
        v = m.get(k, d)
        return int(v) if v is not None else d

    sos, eos = (g("sos") if sos_set else None), (g("eos") if eos_set else None)
    toks = [g("tok_%d" % i) for i in range(R)]
    if any(abs(x) > 2 ** 40 for x in toks + [sos or 0, eos or 0]):
        return None
    stored = torch.tensor([[t, i, i + 1] for i, t in enumerate(toks)], dtype=torch.long).view(R, 3) if two_d else torch.tensor(toks, dtype=torch.long)
    as_2d = two_d and not tokens_only
    with tempfile.TemporaryDirectory() as tmp, warnings.catch_warnings():
        warnings.simplefilter("ignore")
        torch.save(stored, os.path.join(tmp, "u.pt"))
        read = D._load_ref(os.path.join(tmp, "u.pt"), tokens_only, sos, eos)
        want = ([sos] if sos_set else []) + toks + ([eos] if eos_set else [])
        got = (read[:, 0] if read.dim() == 2 else read).tolist()
        if got != want:
            return "reading tokens %s with sos=%s eos=%s gives %s, expected %s" % (toks, sos, eos, got, want)

        def rows(syms):
            t = torch.tensor(syms, dtype=torch.long)
            if as_2d:
                t = torch.cat([t.view(-1, 1), torch.full((len(syms), 2), -1, dtype=torch.long)], 1)
            return t

        hyp = torch.cat([rows([g("pre_%d" % i) for i in range(npre)]), read, rows([g("post_%d" % i) for i in range(npost)])], 0)
        D._write_hyp(hyp, os.path.join(tmp, "h.pt"), sos, eos)
        back = torch.load(os.path.join(tmp, "h.pt"))
        bare = stored if as_2d or not two_d else stored[:, 0]
        if back.shape != bare.shape or not torch.equal(back, bare):
            return "write_hyp(%s) with sos=%s eos=%s stored %s, expected the bare transcript %s" % (hyp.tolist(), sos, eos, back.tolist(), bare.tolist())
    return None


def vcs(ctx):
    out = []
    Rmax = 2 if ctx.quick else 3
    for R in range(0, Rmax + 1):
        for two_d, tokens_only in ((False, False), (True, False), (True, True)):
            for sos_set, eos_set in itertools.product((False, True), repeat=2):
                out.append(soseos_vc(R, two_d, tokens_only, sos_set, eos_set, 0, 0))
                if (sos_set or eos_set) and (R <= 1 or not ctx.quick):
                    out.append(soseos_vc(R, two_d, tokens_only, sos_set, eos_set, 2 if sos_set else 0, 2 if eos_set else 0))
    return out
