"""C14 (bounded, engine B) - batching loses nothing: buckets, loaders and collation preserve every utterance.

Run-time contracts on the real functions / classes of pydrobert.torch (_dataloaders.py, _datasets.py)
    BucketBatchSampler.__iter__                       C14.bucket.iter
    _get_batch_sampler_len (+ real epoch samplers)     C14.len.formula
    _get_bucket_batch_sampler_params                  C14.params.purity
    spect_seq_to_batch, lang_seq_to_batch,
    context_window_seq_to_batch                       C14.collate.lossless
    extract_window                                    C14.window.post
    SpectDataLoader                                   C14.loader.spect
    LangDataLoader                                    C14.loader.lang
    ContextWindowDataLoader (+ ContextWindowDataSet)  C14.loader.window
    SpectDataLoader / LangDataLoader under a (mocked) torch.distributed process group   C14.loader.dist
    Spect{Training,Evaluation}DataLoader, ContextWindow{Training,Evaluation}DataLoader C14.loader.deprecated
against specs written from the property text:

  buckets    Let S_b be the sub-sequence of the sampler's output that falls in bucket b. The batches of bucket b, in
             the order they are yielded, are consecutive chunks of S_b of exactly size(b) indices; only the last chunk
             of a bucket may be shorter, only if incomplete batches are kept, and no full batch is yielded after a
             short one. Kept: the chunks cover S_b. Dropped: exactly |S_b| mod size(b) trailing indices of S_b are in
             no batch.  (spec_bucket_batches)
  len        the reported length is the number of batches the next iteration yields.
  purity     buckets are length classes: the [shortest, longest] length ranges of two different buckets do not
             overlap (so equal lengths share a bucket), at most num_length_buckets classes, every index classified,
             every class has a positive size; size = batch_size, or with dynamic sizing the greatest x with
             x * (longest length in the class) <= (longest length in the corpus) * batch_size; all lengths distinct
             and num_length_buckets <= n  =>  exactly num_length_buckets classes ("partitioned into
             num_length_buckets").  (spec_params)
  collation  cutting row n back to its reported size gives the original tensors of ONE utterance (the one whose id
             sits at position n when ids are delivered), every cell beyond holds the pad value (0 for features,
             config.INDEX_PAD_VALUE for alignments and references), every utterance of the batch is some row.
  loaders    the above end to end on generated data directories, plus: identical batches for identical (seed, epoch)
             whether the epoch is reached by iterating, by init_epoch or by assigning .epoch.

The order the epoch samplers produce is taken from the real sampler (get_samples_for_epoch; its contract is
property C13's business).
"""
import itertools
import os
import random
import tempfile
import warnings

SOS, EOS = 7, 8
_MISSING = object()

# ---------------------------------------------------------------------------------------------------------------
# the independent specs (pure Python on lists / dicts)


def spec_bucket_batches(order, bucket_of, size_of, drop, got, ordered=True):
    """order: indices as the sampler produced them; bucket_of: index -> bucket id; size_of: bucket id -> size;
    got: the yielded batches (lists of indices). ordered=False compares each batch as a multiset (rows re-sorted
    by the collation)."""
    per = {}
    for i in order:
        per.setdefault(bucket_of[i], []).append(i)
    pos = dict((b, 0) for b in per)
    seen_short = False
    for k, batch in enumerate(got):
        batch = list(batch)
        if not batch:
            return "batch %d is empty" % k
        bs = set()
        for i in batch:
            b = bucket_of.get(i, _MISSING)
            if b is _MISSING:
                return "batch %d holds %r which has no bucket" % (k, i)
            bs.add(b)
        if len(bs) != 1:
            return "batch %d %s mixes buckets %s" % (k, batch, sorted(map(repr, bs)))
        b = bs.pop()
        if b not in per:
            return "batch %d %s is of bucket %r, of which the sampler produced nothing" % (k, batch, b)
        size = size_of[b]
        if len(batch) > size:
            return "batch %d %s is larger than its bucket's size %d" % (k, batch, size)
        want = per[b][pos[b]:pos[b] + len(batch)]
        if (batch != want) if ordered else (sorted(batch) != sorted(want)):
            return "batch %d %s is not the next %d indices of bucket %r in sampler order (%s of %s)" % (k, batch, len(batch), b, want, per[b])
        pos[b] += len(batch)
        if len(batch) < size:
            if drop:
                return "batch %d %s is short (bucket size %d) though incomplete batches are dropped" % (k, batch, size)
            if pos[b] != len(per[b]):
                return "batch %d %s is short (bucket size %d) but is not the last of its bucket" % (k, batch, size)
            seen_short = True
        elif seen_short:
            return "full batch %d %s is yielded after a short one (only trailing batches may be short)" % (k, batch)
    for b in per:
        rest = len(per[b]) - pos[b]
        if drop:
            if rest != len(per[b]) % size_of[b]:
                return "bucket %r (size %d): %d of the %d indices the sampler produced are in no batch; only the %d of its incomplete batch may be lost" % (
                    b, size_of[b], rest, len(per[b]), len(per[b]) % size_of[b])
        elif rest:
            return "bucket %r: indices %s the sampler produced are in no batch" % (b, per[b][pos[b]:])
    return None


def spec_params(lens, nb, bs, dyn, idx2bucket, bucket2size):
    n = len(lens)
    if set(idx2bucket) != set(range(n)):
        return "classified indices %s are not 0..%d" % (sorted(idx2bucket), n - 1)
    used = {}
    for i in range(n):
        used.setdefault(idx2bucket[i], []).append(lens[i])
    if len(used) > nb:
        return "%d length classes, more than num_length_buckets=%d" % (len(used), nb)
    ranges = sorted((min(v), max(v), repr(b)) for b, v in used.items())
    for (lo1, hi1, b1), (lo2, hi2, b2) in zip(ranges, ranges[1:]):
        if lo2 <= hi1:
            return "buckets %s (lengths %d..%d) and %s (lengths %d..%d) are not disjoint length classes" % (b1, lo1, hi1, b2, lo2, hi2)
    if n and len(set(lens)) == n and nb <= n and len(used) != nb:
        return "all lengths distinct and num_length_buckets=%d <= %d utterances, but %d length classes" % (nb, n, len(used))
    top = max(lens) if n else 0
    for b, v in used.items():
        if b not in bucket2size:
            return "bucket %r has no size" % (b,)
        s = bucket2size[b]
        if not isinstance(s, int) or isinstance(s, bool) or s < 1:
            return "bucket %r has size %r, not a positive integer" % (b, s)
        if not dyn:
            if s != bs:
                return "bucket %r has size %d, batch_size is %d" % (b, s, bs)
        elif max(v) > 0:
            want = (top * bs) // max(v)
            if s != want:
                return "dynamic size of bucket %r (longest %d, corpus longest %d, batch_size %d) is %d, the greatest x with x*%d <= %d is %d" % (
                    b, max(v), top, bs, s, max(v), top * bs, want)
    return None


def spec_window(feat_rows, t, left, right, reverse):
    """feat_rows: list of T frames (lists); the window around frame t, edge-replicated"""
    T = len(feat_rows)
    win = [feat_rows[min(max(t - left + k, 0), T - 1)] for k in range(1 + left + right)]
    return win[::-1] if reverse else win


# ---------------------------------------------------------------------------------------------------------------
# data


def _feat(i, L, F=2):
    import torch

    return torch.arange(L * F, dtype=torch.float32).view(L, F) + (1 + 100 * (i + 1))  # never 0


def _ali(i, L):
    import torch

    return torch.arange(L) + 100 * (i + 1)  # never the pad value


def _ref(i, R, three):
    import torch

    tok = torch.arange(R) + 100 * (i + 1)
    if three:
        return torch.stack([tok, torch.arange(R), torch.arange(R) + 1], -1)
    return tok


def _uid(i):
    return "u%02d" % i


def _with_dist(rank, world, fn):
    import torch.distributed as d

    saved = (d.is_available, d.is_initialized, d.get_rank, d.get_world_size)
    try:
        d.is_available = lambda: True
        d.is_initialized = lambda: world is not None
        d.get_rank = lambda *a, **k: rank
        d.get_world_size = lambda *a, **k: world
        return fn()
    finally:
        d.is_available, d.is_initialized, d.get_rank, d.get_world_size = saved


def _quiet():
    cm = warnings.catch_warnings()
    cm.__enter__()
    warnings.simplefilter("ignore")
    return cm


def _norm(o):
    import torch

    if isinstance(o, torch.Tensor):
        return (str(o.dtype), list(o.shape), o.tolist())
    if isinstance(o, (tuple, list)):
        return [_norm(x) for x in o]
    return o


# ---------------------------------------------------------------------------------------------------------------
# C14.bucket.iter


def check_bucket_iter(case):
    """case: {order: sampler output, bk: bucket number per index 0..M-1, sizes: size per bucket number, drop,
    labels: optional bucket ids (default the numbers)}"""
    import pydrobert.torch._dataloaders as dl

    order, bk, sizes, drop = list(case["order"]), case["bk"], case["sizes"], bool(case["drop"])
    labels = case.get("labels") or list(range(len(sizes)))
    idx2bucket = dict((i, labels[b]) for i, b in enumerate(bk))
    bucket2size = dict((labels[b], s) for b, s in enumerate(sizes))
    sampler = dl.BucketBatchSampler(list(order), dict(idx2bucket), dict(bucket2size), drop)
    got = [list(b) for b in sampler]
    msg = spec_bucket_batches(order, idx2bucket, bucket2size, drop, got)
    if msg:
        return msg
    again = [list(b) for b in sampler]
    if again != got:
        return "second iteration over the same sampler output gives %s, first gave %s" % (again, got)
    if sampler.idx2bucket != idx2bucket or sampler.bucket2size != bucket2size:
        return "iteration changed the bucket maps"
    return None


def _orders(M, variants):
    ident = list(range(M))
    out = {"id": ident, "rev": ident[::-1], "stride": ident[1::2] + ident[0::2], "sub": ident[0::2], "rep": ident + ident[:2]}
    return [out[v] for v in variants]


def bucket_bound(ctx):
    return dict(M=5, smax=3, nrand=0) if ctx.quick else dict(M=6, smax=4, nrand=20000)


def cases_bucket_iter(ctx):
    b = bucket_bound(ctx)
    variants = ("id", "rev", "sub", "rep") if ctx.quick else ("id", "rev", "stride", "sub", "rep")
    for B in (1, 2, 3):
        for M in range(b["M"] + 1):
            for bk in itertools.product(range(B), repeat=M):
                for sizes in itertools.product(range(1, b["smax"] + 1), repeat=B):
                    seen = set()
                    for order in _orders(M, variants):
                        if tuple(order) in seen:
                            continue
                        seen.add(tuple(order))
                        for drop in (False, True):
                            yield {"order": order, "bk": list(bk), "sizes": list(sizes), "drop": drop}
    # non-integer bucket ids (flush order of the left-overs follows the ids, not the numbers)
    for M in range(5):
        for bk in itertools.product(range(2), repeat=M):
            for sizes in itertools.product((1, 2, 3), repeat=2):
                for drop in (False, True):
                    yield {"order": list(range(M)), "bk": list(bk), "sizes": list(sizes), "drop": drop, "labels": ["z", "a"]}
    rng = random.Random(ctx.seed + 1401)
    for _ in range(b["nrand"]):
        M, B = rng.randint(0, 30), rng.randint(1, 5)
        order = list(range(M))
        rng.shuffle(order)
        order = order[:rng.randint(0, M)] if rng.random() < 0.3 else order
        yield {"order": order, "bk": [rng.randrange(B) for _ in range(M)], "sizes": [rng.randint(1, 6) for _ in range(B)], "drop": rng.random() < 0.5,
               "labels": rng.choice([None, ["b%d" % ((7 * j) % 5) for j in range(B)]])}


# ---------------------------------------------------------------------------------------------------------------
# C14.len.formula


def check_len_formula(case):
    """case: {N, bk (bucket per index), sizes, drop, shuffle, seed, W (None = no process group), mode}"""
    import pydrobert.torch._dataloaders as dl
    import torch

    n, bk, sizes, drop, W = case["N"], case["bk"], case["sizes"], bool(case["drop"]), case["W"]
    idx2bucket = dict(enumerate(bk))
    bucket2size = dict(enumerate(sizes))
    ds = list(range(n))
    per_epoch = {}
    for rank in range(W or 1):
        def mk():
            if case["shuffle"]:
                return dl.EpochRandomSampler(ds, base_seed=case["seed"], on_uneven_distributed=case["mode"])
            return dl.EpochSequentialSampler(ds, on_uneven_distributed=case["mode"])

        utt = _with_dist(rank, W, mk)
        bsamp = dl.BucketBatchSampler(utt, idx2bucket, bucket2size, drop)
        for ep in range(2):
            order = [int(i) for i in utt.get_samples_for_epoch(ep)]
            reported = dl._get_batch_sampler_len(bsamp)
            got = [[int(i) for i in b] for b in bsamp]
            if reported != len(got):
                return "rank %d epoch %d: _get_batch_sampler_len reports %d, the iteration yields %d batches %s" % (rank, ep, reported, len(got), got)
            msg = spec_bucket_batches(order, idx2bucket, bucket2size, drop, got)
            if msg:
                return "rank %d epoch %d: %s" % (rank, ep, msg)
            per_epoch.setdefault(ep, []).extend(i for b in got for i in b)
    for ep, flat in per_epoch.items():
        if case["mode"] != "ignore" and len(set(flat)) != len(flat):
            return "epoch %d: an index is batched on two ranks: %s" % (ep, sorted(flat))
    # the other branch: a plain BatchSampler reports its own length
    plain = torch.utils.data.BatchSampler(dl.EpochSequentialSampler(ds), sizes[0], drop_last=drop)
    if dl._get_batch_sampler_len(plain) != len(list(plain)):
        return "BatchSampler: reported %d, yields %d" % (dl._get_batch_sampler_len(plain), len(list(plain)))
    return None


def len_bound(ctx):
    return dict(N2=5, N3=4, nrand=0) if ctx.quick else dict(N2=6, N3=5, nrand=5000)


def cases_len_formula(ctx):
    b = len_bound(ctx)
    worlds = [(None, "raise"), (2, "uneven"), (2, "drop"), (3, "uneven"), (3, "drop")]
    for B, nmax, svals in ((1, b["N2"], (1, 2, 3)), (2, b["N2"], (1, 2, 3)), (3, b["N3"], (1, 2))):
        for n in range(nmax + 1):
            for bk in itertools.product(range(B), repeat=n):
                if B == 3 and len(set(bk)) < 3 and n >= 3:
                    continue  # covered with B=2 up to renaming
                for sizes in itertools.product(svals, repeat=B):
                    for drop in (False, True):
                        for shuffle in (False, True):
                            for W, mode in (worlds if B < 3 else worlds[:2] + worlds[-1:]):
                                yield {"N": n, "bk": list(bk), "sizes": list(sizes), "drop": drop, "shuffle": shuffle, "seed": 3 + ctx.seed, "W": W, "mode": mode}
    rng = random.Random(ctx.seed + 1402)
    for _ in range(b["nrand"]):
        n, B = rng.randint(0, 40), rng.randint(1, 5)
        W = rng.choice([None, 2, 3, 4, 5])
        yield {"N": n, "bk": [rng.randrange(B) for _ in range(n)], "sizes": [rng.randint(1, 6) for _ in range(B)], "drop": rng.random() < 0.5,
               "shuffle": rng.random() < 0.7, "seed": rng.randrange(2 ** 31 - 1), "W": W, "mode": "raise" if W is None else rng.choice(["uneven", "drop", "ignore"])}


# ---------------------------------------------------------------------------------------------------------------
# C14.params.purity


def check_params(case):
    """case: {lens, nb, bs, dyn}"""
    import pydrobert.torch._dataloaders as dl
    import torch

    lens, nb, bs, dyn = case["lens"], case["nb"], case["bs"], bool(case["dyn"])
    dataset = [(torch.empty(L, 1), None) for L in lens]
    cm = _quiet()
    try:
        idx2bucket, bucket2size = dl._get_bucket_batch_sampler_params(dataset, nb, bs, dyn)
    finally:
        cm.__exit__(None, None, None)
    return spec_params(lens, nb, bs, dyn, idx2bucket, bucket2size)


def params_bound(ctx):
    return dict(n=5, lmax=3, nbmax=4, bsmax=3, nrand=0) if ctx.quick else dict(n=6, lmax=3, nbmax=5, bsmax=4, nrand=20000)


def cases_params(ctx):
    yield from _regressions("C14.params.purity")
    b = params_bound(ctx)
    for n in range(b["n"] + 1):
        for lens in itertools.product(range(b["lmax"] + 1), repeat=n):
            for nb in range(1, b["nbmax"] + 1):
                for bs in range(1, b["bsmax"] + 1):
                    for dyn in (False, True):
                        yield {"lens": list(lens), "nb": nb, "bs": bs, "dyn": dyn}
    rng = random.Random(ctx.seed + 1403)
    for _ in range(b["nrand"]):
        n = rng.randint(0, 40)
        top = rng.choice([3, 8, 30, 200])
        yield {"lens": [rng.randint(0 if rng.random() < 0.2 else 1, top) for _ in range(n)], "nb": rng.randint(1, 8), "bs": rng.randint(1, 10), "dyn": rng.random() < 0.5}


# ---------------------------------------------------------------------------------------------------------------
# C14.collate.lossless


def _padded_rows(name, t, bf, N, originals, pad):
    """t: padded batch tensor; originals: the N tensors expected in rows 0..N-1 (already in row order).
    Checks shape, the cut-back rows and the padding cells."""
    import torch

    if not isinstance(t, torch.Tensor):
        return "%s is %r, not a tensor" % (name, type(t).__name__)
    top = max(o.size(0) for o in originals)
    trail = list(originals[0].shape[1:])
    want_shape = ([N, top] if bf else [top, N]) + trail
    if list(t.shape) != want_shape:
        return "%s has shape %s, expected %s" % (name, list(t.shape), want_shape)
    if t.dtype != originals[0].dtype:
        return "%s has dtype %s, the utterances have %s" % (name, t.dtype, originals[0].dtype)
    for n in range(N):
        row = t[n] if bf else t[:, n]
        L = originals[n].size(0)
        if not torch.equal(row[:L], originals[n]):
            return "%s row %d cut back to its size %d is %s, the utterance has %s" % (name, n, L, row[:L].tolist(), originals[n].tolist())
        if not bool((row[L:] == pad).all()):
            return "%s row %d has padding cells %s, not all the pad value %r" % (name, n, row[L:].tolist(), pad)
    return None


def _sizes(name, t, want):
    import torch

    if not isinstance(t, torch.Tensor) or t.dim() != 1 or t.tolist() != list(want) or t.dtype != torch.long:
        return "%s is %s, expected the long vector %s" % (name, _norm(t), list(want))
    return None


def _find_perm(N, sort, ids_in, ids_out, consistent, keylens):
    """Which input utterance is each row? ids fix it when delivered; otherwise any assignment consistent with the
    contents. Returns (perm, msg)."""
    if ids_out is not None:
        if not isinstance(ids_out, tuple) or sorted(ids_out) != sorted(ids_in):
            return None, "utterance ids %r are not the batch's ids %r" % (ids_out, ids_in)
        perms = [[ids_in.index(u) for u in ids_out]]
    elif not sort:
        perms = [list(range(N))]
    else:
        perms = [list(p) for p in itertools.permutations(range(N))]
    msg = None
    for p in perms:
        m = consistent(p)
        if m is None:
            if not sort and p != list(range(N)):
                return None, "rows are reordered (%s) without sorting" % p
            if sort and any(keylens[p[k]] < keylens[p[k + 1]] for k in range(N - 1)):
                return None, "sorted batch has row lengths %s, not descending" % [keylens[i] for i in p]
            return p, None
        msg = msg or m
    return None, msg


def _collate_spect(case):
    import pydrobert.torch._dataloaders as dl
    from pydrobert.torch import config

    T, R, N = case["T"], case["R"], len(case["T"])
    bf, sort, has_alis, has_uttids = case["bf"], case["sort"], case["has_alis"], case["has_uttids"]
    feats = [_feat(i, T[i], case.get("F", 2)) for i in range(N)]
    alis = [_ali(i, T[i]) if case["ali"] else None for i in range(N)]
    refs = [_ref(i, R[i], case["ref3"]) if R is not None else None for i in range(N)]
    ids = [_uid(N - 1 - i) for i in range(N)]
    seq = []
    for i in range(N):
        item = (feats[i],) + ((alis[i],) if has_alis else ()) + (refs[i],) + ((ids[i],) if has_uttids else ())
        seq.append(item)
    out = dl.spect_seq_to_batch(list(seq), bf, sort, has_alis, has_uttids)
    if not isinstance(out, tuple) or len(out) != 4 + has_alis + has_uttids:
        return "returned %d values, expected %d" % (len(out), 4 + has_alis + has_uttids)
    out = list(out)
    o_ids = out.pop() if has_uttids else None
    o_feats = out.pop(0)
    o_alis = out.pop(0) if has_alis else None
    o_refs, o_fs, o_rs = out

    def consistent(p):
        m = _padded_rows("feats", o_feats, bf, N, [feats[i] for i in p], 0) or _sizes("feat_sizes", o_fs, [T[i] for i in p])
        if m:
            return m
        if has_alis and case["ali"]:
            m = _padded_rows("alis", o_alis, bf, N, [alis[i] for i in p], config.INDEX_PAD_VALUE)
        elif o_alis is not None:
            m = "alis delivered though the utterances have none"
        if m:
            return m
        if R is not None:
            return _padded_rows("refs", o_refs, bf, N, [refs[i] for i in p], config.INDEX_PAD_VALUE) or _sizes("ref_sizes", o_rs, [R[i] for i in p])
        if o_refs is not None or o_rs is not None:
            return "refs/ref_sizes delivered though the utterances have none"
        return None

    return _find_perm(N, sort, ids, o_ids, consistent, T)[1]


def _collate_lang(case):
    import pydrobert.torch._dataloaders as dl
    from pydrobert.torch import config

    R, N = case["R"], len(case["R"])
    bf, sort, has_uttids = case["bf"], case["sort"], case["has_uttids"]
    refs = [_ref(i, R[i], case["ref3"]) for i in range(N)]
    ids = [_uid(N - 1 - i) for i in range(N)]
    seq = [(refs[i], ids[i]) if has_uttids else refs[i] for i in range(N)]
    out = dl.lang_seq_to_batch(list(seq), bf, sort, has_uttids)
    if not isinstance(out, tuple) or len(out) != 2 + has_uttids:
        return "returned %d values, expected %d" % (len(out), 2 + has_uttids)
    o_refs, o_rs = out[0], out[1]
    o_ids = out[2] if has_uttids else None

    def consistent(p):
        return _padded_rows("refs", o_refs, bf, N, [refs[i] for i in p], config.INDEX_PAD_VALUE) or _sizes("ref_sizes", o_rs, [R[i] for i in p])

    return _find_perm(N, sort, ids, o_ids, consistent, R)[1]


def _windows_of(i, T, C, F):
    import torch

    return torch.arange(T * C * F, dtype=torch.float32).view(T, C, F) + 1000 * (i + 1)


def _collate_window(case):
    import pydrobert.torch._dataloaders as dl
    import torch

    T, C, F, N, has_uttids = case["T"], case["C"], case.get("F", 2), len(case["T"]), case["has_uttids"]
    wins = [_windows_of(i, T[i], C, F) for i in range(N)]
    alis = [_ali(i, T[i]) if case["ali"] else None for i in range(N)]
    ids = [_uid(N - 1 - i) for i in range(N)]
    seq = [(wins[i], alis[i]) + ((ids[i],) if has_uttids else ()) for i in range(N)]
    out = dl.context_window_seq_to_batch(list(seq), has_uttids)
    if not isinstance(out, tuple) or len(out) != (4 if has_uttids else 2):
        return "returned %d values, expected %d" % (len(out), 4 if has_uttids else 2)
    o_w, o_a = out[0], out[1]
    if list(o_w.shape) != [sum(T), C, F]:
        return "windows have shape %s, expected %s" % (list(o_w.shape), [sum(T), C, F])
    if has_uttids:
        m = _sizes("window_sizes", out[2], T)
        if m:
            return m
        if out[3] != tuple(ids):
            return "utterance ids %r, expected %r" % (out[3], tuple(ids))
        cuts = torch.split(o_w, out[2].tolist())
    else:
        cuts = torch.split(o_w, T)
    for n in range(N):
        if not torch.equal(cuts[n], wins[n]):
            return "windows of utterance %d cut back out of the batch differ from the original" % n
    if case["ali"]:
        if not isinstance(o_a, torch.Tensor) or not torch.equal(o_a, torch.cat(alis)):
            return "alis %s are not the concatenated alignments %s" % (_norm(o_a), torch.cat(alis).tolist())
    elif o_a is not None:
        return "alis delivered though the utterances have none"
    return None


def check_collate(case):
    return {"spect": _collate_spect, "lang": _collate_lang, "window": _collate_window}[case["fn"]](case)


def collate_bound(ctx):
    return dict(ns=3, nl=4, tmax=3, nrand=0) if ctx.quick else dict(ns=4, nl=5, tmax=3, nrand=5000)


def _rpatterns(T):
    n = len(T)
    return [None, [(T[i] + i) % 4 for i in range(n)], [3 - T[i] for i in range(n)]]


def cases_collate(ctx):
    b = collate_bound(ctx)
    bools = (False, True)
    for N in range(1, b["ns"] + 1):
        for T in itertools.product(range(b["tmax"] + 1), repeat=N):
            for R in _rpatterns(T):
                for ref3 in (bools if R is not None else (False,)):
                    for ali, bf, sort, has_alis, has_uttids in itertools.product(bools, repeat=5):
                        if ali and not has_alis:
                            continue
                        yield {"fn": "spect", "T": list(T), "R": R, "ref3": ref3, "ali": ali, "bf": bf, "sort": sort, "has_alis": has_alis, "has_uttids": has_uttids}
    for N in range(1, b["nl"] + 1):
        for R in itertools.product(range(b["tmax"] + 1), repeat=N):
            for ref3, bf, sort, has_uttids in itertools.product(bools, repeat=4):
                yield {"fn": "lang", "R": list(R), "ref3": ref3, "bf": bf, "sort": sort, "has_uttids": has_uttids}
    for N in range(1, b["ns"] + 1):
        for T in itertools.product(range(b["tmax"] + 1), repeat=N):
            for C in (1, 3):
                for ali, has_uttids in itertools.product(bools, repeat=2):
                    yield {"fn": "window", "T": list(T), "C": C, "ali": ali, "has_uttids": has_uttids}
    rng = random.Random(ctx.seed + 1404)
    for _ in range(b["nrand"]):
        N = rng.randint(1, 8)
        T = [rng.randint(0, 12) for _ in range(N)]
        fn = rng.choice(["spect", "spect", "lang", "window"])
        flags = [rng.random() < 0.5 for _ in range(6)]
        if fn == "spect":
            has_alis = flags[3] or flags[0]
            yield {"fn": fn, "T": T, "R": rng.choice([None, [rng.randint(0, 9) for _ in range(N)]]), "ref3": flags[5], "ali": flags[0], "bf": flags[1], "sort": flags[2],
                   "has_alis": has_alis, "has_uttids": flags[4], "F": rng.randint(1, 4)}
        elif fn == "lang":
            yield {"fn": fn, "R": T, "ref3": flags[5], "bf": flags[1], "sort": flags[2], "has_uttids": flags[4]}
        else:
            yield {"fn": fn, "T": T, "C": rng.randint(1, 5), "F": rng.randint(1, 3), "ali": flags[0], "has_uttids": flags[4]}


# ---------------------------------------------------------------------------------------------------------------
# C14.window.post


def check_window(case):
    """case: {T, F, idx, left, right, reverse}"""
    import pydrobert.torch._datasets as dsm
    import torch

    T, F, t, left, right, reverse = case["T"], case["F"], case["idx"], case["left"], case["right"], bool(case["reverse"])
    feat = _feat(0, T, F)
    keep = feat.clone()
    got = dsm.extract_window(feat, t, left, right, reverse)
    want = spec_window(keep.tolist(), t, left, right, reverse)
    if list(got.shape) != [1 + left + right, F]:
        return "window has shape %s, expected %s" % (list(got.shape), [1 + left + right, F])
    if got.tolist() != want:
        return "window is %s, edge replication gives %s" % (got.tolist(), want)
    if not torch.equal(feat, keep):
        return "extract_window modified the features"
    return None


def cases_window(ctx):
    tmax = 5 if ctx.quick else 7
    for T in range(1, tmax + 1):
        for t in range(T):
            for left in range(T + 2):
                for right in range(T + 2):
                    for reverse in (False, True):
                        yield {"T": T, "F": 1 + (T + left) % 2, "idx": t, "left": left, "right": right, "reverse": reverse}


# ---------------------------------------------------------------------------------------------------------------
# loaders on generated data directories


def _ref_len(kind, L, i):
    # with sos/eos the stored reference is never empty: how _load_ref treats an empty transcript is C12's business
    return 1 + (L + 2 * i) % 3 if kind == "1d+se" else (L + 2 * i) % 4


def _tmp():
    shm = "/dev/shm"
    return tempfile.TemporaryDirectory(prefix="c14_", dir=shm if os.path.isdir(shm) and os.access(shm, os.W_OK) else None)


def _build_spect_dir(root, lens, refkind, with_ali, f64=False):
    """writes the directory, returns per utterance the tensors as stored: (feat, ali|None, ref|None); f64: float64 features
    whose values float32 cannot represent (x + 1/3)"""
    import torch

    os.makedirs(os.path.join(root, "feat"))
    if with_ali:
        os.makedirs(os.path.join(root, "ali"))
    if refkind != "none":
        os.makedirs(os.path.join(root, "ref"))
    utts = []
    for i, L in enumerate(lens):
        feat, ali, ref = _feat(i, L), None, None
        if f64:
            feat = feat.double() + 1.0 / 3.0
        torch.save(feat, os.path.join(root, "feat", _uid(i) + ".pt"))
        if with_ali:
            ali = _ali(i, L)
            torch.save(ali, os.path.join(root, "ali", _uid(i) + ".pt"))
        if refkind != "none":
            ref = _ref(i, _ref_len(refkind, L, i), refkind == "3d")  # refkind "1d+se" stores plain tokens
            torch.save(ref, os.path.join(root, "ref", _uid(i) + ".pt"))
        utts.append((feat, ali, ref))
    return utts


def _soseos(ref, on):
    import torch

    if ref is None or not on:
        return ref
    return torch.cat([torch.tensor([SOS]), ref, torch.tensor([EOS])])


def _row(t, n, bf):
    return t[n] if bf else t[:, n]


def _padded_field(name, t, bf, N, sizes, expected_rows, pad, k):
    """sizes: reported sizes of the N rows; expected_rows[n] the original tensor of the utterance identified for row n"""
    import torch

    top = max(sizes) if sizes else 0
    trail = list(expected_rows[0].shape[1:])
    want_shape = ([N, top] if bf else [top, N]) + trail
    if list(t.shape) != want_shape:
        return "batch %d: %s has shape %s, expected %s" % (k, name, list(t.shape), want_shape)
    for n in range(N):
        row = _row(t, n, bf)
        L = sizes[n]
        if L != expected_rows[n].size(0) or not torch.equal(row[:L], expected_rows[n]):
            return "batch %d row %d: %s cut back to its reported size %d is %s, the utterance has %s" % (k, n, name, L, row[:L].tolist(), expected_rows[n].tolist())
        if not bool((row[L:] == pad).all()):
            return "batch %d row %d: %s padding cells %s are not all %r" % (k, n, name, row[L:].tolist(), pad)
    return None


def _identify(N, ids, o_ids, used, matches, k, order=None):
    """Map each row to an utterance index not delivered before in this epoch. ids: all utterance ids in index order;
    o_ids: the ids delivered with the batch or None; matches(n, i): row n has the contents of utterance i.
    Without ids, utterances of identical contents (two empty transcripts) cannot be told apart by any observer: among the
    matching candidates the one earliest in the sampler's order is taken (identical contents have identical length, hence
    one bucket, and a bucket is emptied in sampler order) - a swap among them is not an observable difference."""
    rows = []
    if o_ids is not None and (not isinstance(o_ids, tuple) or len(o_ids) != N):
        return None, "batch %d: utterance ids %r do not number the %d rows" % (k, o_ids, N)
    for n in range(N):
        if o_ids is not None:
            if o_ids[n] not in ids:
                return None, "batch %d row %d: unknown utterance id %r" % (k, n, o_ids[n])
            cand = [ids.index(o_ids[n])]
            if cand[0] in used:
                return None, "batch %d row %d: utterance %s is delivered twice in one epoch" % (k, n, o_ids[n])
        else:
            cand = [i for i in (order if order is not None else range(len(ids))) if i not in used]
        found = next((i for i in cand if matches(n, i)), None)
        if found is None:
            if o_ids is not None:
                return None, "batch %d row %d: contents are not those of its utterance id %s" % (k, n, o_ids[n])
            return None, "batch %d row %d: contents are those of no utterance not yet delivered in this epoch" % (k, n)
        used.add(found)
        rows.append(found)
    return rows, None


def _bucket_maps(loader, lens, nb, bs, dyn):
    """(bucket_of, size_of, msg) for the loader: one bucket of batch_size without length buckets, else the loader's
    own maps, which must be length classes of the true lengths"""
    if nb <= 1:
        return dict((i, 0) for i in range(len(lens))), {0: bs}, None
    samp = loader.batch_sampler
    idx2bucket, bucket2size = getattr(samp, "idx2bucket", None), getattr(samp, "bucket2size", None)
    if not isinstance(idx2bucket, dict) or not isinstance(bucket2size, dict):
        return None, None, "num_length_buckets=%d but the loader's batch sampler carries no bucket maps" % nb
    idx2bucket = dict((int(i), b) for i, b in idx2bucket.items())
    return idx2bucket, bucket2size, spec_params(lens, nb, bs, dyn, idx2bucket, bucket2size)


def _epochs_protocol(mk, check_epoch, n_epochs=2, n=None):
    """len before every epoch = batches yielded; structure of every epoch; identical batches for identical
    (seed, epoch): epoch 1 by iteration == epoch 1 by init_epoch; epoch 0 again by assigning .epoch"""
    L = mk(0)
    eps = []
    for ep in range(n_epochs):
        if L.epoch != ep:
            return "loader.epoch is %r before epoch %d" % (L.epoch, ep)
        order = [int(i) for i in L.batch_sampler.sampler.get_samples_for_epoch(ep)]
        if n is not None and sorted(order) != list(range(n)):  # (a loader that finds fewer utterances would satisfy the rest vacuously)
            return "epoch %d: the loader samples from %d utterances, the directory holds %d" % (ep, len(order), n)
        reported = len(L)
        batches = list(L)
        if reported != len(batches):
            return "epoch %d: len(loader) = %d but %d batches are yielded" % (ep, reported, len(batches))
        msg = check_epoch(L, order, batches)
        if msg:
            return "epoch %d: %s" % (ep, msg)
        eps.append(_norm(batches))
    L2 = mk(1)
    if _norm(list(L2)) != eps[1]:
        return "epoch 1 reached with init_epoch=1 delivers other batches than epoch 1 reached by iterating (same seed)"
    L.epoch = 0
    if _norm(list(L)) != eps[0]:
        return "epoch 0 replayed by assigning loader.epoch = 0 delivers other batches than the first time (same seed)"
    return None


def check_loader_spect(case):
    """case: {lens, bs, nb, dyn, drop, shuffle, sort, bf, sup_ali, sup_utt, refkind in none|1d|3d|1d+se, with_ali, seed}"""
    import pydrobert.torch._dataloaders as dl
    from pydrobert.torch import config

    lens, bs, nb, dyn, drop = case["lens"], case["bs"], case["nb"], bool(case["dyn"]), bool(case["drop"])
    sort, bf, sup_ali, sup_utt = bool(case["sort"]), bool(case["bf"]), bool(case["sup_ali"]), bool(case["sup_utt"])
    refkind, with_ali = case["refkind"], bool(case["with_ali"])
    se = refkind == "1d+se"
    ids = [_uid(i) for i in range(len(lens))]
    cm = _quiet()
    try:
        with _tmp() as root:
            utts = _build_spect_dir(root, lens, refkind, with_ali)
            want = [(f, None if sup_ali else a, _soseos(r, se)) for f, a, r in utts]

            def mk(init_epoch, **kw):
                p = dl.SpectDataLoaderParams(batch_size=bs, num_length_buckets=nb, size_batch_by_length=dyn, drop_last=drop)
                if se:
                    p.sos, p.eos = SOS, EOS
                return dl.SpectDataLoader(root, p, shuffle=bool(case["shuffle"]), batch_first=bf, sort_batch=sort, init_epoch=init_epoch, seed=case["seed"],
                                          suppress_alis=sup_ali, suppress_uttids=sup_utt, tokens_only=refkind != "3d", **kw)

            def check_epoch(L, order, batches):
                bucket_of, size_of, msg = _bucket_maps(L, lens, nb, bs, dyn)
                if msg:
                    return msg
                used, index_batches = set(), []
                for k, out in enumerate(batches):
                    arity = 4 + (not sup_ali) + (not sup_utt)
                    if not isinstance(out, (tuple, list)) or len(out) != arity:
                        return "batch %d has %d fields, expected %d" % (k, len(out), arity)
                    out = list(out)
                    o_ids = out.pop() if not sup_utt else None
                    o_feats = out.pop(0)
                    o_alis = out.pop(0) if not sup_ali else None
                    o_refs, o_fs, o_rs = out
                    N = int(o_fs.numel())
                    fs = [int(x) for x in o_fs.tolist()]
                    rs = [int(x) for x in o_rs.tolist()] if o_rs is not None else None

                    def matches(n, i):
                        import torch

                        f, a, r = want[i]
                        if fs[n] != f.size(0) or list(o_feats.shape[2:]) != list(f.shape[1:]) or not torch.equal(_row(o_feats, n, bf)[:fs[n]], f):
                            return False
                        if r is not None and (rs is None or rs[n] != r.size(0) or not torch.equal(_row(o_refs, n, bf)[:rs[n]], r)):
                            return False
                        if a is not None and (o_alis is None or not torch.equal(_row(o_alis, n, bf)[:fs[n]], a)):
                            return False
                        return True

                    rows, msg = _identify(N, ids, o_ids, used, matches, k, order=list(order))
                    if msg:
                        return msg
                    msg = _padded_field("feats", o_feats, bf, N, fs, [want[i][0] for i in rows], 0, k)
                    if not msg and want[0][1] is not None:
                        msg = _padded_field("alis", o_alis, bf, N, fs, [want[i][1] for i in rows], config.INDEX_PAD_VALUE, k)
                    elif not msg and o_alis is not None:
                        msg = "batch %d: alis delivered though there are none" % k
                    if not msg and want[0][2] is not None:
                        msg = _padded_field("refs", o_refs, bf, N, rs, [want[i][2] for i in rows], config.INDEX_PAD_VALUE, k)
                    elif not msg and (o_refs is not None or o_rs is not None):
                        msg = "batch %d: refs delivered though there are none" % k
                    if msg:
                        return msg
                    if sort and any(fs[n] < fs[n + 1] for n in range(N - 1)):
                        return "batch %d: sort_batch but feature lengths %s are not descending" % (k, fs)
                    index_batches.append(rows)
                return spec_bucket_batches(order, bucket_of, size_of, drop, index_batches, ordered=not sort)

            return _epochs_protocol(mk, check_epoch, n=len(lens))
    finally:
        cm.__exit__(None, None, None)


def check_loader_lang(case):
    """case: {lens (reference lengths), bs, nb, dyn, drop, shuffle, sort, bf, sup_utt, refkind in 1d|3d|1d+se, seed}"""
    import pydrobert.torch._dataloaders as dl
    import torch
    from pydrobert.torch import config

    rl, bs, nb, dyn, drop = case["lens"], case["bs"], case["nb"], bool(case["dyn"]), bool(case["drop"])
    sort, bf, sup_utt, refkind = bool(case["sort"]), bool(case["bf"]), bool(case["sup_utt"]), case["refkind"]
    se = refkind == "1d+se"
    if se:
        rl = [L + 1 for L in rl]  # never an empty stored transcript with sos/eos (C12's business)
    lens = [L + 2 * se for L in rl]
    ids = [_uid(i) for i in range(len(rl))]
    cm = _quiet()
    try:
        with _tmp() as root:
            want = []
            for i, L in enumerate(rl):
                ref = _ref(i, L, refkind == "3d")
                torch.save(ref, os.path.join(root, _uid(i) + ".pt"))
                want.append(_soseos(ref, se))

            def mk(init_epoch):
                p = dl.LangDataLoaderParams(batch_size=bs, num_length_buckets=nb, size_batch_by_length=dyn, drop_last=drop)
                if se:
                    p.sos, p.eos = SOS, EOS
                return dl.LangDataLoader(root, p, shuffle=bool(case["shuffle"]), batch_first=bf, sort_batch=sort, init_epoch=init_epoch, seed=case["seed"],
                                         suppress_uttids=sup_utt, tokens_only=refkind != "3d")

            def check_epoch(L, order, batches):
                bucket_of, size_of, msg = _bucket_maps(L, lens, nb, bs, dyn)
                if msg:
                    return msg
                used, index_batches = set(), []
                for k, out in enumerate(batches):
                    if not isinstance(out, (tuple, list)) or len(out) != 2 + (not sup_utt):
                        return "batch %d has %d fields, expected %d" % (k, len(out), 2 + (not sup_utt))
                    o_refs, o_rs = out[0], out[1]
                    o_ids = out[2] if not sup_utt else None
                    N = int(o_rs.numel())
                    rs = [int(x) for x in o_rs.tolist()]

                    def matches(n, i):
                        r = want[i]
                        return rs[n] == r.size(0) and list(o_refs.shape[2:]) == list(r.shape[1:]) and torch.equal(_row(o_refs, n, bf)[:rs[n]], r)

                    rows, msg = _identify(N, ids, o_ids, used, matches, k, order=list(order))
                    msg = msg or _padded_field("refs", o_refs, bf, N, rs, [want[i] for i in rows], config.INDEX_PAD_VALUE, k)
                    if msg:
                        return msg
                    if sort and any(rs[n] < rs[n + 1] for n in range(N - 1)):
                        return "batch %d: sort_batch but reference lengths %s are not descending" % (k, rs)
                    index_batches.append(rows)
                return spec_bucket_batches(order, bucket_of, size_of, drop, index_batches, ordered=not sort)

            return _epochs_protocol(mk, check_epoch, n=len(lens))
    finally:
        cm.__exit__(None, None, None)


def check_loader_window(case):
    """case: {lens, bs, drop, shuffle, left, right, reverse, sup_utt, with_ali, seed}"""
    import pydrobert.torch._dataloaders as dl
    import torch

    lens, bs, drop = case["lens"], case["bs"], bool(case["drop"])
    left, right, reverse, sup_utt, with_ali = case["left"], case["right"], bool(case["reverse"]), bool(case["sup_utt"]), bool(case["with_ali"])
    ids = [_uid(i) for i in range(len(lens))]
    cm = _quiet()
    try:
        with _tmp() as root:
            utts = _build_spect_dir(root, lens, "none", with_ali, bool(case.get("f64")))
            wins = []
            for f, _, _ in utts:
                rows = f.tolist()
                w = [spec_window(rows, t, left, right, reverse) for t in range(len(rows))]
                wins.append(torch.tensor(w, dtype=f.dtype).view(len(rows), 1 + left + right, f.size(1)))

            def mk(init_epoch):
                p = dl.ContextWindowDataLoaderParams(batch_size=bs, drop_last=drop, context_left=left, context_right=right, reverse=reverse)
                return dl.ContextWindowDataLoader(root, p, shuffle=bool(case["shuffle"]), init_epoch=init_epoch, seed=case["seed"], suppress_uttids=sup_utt)

            def check_epoch(L, order, batches):
                # without ids no sizes are reported: the batches are then compared with the consecutive chunks of the order
                chunks = [order[j:j + bs] for j in range(0, len(order), bs)]
                if drop and chunks and len(chunks[-1]) < bs:
                    chunks.pop()
                index_batches = []
                for k, out in enumerate(batches):
                    if not isinstance(out, (tuple, list)) or len(out) != (2 if sup_utt else 4):
                        return "batch %d has %d fields, expected %d" % (k, len(out), 2 if sup_utt else 4)
                    if sup_utt:
                        if k >= len(chunks):
                            return "more batches than chunks of the sampler's order"
                        rows = chunks[k]
                    else:
                        if not isinstance(out[3], tuple) or any(u not in ids for u in out[3]):
                            return "batch %d: utterance ids %r unknown" % (k, out[3])
                        rows = [ids.index(u) for u in out[3]]
                        if out[2].tolist() != [lens[i] for i in rows]:
                            return "batch %d: window_sizes %s, the utterances %s have %s frames" % (k, out[2].tolist(), out[3], [lens[i] for i in rows])
                    want_w = torch.cat([wins[i] for i in rows])
                    if list(out[0].shape) != list(want_w.shape) or not torch.equal(out[0], want_w):
                        return "batch %d (utterances %s): windows differ from the edge-replicated windows of the stored features" % (k, rows)
                    if with_ali:
                        if out[1] is None or not torch.equal(out[1], torch.cat([utts[i][1] for i in rows])):
                            return "batch %d: alis are not the concatenated alignments of utterances %s" % (k, rows)
                    elif out[1] is not None:
                        return "batch %d: alis delivered though there are none" % k
                    index_batches.append(rows)
                return spec_bucket_batches(order, dict((i, 0) for i in range(len(lens))), {0: bs}, drop, index_batches)

            return _epochs_protocol(mk, check_epoch, n=len(lens))
    finally:
        cm.__exit__(None, None, None)


def check_loader_dist(case):
    """case: {kind spect|lang, lens, bs, nb, dyn, drop, shuffle, W, mode uneven|ignore|raise, seed, epochs}
    every rank of a (mocked) process group builds its loader; ids are delivered."""
    import pydrobert.torch._dataloaders as dl
    import torch

    lens, bs, nb, dyn, drop, W, mode = case["lens"], case["bs"], case["nb"], bool(case["dyn"]), bool(case["drop"]), case["W"], case["mode"]
    n = len(lens)
    if mode == "raise" and n % W and not drop:
        return None  # construction legitimately raises (C13)
    ids = [_uid(i) for i in range(n)]
    cm = _quiet()
    try:
        with _tmp() as root:
            if case["kind"] == "spect":
                _build_spect_dir(root, lens, "none", False)
            else:
                for i, L in enumerate(lens):
                    torch.save(_ref(i, L, False), os.path.join(root, _uid(i) + ".pt"))

            def mk(rank):
                if case["kind"] == "spect":
                    p = dl.SpectDataLoaderParams(batch_size=bs, num_length_buckets=nb, size_batch_by_length=dyn, drop_last=drop)
                    return dl.SpectDataLoader(root, p, shuffle=bool(case["shuffle"]), seed=case["seed"], on_uneven_distributed=mode, suppress_uttids=False)
                p = dl.LangDataLoaderParams(batch_size=bs, num_length_buckets=nb, size_batch_by_length=dyn, drop_last=drop)
                return dl.LangDataLoader(root, p, shuffle=bool(case["shuffle"]), seed=case["seed"], on_uneven_distributed=mode, suppress_uttids=False)

            loaders = [_with_dist(rank, W, lambda: mk(rank)) for rank in range(W)]
            for ep in range(case.get("epochs", 3)):
                seen = []
                for rank, L in enumerate(loaders):
                    order = [int(i) for i in L.batch_sampler.sampler.get_samples_for_epoch(ep)]
                    reported = len(L)
                    batches = list(L)
                    if reported != len(batches):
                        return "rank %d of %d, epoch %d: len(loader) = %d but %d batches are yielded" % (rank, W, ep, reported, len(batches))
                    bucket_of, size_of, msg = _bucket_maps(L, lens, nb, bs, dyn)
                    if msg:
                        return msg
                    index_batches = []
                    for out in batches:
                        if any(u not in ids for u in out[-1]):
                            return "unknown utterance ids %r" % (out[-1],)
                        index_batches.append([ids.index(u) for u in out[-1]])
                    msg = spec_bucket_batches(order, bucket_of, size_of, drop, index_batches)
                    if msg:
                        return "rank %d of %d, epoch %d: %s" % (rank, W, ep, msg)
                    seen.append([i for b in index_batches for i in b])
                if mode == "ignore":
                    if not drop and any(sorted(s) != list(range(n)) for s in seen):
                        return "epoch %d: with the process group ignored a rank does not deliver every utterance once" % ep
                else:
                    flat = [i for s in seen for i in s]
                    if len(set(flat)) != len(flat):
                        return "epoch %d: an utterance is delivered on two ranks" % ep
                    if not drop and sorted(flat) != list(range(n)):
                        return "epoch %d: incomplete batches are kept but utterances %s are delivered on no rank" % (ep, sorted(set(range(n)) - set(flat)))
            return None
    finally:
        cm.__exit__(None, None, None)


def check_loader_deprecated(case):
    """case: {cls, lens, bs, drop, seed (None allowed)}: the deprecated loader subclasses obey the same contract"""
    import pydrobert.torch._dataloaders as dl

    cls, lens, bs, drop, seed = case["cls"], case["lens"], case["bs"], bool(case["drop"]), case["seed"]
    n = len(lens)
    ids = [_uid(i) for i in range(n)]
    cm = _quiet()
    try:
        with _tmp() as root:
            _build_spect_dir(root, lens, "1d", True)
            window = cls.startswith("ContextWindow")

            def mk(init_epoch):
                if window:
                    p = dl.ContextWindowDataLoaderParams(batch_size=bs, drop_last=drop, context_left=1, context_right=1)
                else:
                    p = dl.SpectDataLoaderParams(batch_size=bs, drop_last=drop)
                return getattr(dl, cls)(root, p, init_epoch=init_epoch, seed=seed, suppress_uttids=False)

            runs = []
            for L in (mk(0), mk(0)):
                order = [int(i) for i in L.batch_sampler.sampler.get_samples_for_epoch(L.epoch)]
                if sorted(order) != list(range(n)):
                    return "the loader (default file prefix / suffix) samples from %d utterances, the directory holds %d" % (len(order), n)
                reported = len(L)
                batches = list(L)
                if reported != len(batches):
                    return "len(loader) = %d but %d batches are yielded" % (reported, len(batches))
                index_batches = []
                for out in batches:
                    if any(u not in ids for u in out[-1]):
                        return "unknown utterance ids %r" % (out[-1],)
                    index_batches.append([ids.index(u) for u in out[-1]])
                    sizes = out[-2] if window else out[-3]
                    if sizes.tolist() != [lens[i] for i in index_batches[-1]]:
                        return "sizes %s do not belong to utterances %s (lengths %s)" % (sizes.tolist(), out[-1], [lens[i] for i in index_batches[-1]])
                msg = spec_bucket_batches(order, dict((i, 0) for i in range(n)), {0: bs}, drop, index_batches, ordered=window)
                if msg:
                    return msg
                runs.append(_norm(batches))
            if seed is not None and runs[0] != runs[1]:
                return "two loaders with the same (seed, epoch) deliver different batches"
            return None
    finally:
        cm.__exit__(None, None, None)


# ---- loader case spaces ------------------------------------------------------------------------------------


def _datasets(ctx, small_n, alphabet, extra):
    out = []
    for n in range(small_n + 1):
        out.extend(list(t) for t in itertools.product(alphabet, repeat=n))
    out.extend(list(t) for t in extra)
    return out


SPECT_EXTRA = [(2, 2, 2, 5, 5, 1, 7), (1, 1, 1, 1, 9), (1, 2, 3, 4, 5), (5, 4, 3, 2, 1, 6), (3, 1, 2, 2), (1, 1, 2, 2, 3, 3), (4, 4, 4, 4), (0, 0, 3, 2, 5, 5), (0, 1),
               (2, 1, 2, 1, 2, 1, 2, 1)]
PROFILES = [dict(zip(("sort", "bf", "sup_ali", "sup_utt"), bits)) for bits in itertools.product((False, True), repeat=4)]
REFKINDS = ("none", "1d", "3d", "1d+se")


def _structure_configs(bsmax, nbmax):
    for bs in range(1, bsmax + 1):
        for nb in range(1, nbmax + 1):
            for dyn in ((False, True) if nb > 1 else (False,)):
                for drop in (False, True):
                    for shuffle in (False, True):
                        yield dict(bs=bs, nb=nb, dyn=dyn, drop=drop, shuffle=shuffle)


def loader_bound(ctx):
    return dict(small=3, bsmax=3, nbmax=3, profiles=1, nrand=0) if ctx.quick else dict(small=4, bsmax=3, nbmax=4, profiles=2, nrand=3000)


def cases_loader_spect(ctx):
    yield from _regressions("C14.loader.spect")
    b = loader_bound(ctx)
    k = 0
    for lens in _datasets(ctx, b["small"], (1, 2, 3), SPECT_EXTRA):
        for cfg in _structure_configs(b["bsmax"], b["nbmax"]):
            for j in range(b["profiles"]):
                k += 1
                prof = PROFILES[(5 * k + 7 * j) % 16]
                yield dict(lens=lens, seed=3 + ctx.seed + k % 5, refkind=REFKINDS[(k + j) % 4], with_ali=bool((k // 4 + j) % 2), **cfg, **prof)
    rng = random.Random(ctx.seed + 1405)
    for _ in range(b["nrand"]):
        n = rng.randint(0, 12)
        nb = rng.randint(1, 5)
        yield dict(lens=[rng.randint(1, 9) for _ in range(n)], bs=rng.randint(1, 5), nb=nb, dyn=nb > 1 and rng.random() < 0.5, drop=rng.random() < 0.5, shuffle=rng.random() < 0.7,
                   seed=rng.randrange(2 ** 31 - 1), refkind=rng.choice(REFKINDS), with_ali=rng.random() < 0.5, **rng.choice(PROFILES))


LANG_EXTRA = [(2, 2, 2, 5, 5, 1, 7), (0, 0, 3, 2, 5, 5), (1, 2, 3, 4, 5), (5, 4, 3, 2, 1, 6), (1, 1, 2, 2, 3, 3), (0, 0, 0, 0), (4, 4, 4, 4)]
LANG_PROFILES = [dict(zip(("sort", "bf", "sup_utt"), bits)) for bits in itertools.product((False, True), repeat=3)]


def cases_loader_lang(ctx):
    yield from _regressions("C14.loader.lang")
    b = loader_bound(ctx)
    k = 0
    for lens in _datasets(ctx, b["small"], (0, 1, 2), LANG_EXTRA):
        for cfg in _structure_configs(b["bsmax"], b["nbmax"]):
            for j in range(max(1, b["profiles"] // 2)):
                k += 1
                prof = LANG_PROFILES[(3 * k + 5 * j) % 8]
                yield dict(lens=lens, seed=3 + ctx.seed + k % 5, refkind=REFKINDS[1 + (k + j) % 3], **cfg, **prof)
    rng = random.Random(ctx.seed + 1406)
    for _ in range(b["nrand"]):
        n = rng.randint(0, 12)
        nb = rng.randint(1, 5)
        yield dict(lens=[rng.randint(0, 9) for _ in range(n)], bs=rng.randint(1, 5), nb=nb, dyn=nb > 1 and rng.random() < 0.5, drop=rng.random() < 0.5, shuffle=rng.random() < 0.7,
                   seed=rng.randrange(2 ** 31 - 1), refkind=rng.choice(REFKINDS[1:]), **rng.choice(LANG_PROFILES))


WINDOW_EXTRA = [(2, 2, 2, 5, 5, 1, 7), (1, 2, 3, 4, 5), (4, 4, 4, 4)]


def cases_loader_window(ctx):
    small, bsmax, cmax = (3, 3, 2) if ctx.quick else (4, 4, 3)
    k = 0
    for lens in _datasets(ctx, small, (1, 2, 3), WINDOW_EXTRA):
        for bs in range(1, bsmax + 1):
            for drop, shuffle in itertools.product((False, True), repeat=2):
                for j in range(2):
                    k += 1
                    yield dict(lens=lens, bs=bs, drop=drop, shuffle=shuffle, left=(k + j) % (cmax + 1), right=(k // 3 + 2 * j) % (cmax + 1), reverse=bool((k // 2) % 2),
                               sup_utt=bool((k + j) % 2), with_ali=bool((k // 5 + j) % 2), seed=3 + ctx.seed + k % 5)
                    if k % 7 == 0:  # double-precision features: the windows must be the stored values, not their float32 roundings
                        yield dict(lens=lens, bs=bs, drop=drop, shuffle=shuffle, left=k % (cmax + 1), right=(k // 2) % (cmax + 1), reverse=bool(k % 2),
                                   sup_utt=bool((k // 7) % 2), with_ali=False, seed=3 + ctx.seed, f64=True)
    rng = random.Random(ctx.seed + 1407)
    for _ in range(0 if ctx.quick else 1500):
        n = rng.randint(0, 10)
        yield dict(lens=[rng.randint(1, 8) for _ in range(n)], bs=rng.randint(1, 5), drop=rng.random() < 0.5, shuffle=rng.random() < 0.7, left=rng.randint(0, 5), right=rng.randint(0, 5),
                   reverse=rng.random() < 0.5, sup_utt=rng.random() < 0.5, with_ali=rng.random() < 0.5, seed=rng.randrange(2 ** 31 - 1))


DIST_SETS = [(1, 1, 1, 1, 3, 3, 3, 3), (1, 2, 3, 4, 5, 6), (2, 2, 2, 5, 5, 1, 7), (1, 1, 3), (1, 3, 1, 3, 1, 3, 1, 3, 1), (), (4,), (1, 2, 1, 2, 3, 3, 3, 3, 3, 3)]


def cases_loader_dist(ctx):
    yield from _regressions("C14.loader.dist")
    k = 0
    for lens in DIST_SETS:
        for W in ((2, 3) if ctx.quick else (2, 3, 4)):
            for mode in ("uneven", "ignore", "raise"):
                for cfg in _structure_configs(2, 2 if ctx.quick else 3):
                    k += 1
                    yield dict(kind="spect" if k % 3 else "lang", lens=[max(L, 1) for L in lens], W=W, mode=mode, seed=3 + ctx.seed + k % 7, epochs=3, **cfg)
    rng = random.Random(ctx.seed + 1408)
    for _ in range(0 if ctx.quick else 1500):
        n = rng.randint(0, 14)
        nb = rng.randint(1, 4)
        yield dict(kind=rng.choice(["spect", "lang"]), lens=[rng.randint(1, 9) for _ in range(n)], W=rng.randint(2, 5), mode=rng.choice(["uneven", "ignore", "raise"]), bs=rng.randint(1, 4),
                   nb=nb, dyn=nb > 1 and rng.random() < 0.5, drop=rng.random() < 0.5, shuffle=rng.random() < 0.8, seed=rng.randrange(2 ** 31 - 1), epochs=3)


DEPRECATED = ("SpectTrainingDataLoader", "SpectEvaluationDataLoader", "ContextWindowTrainingDataLoader", "ContextWindowEvaluationDataLoader")


def cases_loader_deprecated(ctx):
    yield from _regressions("C14.loader.deprecated")
    for cls in DEPRECATED:
        for lens in [[], [2], [1, 2, 3], [2, 2, 2, 5, 5, 1, 7]] + ([] if ctx.quick else [[3, 1, 2, 2], [1, 1, 1, 1, 9]]):
            for bs in (1, 2, 3):
                for drop in (False, True):
                    for seed in (None, 5 + ctx.seed):
                        yield dict(cls=cls, lens=lens, bs=bs, drop=drop, seed=seed)


# ---------------------------------------------------------------------------------------------------------------
# findings: none open. The five defects this driver found in the tree it was written against (KF-C14-1..5) were
# repaired in /repo (commits fd6ecaa..752f07b); their witnesses stay as named regression cases, which every tier
# runs first in the clause that exposed them (plus the same inputs pushed through the loaders).

FINDINGS = []
KNOWN_MATCH = {}

_LOADER_BASE = dict(bs=1, nb=2, dyn=False, drop=False, shuffle=False, sort=False, bf=False, sup_utt=True, seed=3)
REGRESSIONS = [
    # KF-C14-1: IndexError on an empty data set once num_length_buckets > 1
    {"name": "KF-C14-1.empty_data_set", "clause": "C14.params.purity", "case": {"lens": [], "nb": 2, "bs": 1, "dyn": False}},
    {"name": "KF-C14-1.empty_data_set.spect_loader", "clause": "C14.loader.spect", "case": dict(_LOADER_BASE, lens=[], sup_ali=True, refkind="1d", with_ali=False)},
    {"name": "KF-C14-1.empty_data_set.lang_loader", "clause": "C14.loader.lang", "case": dict(_LOADER_BASE, lens=[], refkind="1d")},
    # KF-C14-2: ZeroDivisionError with dynamic sizing when a bucket holds only zero-length utterances
    {"name": "KF-C14-2.dynamic_zero_length_bucket", "clause": "C14.params.purity", "case": {"lens": [0], "nb": 1, "bs": 1, "dyn": True}},
    {"name": "KF-C14-2.dynamic_zero_length_bucket.lang_loader", "clause": "C14.loader.lang", "case": dict(_LOADER_BASE, lens=[0, 0, 2, 3], dyn=True, sup_utt=False, refkind="1d")},
    {"name": "KF-C14-2.dynamic_zero_length_bucket.spect_loader", "clause": "C14.loader.spect",
     "case": dict(_LOADER_BASE, lens=[0, 0, 3, 2, 5, 5], nb=3, bs=2, dyn=True, sup_ali=True, refkind="none", with_ali=False)},
    # KF-C14-3: LangDataLoader with buckets measured x[0].size(0) on bare-tensor items (suppress_uttids=True)
    {"name": "KF-C14-3.lang_buckets_without_ids", "clause": "C14.loader.lang", "case": dict(_LOADER_BASE, lens=[1], refkind="1d")},
    {"name": "KF-C14-3.lang_buckets_without_ids.segments", "clause": "C14.loader.lang", "case": dict(_LOADER_BASE, lens=[1, 4, 2, 5, 3], bs=2, refkind="3d")},
    {"name": "KF-C14-3.lang_buckets_without_ids.empty_transcript", "clause": "C14.loader.lang", "case": dict(_LOADER_BASE, lens=[0, 2], refkind="1d")},
    # KF-C14-4: deprecated Spect loaders passed seed into the on_uneven_distributed slot
    {"name": "KF-C14-4.deprecated_seed_slot", "clause": "C14.loader.deprecated", "case": {"cls": "SpectEvaluationDataLoader", "lens": [], "bs": 1, "drop": False, "seed": None}},
    {"name": "KF-C14-4.deprecated_seed_lost_with_drop_last", "clause": "C14.loader.deprecated",
     "case": {"cls": "SpectTrainingDataLoader", "lens": [1, 2, 3], "bs": 1, "drop": True, "seed": 5}},
    # KF-C14-5: len() cached across epochs under a process group
    {"name": "KF-C14-5.stale_len_under_process_group", "clause": "C14.loader.dist",
     "case": {"kind": "spect", "lens": [1, 1, 3], "W": 2, "mode": "uneven", "seed": 2, "epochs": 2, "bs": 2, "nb": 2, "dyn": False, "drop": False, "shuffle": True}},
    {"name": "KF-C14-5.stale_len_under_process_group.drop_overrides_ignore", "clause": "C14.loader.dist",
     "case": {"kind": "lang", "lens": [1, 1, 3], "W": 3, "mode": "ignore", "seed": 4, "epochs": 3, "bs": 1, "nb": 2, "dyn": True, "drop": True, "shuffle": True}},
]


def _regressions(clause):
    for r in REGRESSIONS:
        if r["clause"] == clause:
            yield dict(r["case"], regression=r["name"])


CHECKERS = {
    "C14.bucket.iter": check_bucket_iter,
    "C14.len.formula": check_len_formula,
    "C14.params.purity": check_params,
    "C14.collate.lossless": check_collate,
    "C14.window.post": check_window,
    "C14.loader.spect": check_loader_spect,
    "C14.loader.lang": check_loader_lang,
    "C14.loader.window": check_loader_window,
    "C14.loader.dist": check_loader_dist,
    "C14.loader.deprecated": check_loader_deprecated,
}


def _wanted(ctx, name):
    only = getattr(ctx, "only", None)
    return not only or any(name.startswith(o) for o in only)


def run_bounded(ctx):
    import torch  # noqa: F401  (imported before the pool forks: workers are much slower otherwise)
    import pydrobert.torch  # noqa: F401
    import pydrobert.torch._dataloaders  # noqa: F401

    ctx.known_match.update(KNOWN_MATCH)
    bb, lb, pb, cb, ob = bucket_bound(ctx), len_bound(ctx), params_bound(ctx), collate_bound(ctx), loader_bound(ctx)
    if _wanted(ctx, "C14.bucket.iter"):
        ctx.bounded(
            "C14.bucket.iter", check_bucket_iter, cases_bucket_iter(ctx),
            bound="index sets 0..M-1 with M<=%d, every assignment to B<=3 buckets, every size map in {1..%d}^B, drop_incomplete both; sampler output = identity, reversed, every other index (subset), "
                  "identity followed by a repeat of its first two%s; string bucket ids for M<=4, B=2; %d seeded random cases (M<=30, B<=5, sizes<=6, shuffled/truncated orders, string ids)" % (
                      bb["M"], bb["smax"], "" if ctx.quick else ", odd-then-even", bb["nrand"]),
            text="BucketBatchSampler.__iter__ on a list sampler: per bucket the batches are consecutive chunks of that bucket's sub-sequence of the sampler output, of exactly the bucket's size, "
                 "only trailing batches short and only when kept; kept => every produced index in exactly one batch; dropped => exactly count mod size indices of a bucket in none; re-iterable",
            nontrivial=lambda c: len(c["order"]) > 0 and len(set(c["bk"])) > 1,
            chunk=1024, functions=["_dataloaders.BucketBatchSampler.__init__", "_dataloaders.BucketBatchSampler.__iter__"])
    if _wanted(ctx, "C14.len.formula"):
        ctx.bounded(
            "C14.len.formula", check_len_formula, cases_len_formula(ctx),
            bound="N<=%d indices in B<=2 buckets (all assignments, sizes {1,2,3}^B), N<=%d in exactly 3 buckets (sizes {1,2}^3); drop both; real EpochSequentialSampler / EpochRandomSampler; "
                  "no process group, and every rank of W in {2,3} with uneven and drop handling (3 buckets: W=2 uneven, W=3 drop); epochs 0 and 1; %d seeded random cases (N<=40, B<=5, W<=5)" % (lb["N2"], lb["N3"], lb["nrand"]),
            text="_get_batch_sampler_len(BucketBatchSampler over a real epoch sampler) taken before an epoch = number of batches that epoch yields (and the batches satisfy the bucket contract, "
                 "ranks disjoint); plain BatchSampler branch reports its own length",
            nontrivial=lambda c: c["N"] > 0 and len(set(c["bk"])) > 1,
            chunk=256, functions=["_dataloaders._get_batch_sampler_len", "_dataloaders.BucketBatchSampler.__iter__", "_dataloaders.AbstractEpochSampler.get_samples_for_epoch"])
    if _wanted(ctx, "C14.params.purity"):
        ctx.bounded(
            "C14.params.purity", check_params, cases_params(ctx),
            bound="every data set of n<=%d utterances with lengths in {0..%d} (ties, zero lengths, empty and singleton sets), num_length_buckets 1..%d, batch_size 1..%d, dynamic sizing both; "
                  "%d seeded random cases (n<=40, lengths<=200, buckets<=8, batch_size<=10)" % (pb["n"], pb["lmax"], pb["nbmax"], pb["bsmax"], pb["nrand"]),
            text="_get_bucket_batch_sampler_params: every index classified; buckets are pairwise disjoint length ranges (ties share a bucket), at most num_length_buckets, exactly that many when all "
                 "lengths differ and n >= num_length_buckets; sizes positive, = batch_size, or dynamic = greatest x with x*longest-in-bucket <= longest-in-corpus*batch_size",
            nontrivial=lambda c: c["nb"] > 1 and len(set(c["lens"])) > 1,
            chunk=512, functions=["_dataloaders._get_bucket_batch_sampler_params"])
    if _wanted(ctx, "C14.collate.lossless"):
        ctx.bounded(
            "C14.collate.lossless", check_collate, cases_collate(ctx),
            bound="spect_seq_to_batch: N<=%d utterances, every T in {0..%d}^N, references none / two length patterns in 0..3, with and without segment columns, alignments present/absent, "
                  "batch_first, sort, has_alis, has_uttids all; lang_seq_to_batch: N<=%d, every R in {0..%d}^N, segment columns, batch_first, sort, has_uttids all; context_window_seq_to_batch: N<=%d, "
                  "every T in {0..%d}^N, window width 1 and 3, alignments, has_uttids; %d seeded random batches (N<=8, lengths<=12)" % (
                      cb["ns"], cb["tmax"], cb["nl"], cb["tmax"], cb["ns"], cb["tmax"], cb["nrand"]),
            text="collation: rows cut back to the reported sizes are the original tensors of one utterance each (the one named by the id at that position), every cell beyond holds the pad value "
                 "(0 / INDEX_PAD_VALUE), sizes are long vectors, row order kept without sort and descending with it; windows: concatenation splits back into the originals",
            nontrivial=lambda c: len(c.get("T") or c.get("R")) > 1 and len(set(c.get("T") or c.get("R"))) > 1,
            chunk=256, functions=["_dataloaders.spect_seq_to_batch", "_dataloaders.lang_seq_to_batch", "_dataloaders.context_window_seq_to_batch"])
    if _wanted(ctx, "C14.window.post"):
        ctx.bounded(
            "C14.window.post", check_window, cases_window(ctx),
            bound="T<=%d frames, every centre frame, left and right context 0..T+1, reverse both" % (5 if ctx.quick else 7),
            text="extract_window: frame k of the window is frame clamp(centre-left+k, 0, T-1) of the utterance (edge replication), reversed when asked; input untouched",
            nontrivial=lambda c: c["idx"] - c["left"] < 0 or c["idx"] + c["right"] >= c["T"],
            chunk=256, functions=["_datasets.extract_window"])
    loader_fns = ["_dataloaders.SpectDataLoader.__init__", "_dataloaders.SpectDataLoader.__len__", "_dataloaders.SpectDataLoader.collate_fn", "_dataloaders._get_batch_sampler_len",
                  "_dataloaders._get_bucket_batch_sampler_params", "_dataloaders.BucketBatchSampler.__iter__", "_dataloaders.spect_seq_to_batch", "_datasets.SpectDataSet.get_utterance_tuple"]
    struct = "batch_size 1..%d x num_length_buckets 1..%d x size_batch_by_length x drop_last x shuffle (all)" % (ob["bsmax"], ob["nbmax"])
    if _wanted(ctx, "C14.loader.spect"):
        ctx.bounded(
            "C14.loader.spect", check_loader_spect, cases_loader_spect(ctx),
            bound="generated directories: every length tuple of n<=%d utterances over {1,2,3} plus %d hand-picked sets of up to 8 utterances (ties at bucket boundaries, buckets smaller than a batch, "
                  "zero-length utterances); %s; per combination %d of the 16 sort_batch x batch_first x suppress_alis x suppress_uttids profiles, reference kind (none/tokens/segments/sos+eos) and alignment "
                  "directory cycled deterministically; epochs 0, 1, epoch 1 via init_epoch, epoch 0 via .epoch; %d seeded random cases (n<=12, lengths<=9, batch<=5, buckets<=5)" % (
                      ob["small"], len(SPECT_EXTRA), struct, ob["profiles"], ob["nrand"]),
            text="SpectDataLoader on a directory: len() before each epoch = batches yielded; batches are bucket-contract chunks of the real sampler's order over valid length classes; every row is "
                 "the stored utterance (by id, or by content when ids are suppressed) at most once per epoch, all of them unless an incomplete batch is dropped; padding cells hold the pad value; "
                 "identical batches for identical (seed, epoch)",
            nontrivial=lambda c: len(c["lens"]) > 1 and (c["nb"] > 1 or len(c["lens"]) > c["bs"]),
            chunk=16, functions=loader_fns)
    if _wanted(ctx, "C14.loader.lang"):
        ctx.bounded(
            "C14.loader.lang", check_loader_lang, cases_loader_lang(ctx),
            bound="generated directories: every reference-length tuple of n<=%d over {0,1,2} plus %d hand-picked sets (empty transcripts, ties); %s; per combination %d of the 8 sort_batch x batch_first x "
                  "suppress_uttids profiles, reference kind (tokens/segments/sos+eos) cycled; same epoch protocol; %d seeded random cases (n<=12, lengths<=9)" % (
                      ob["small"], len(LANG_EXTRA), struct, max(1, ob["profiles"] // 2), ob["nrand"]),
            text="LangDataLoader on a directory: the same contract with the reference length as the utterance length",
            nontrivial=lambda c: len(c["lens"]) > 1 and (c["nb"] > 1 or len(c["lens"]) > c["bs"]),
            chunk=16, functions=["_dataloaders.LangDataLoader.__init__", "_dataloaders.LangDataLoader.__len__", "_dataloaders.LangDataLoader.collate_fn", "_dataloaders.lang_seq_to_batch",
                                 "_dataloaders._get_bucket_batch_sampler_params", "_datasets.LangDataSet.get_utterance_tuple"])
    if _wanted(ctx, "C14.loader.window"):
        ctx.bounded(
            "C14.loader.window", check_loader_window, cases_loader_window(ctx),
            bound="generated directories: every length tuple of n<=%d over {1,2,3} plus %d hand-picked sets; batch_size 1..%d x drop_last x shuffle (all); context widths 0..%d, reverse, suppress_uttids, "
                  "alignment directory cycled (2 per combination); same epoch protocol; %d seeded random cases" % (
                      3 if ctx.quick else 4, len(WINDOW_EXTRA), 3 if ctx.quick else 4, 2 if ctx.quick else 3, 0 if ctx.quick else 1500),
            text="ContextWindowDataLoader on a directory: len() = batches yielded; batches are consecutive chunks of the sampler's order; windows are the edge-replicated windows of the stored "
                 "features, window_sizes and ids belong to them; identical batches for identical (seed, epoch)",
            nontrivial=lambda c: len(c["lens"]) > c["bs"],
            chunk=16, functions=["_dataloaders.ContextWindowDataLoader.__init__", "_dataloaders.ContextWindowDataLoader.__len__", "_dataloaders.context_window_seq_to_batch",
                                 "_datasets.ContextWindowDataSet.get_windowed_utterance", "_datasets.extract_window"])
    if _wanted(ctx, "C14.loader.dist"):
        ctx.bounded(
            "C14.loader.dist", check_loader_dist, cases_loader_dist(ctx),
            bound="%d hand-picked length sets (0..10 utterances), every rank of W in %s (torch.distributed mocked), on_uneven_distributed uneven/ignore/raise (raise only where divisible or drop_last), "
                  "batch_size 1..2 x num_length_buckets 1..%d x dynamic x drop_last x shuffle; SpectDataLoader and LangDataLoader alternating; 3 epochs; %d seeded random cases (n<=14, W<=5)" % (
                      len(DIST_SETS), "{2,3}" if ctx.quick else "{2,3,4}", 2 if ctx.quick else 3, 0 if ctx.quick else 1500),
            text="under a process group: on every rank len() before each epoch = batches yielded in it, batches obey the bucket contract on that rank's share, no utterance on two ranks, "
                 "none lost unless incomplete batches are dropped",
            nontrivial=lambda c: len(c["lens"]) > c["W"],
            chunk=8, functions=["_dataloaders.SpectDataLoader.__len__", "_dataloaders.LangDataLoader.__len__", "_dataloaders._get_batch_sampler_len"])
    if _wanted(ctx, "C14.loader.deprecated"):
        ctx.bounded(
            "C14.loader.deprecated", check_loader_deprecated, cases_loader_deprecated(ctx),
            bound="the 4 deprecated loader subclasses x %d directories x batch_size 1..3 x drop_last x seed {unset, fixed}" % (4 if ctx.quick else 6),
            text="Spect{Training,Evaluation}DataLoader and ContextWindow{Training,Evaluation}DataLoader: constructible, len() = batches yielded, every utterance once unless dropped, sizes and ids "
                 "belong together, same (seed, epoch) => same batches",
            chunk=8, functions=["_dataloaders.SpectTrainingDataLoader.__init__", "_dataloaders.SpectEvaluationDataLoader.__init__",
                                "_dataloaders.ContextWindowTrainingDataLoader.__init__", "_dataloaders.ContextWindowEvaluationDataLoader.__init__"])
    ctx.replay_known_witnesses()
    ctx.not_applicable.append("C14.loader: multi-process loading (num_workers > 0, worker schedules, pinned memory) - the loaders are iterated in-process only")
    ctx.not_applicable.append("C14.loader: seed unset (a seed drawn from torch's global generator) is only checked for coverage, not for reproducibility")
    ctx.assume(
        "the order an epoch sampler produces is read from the real sampler (get_samples_for_epoch); that it is a rank-strided slice of a seeded permutation is property C13",
        "torch.distributed is mocked (is_available/is_initialized/get_rank/get_world_size) to present a process group; no real communication",
        "utterances are float32 feature matrices with 2 coefficients, int64 alignments and references with values that never equal a pad value; contents do not influence batching",
        "utterance ids are u00, u01, ... (sorted order = index order); default file prefix/suffix and sub-directory names",
        "when ids are suppressed a row is attributed to any not-yet-delivered utterance with identical contents",
        "the named regression witnesses of the repaired defects KF-C14-1..5 (REGRESSIONS) are run first in their clauses in every tier",
        "the (R,3) sos/eos row convention is not exercised through the loaders (sos/eos only with token-only references; C12 covers the convention)",
    )
