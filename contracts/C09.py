"""C09 - variable-length padding, chunking, masked compaction, random shift.

Bounded run-time contracts only so far (contracts/C09_rt.py); the deductive clauses of DESIGN.md
section 3 (C09.padvar.post, C09.masked.post, C09.shift.bounds) are added here when written.
"""
from contracts import C09_rt

CHECKERS = dict(C09_rt.CHECKERS)


def run(ctx):
    C09_rt.run_bounded(ctx)
