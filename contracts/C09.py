"""C09 - variable-length padding and chunking equal per-sequence pad-and-slice."""
from contracts import C09_rt, C09_vc
from vf.pyvc import api

CHECKERS = dict(C09_rt.CHECKERS)


def run(ctx):
    from contracts import wrap_vc

    api.run_vcs(ctx, wrap_vc.wrapper_vcs("C09.P.module_forwards_parameters", ['PadVariable', 'PadMaskedSequence', 'ChunkBySlices']), {"C09.P.module_forwards_parameters": wrap_vc.TEXT % "PadVariable, PadMaskedSequence, ChunkBySlices"})
    from vf.pyvc import crosscheck_sym

    crosscheck_sym.guard(ctx)  # the symbolic-shape tensor layer against real torch, before the clause that rests on it
    api.run_vcs(ctx, C09_vc.pad_p_vcs(ctx), {"C09.P.pad_variable": "real pad_variable source (constant mode) for a SYMBOLIC batch size, extent, feature size, lengths and pad amounts: every sequence is copied behind its left padding, every other cell holds the padding value, the output extent is the longest padded sequence (row-major compaction contracts of masked_select / masked_scatter; three inductions over coefficients, frames and sequences)"})
    api.run_vcs(ctx, C09_vc.chunk_p_vcs(ctx), {"C09.P.chunk_by_slices": "real chunk_by_slices source (constant and replicate mode, lengths given) for a SYMBOLIC batch size, extent, feature size, lengths and ARBITRARY slice bounds: reported length = max(end - start, 0); the chunk is the slice of the constant- resp. replicate-padded sequence (entries inside the sequence copied, the padding value elsewhere and beyond the reported length)"})
    api.run_vcs(ctx, C09_vc.masked_p_vcs(ctx), {"C09.P.pad_masked_sequence": "real pad_masked_sequence source for a SYMBOLIC batch size, extent, feature size and ANY mask, both layouts: reported length = number of selected frames; every selected frame lands at the position given by the number of selected frames before it; the padding value from the reported length on"})
    api.run_vcs(ctx, C09_vc.p_vcs(ctx), {"C09.P.shift_amounts": "real random_shift source for a symbolic length and symbolic proportions: each side is padded by a non-negative whole number of elements below proportion x length, reported length = length + both, padding delegated to pad_variable with the same input / lengths / mode / value, identity in evaluation mode"})
    api.run_vcs(ctx, C09_vc.vcs(ctx), {"C09.S.masked_compaction": "real pad_masked_sequence source: lens = selected count; row = selected elements in order then the padding value; all contents and all masks"},
                bounded="shapes (N,T,F) up to (2,3)/(1,3,2), both layouts; ALL contents, masks and padding values")
    C09_rt.run_bounded(ctx)
