"""C08, engine A part: drawn SpecAugment parameters respect every configured limit.

`spec_augment_draw_parameters` is executed symbolically with a feature tensor of which only the shape
(N=1, symbolic T and F) matters, a symbolic length, symbolic limits and symbolic uniform draws u in [0,1)
(assumed contract of torch.rand). The number of masks is a concrete small count (the code is element-wise
in the mask index). Real arithmetic; eps is the dtype's machine epsilon, 0 < eps <= 2**-10.
"""
import z3

from vf.pyvc import api, ctensor as ct, interp as ip, solve
from vf.pyvc.api import VC

M = "pydrobert.torch._img"
T, F, L = z3.Ints("T F length")
EPS = z3.Real("eps")
MTW, MFW, MTMP, NTMP = z3.Reals("max_time_warp max_freq_warp max_time_mask_proportion num_time_mask_proportion")
MTM, MFM = z3.Ints("max_time_mask max_freq_mask")


class Feats:
    """feature tensor of shape (1, T, F) of which only the shape is used"""

    def __vc_getattr__(self, I, name):
        import torch

        if name == "shape":
            return (1, T, F)
        if name == "device":
            return torch.device("cpu")
        if name == "dtype":
            return torch.float32
        if name == "dim":
            class D:
                def __vc_call__(s, I, a, k):
                    return 3
            return D()
        raise ip.Unsupported("feats.%s" % name)


def draw_vc(ntm, nfm, with_lengths):
    import pydrobert.torch._img as IMG

    name = "draw[num_time_mask=%d,num_freq_mask=%d,lengths=%s]" % (ntm, nfm, "given" if with_lengths else "omitted")

    def thunk(I):
        us = []

        def rand(I2, size, *a, **k):
            shape = tuple(size) if isinstance(size, (list, tuple)) else (size,)
            t = ct.CT.symbolic("u%d" % len(us), shape, "float")
            for v in t.a.reshape(-1):
                I2.ex.assume(z3.And(v >= 0, v < 1))
            us.append(t)
            return t

        I.stubs["torch.rand"] = rand
        I.contracts["pydrobert.torch._img._spec_augment_check_input"] = lambda I2, a, k: None  # input validation: its own precondition below
        I.contracts["pydrobert.torch._img._get_tensor_eps"] = lambda I2, a, k: EPS
        lengths = ct.CT(ct.obj_array(L, (1,)), "long") if with_lengths else None
        out = I.call(IMG.spec_augment_draw_parameters, [Feats(), MTW, MFW, MTM, MFM, MTMP, ntm, NTMP, nfm], dict(lengths=lengths))
        return out

    Lr = z3.ToReal(L) if with_lengths else z3.ToReal(T)

    def post(p):
        if not api.returns(p) or not isinstance(p.value, tuple) or len(p.value) != 8:
            return False
        w0, w, v0, v, t0, t, f0, f = p.value
        goals = []

        def elems(x):
            return list(x.a.reshape(-1)) if isinstance(x, ct.CT) else []

        # time warp: W = clamp(L/2 - eps, 0, max); centre in [W, L - W]; |shift| <= W
        if elems(w0):
            Wt = z3.If(Lr / 2 - EPS < 0, 0, z3.If(Lr / 2 - EPS > MTW, MTW, Lr / 2 - EPS))
            for a, b in zip(elems(w0), elems(w)):
                goals.append(("time_warp_window", z3.And(Wt <= a, a <= Lr - Wt, -Wt <= b, b <= Wt, 2 * Wt < Lr)))
        if elems(v0):
            Fr = z3.ToReal(F)
            Wf = z3.If(Fr / 2 - EPS < 0, 0, z3.If(Fr / 2 - EPS > MFW, MFW, Fr / 2 - EPS))
            for a, b in zip(elems(v0), elems(v)):
                goals.append(("freq_warp_window", z3.And(Wf <= a, a <= Fr - Wf, -Wf <= b, b <= Wf)))
        # time masks: width <= min(abs cap, floor(L * proportion)); count cap; mask inside the valid frames
        te, t0e = elems(t), elems(t0)
        if te:
            cap = z3.ToInt(z3.If(Lr * MTMP > z3.ToReal(MTM), z3.ToReal(MTM), Lr * MTMP))
            ncap = z3.ToInt(z3.If(Lr * NTMP > ntm, z3.RealVal(ntm), Lr * NTMP))
            for m, (wd, st) in enumerate(zip(te, t0e)):
                wd, st = ip.to_z3(wd), ip.to_z3(st)
                # one goal per conjunct: small nonlinear queries are decided fast and reproducibly, the conjunction was not
                for lbl, g_ in (("width_nonneg", 0 <= wd), ("width_le_floor_of_both_caps", wd <= cap), ("width_le_abs_cap", wd <= MTM), ("floor_of_caps_le_proportion", z3.ToReal(cap) <= Lr * MTMP),
                                # cut: with the two goals above proved, this one is linear
                                ("width_le_proportion", z3.Implies(z3.And(wd <= cap, z3.ToReal(cap) <= Lr * MTMP), z3.ToReal(wd) <= Lr * MTMP)),
                                ("zero_beyond_count_cap", z3.Implies(m >= ncap, wd == 0)), ("start_nonneg", 0 <= st), ("inside_valid_frames", z3.ToReal(st + wd) <= Lr)):
                    goals.append(("time_mask_%d.%s" % (m, lbl), g_))
        else:
            goals.append(("time_masks_disabled_only_when_a_limit_is_zero", z3.Or(MTM == 0, MTMP == 0, z3.BoolVal(ntm == 0), NTMP == 0)))
        fe, f0e = elems(f), elems(f0)
        if fe:
            for m, (wd, st) in enumerate(zip(fe, f0e)):
                wd, st = ip.to_z3(wd), ip.to_z3(st)
                for lbl, g_ in (("width_nonneg", 0 <= wd), ("width_le_abs_cap", wd <= MFM), ("width_le_F", wd <= F), ("start_nonneg", 0 <= st), ("inside", st + wd <= F)):
                    goals.append(("freq_mask_%d.%s" % (m, lbl), g_))
        else:
            goals.append(("freq_masks_disabled_only_when_a_limit_is_zero", z3.Or(MFM == 0, z3.BoolVal(nfm == 0))))
        return goals if goals else True

    pre = [T >= 1, F >= 1, L >= 1, L <= T, EPS > 0, EPS <= z3.RealVal(1) / 1024, MTW >= 0, MFW >= 0, MTM >= 0, MFM >= 0, MTMP >= 0, MTMP <= 1, NTMP >= 0, NTMP <= 1]
    return VC("C08.P.draw_bounds", name, M, "spec_augment_draw_parameters", thunk, pre=pre, posts=[("limits", post)],
              twins=[("mask_may_start_anywhere", lambda p: z3.And([ip.to_z3(x) + 1 <= L for x in (p.value[4].a.reshape(-1) if isinstance(p.value[4], ct.CT) and p.value[4].a.size else [])] or [z3.BoolVal(True)]) if api.returns(p) and ntm else None)] if ntm else [],
              inputs={"T": T, "F": F, "length": L, "max_time_mask": MTM, "max_freq_mask": MFM, "max_time_mask_proportion": MTMP, "num_time_mask_proportion": NTMP,
                      "max_time_warp": MTW, "max_freq_warp": MFW, "eps": EPS},
              assumptions=["torch.rand yields values in [0, 1)", "float arithmetic treated as real arithmetic (the eps tricks exist for rounding; rounding itself is exercised by the bounded driver)",
                           "input validation (_spec_augment_check_input) assumed passed: 1 <= length <= T", "batch size 1 and a concrete number of masks per VC: the code is element-wise in both"],
              lemmas=[("product_facts_are_valid", [], z3.And(solve.product_facts(PA, PB, PA * PB) + solve.shared_factor_facts(PA, PB, PC, PA * PB, PA * PC)), "raw"),
                      ("ratio_facts_are_valid", [PB != 0], z3.And([(PA / PB) * PB == PA] + solve.ratio_facts(PA, PB, PA / PB)), "raw"),
                      ("quotient_facts_are_valid", [IB > 0], z3.And(IA == IB * (IA / IB) + IA % IB, IA % IB >= 0, IA % IB < IB), "raw"),
                      ("product_facts_are_valid_over_the_integers", [], z3.And(solve.product_facts(IA, IB, IA * IB) + solve.shared_factor_facts(IA, IB, IC, IA * IB, IA * IC)), "raw")],
              timeout_ms=60000)


def apply_vc(time_masks, freq_masks):
    """P rung: spec_augment_apply_parameters without warps, for SYMBOLIC batch size, frames, coefficients and NUMBERS of masks:
    an entry is zeroed exactly when a drawn time mask covers its frame or a drawn frequency mask covers its coefficient, and is the
    input's entry otherwise; the result has the input's shape. any(dim) has the assumed contract 'true iff some position is'."""
    import pydrobert.torch._img as IMG
    from vf.pyvc import symtensor as stn

    NB, TT, FF, MT, MF, N0, T0, F0 = z3.Ints("N T F num_time_masks num_freq_masks n0 t0 f0")
    X = z3.Function("feats", z3.IntSort(), z3.IntSort(), z3.IntSort(), z3.RealSort())
    TS = z3.Function("time_mask_start", z3.IntSort(), z3.IntSort(), z3.IntSort())
    TW = z3.Function("time_mask_width", z3.IntSort(), z3.IntSort(), z3.IntSort())
    FS = z3.Function("freq_mask_start", z3.IntSort(), z3.IntSort(), z3.IntSort())
    FW = z3.Function("freq_mask_width", z3.IntSort(), z3.IntSort(), z3.IntSort())
    name = "spec_augment_apply_parameters[symbolic N, T, F and mask counts; time masks=%s, freq masks=%s, no warp]" % (time_masks, freq_masks)
    m = z3.Int("m_q")

    def thunk(I):
        I.stubs.update(stn.stubs())
        I.contracts["pydrobert.torch._img._spec_augment_check_input"] = lambda I2, a, k: None
        feats = stn.ST((NB, TT, FF), lambda a, b, c: X(ip.to_z3(a), ip.to_z3(b), ip.to_z3(c)), "float")
        empty = ct.CT(ct.np.empty((0,), dtype=object), "float")
        mk = lambda fn, cnt: stn.ST((NB, cnt), lambda a, b: fn(ip.to_z3(a), ip.to_z3(b)), "long")
        t_0, t = (mk(TS, MT), mk(TW, MT)) if time_masks else (empty, empty)
        f_0, f = (mk(FS, MF), mk(FW, MF)) if freq_masks else (empty, empty)
        I.ex.ghost["feats"] = feats
        return I.call(IMG.spec_augment_apply_parameters, [feats, (empty, empty, empty, empty, t_0, t, f_0, f), 1], {})

    def post(p):
        if not api.returns(p):
            return False
        out = p.value
        if not hasattr(out, "elem"):
            return [("result_is_a_tensor", z3.BoolVal(False))]
        tm = z3.Exists([m], z3.And(0 <= m, m < MT, TS(N0, m) <= T0, T0 < TS(N0, m) + TW(N0, m))) if time_masks else z3.BoolVal(False)
        fm = z3.Exists([m], z3.And(0 <= m, m < MF, FS(N0, m) <= F0, F0 < FS(N0, m) + FW(N0, m))) if freq_masks else z3.BoolVal(False)
        e = ip.to_z3(out.elem(N0, T0, F0))
        shape = tuple(out.shape)
        return [("result_shape", z3.And(z3.BoolVal(len(shape) == 3), ip.to_z3(shape[0]) == NB, ip.to_z3(shape[1]) == TT, ip.to_z3(shape[2]) == FF)),
                ("masked_entries_are_zero", z3.Implies(z3.Or(tm, fm), e == 0)),
                ("other_entries_are_the_input's", z3.Implies(z3.Not(z3.Or(tm, fm)), e == X(N0, T0, F0)))]

    pre = [NB >= 1, TT >= 1, FF >= 1, MT >= 1, MF >= 1, 0 <= N0, N0 < NB, 0 <= T0, T0 < TT, 0 <= F0, F0 < FF]
    return VC("C08.P.apply_masks", name, M, "spec_augment_apply_parameters", thunk, pre=pre, posts=[("zeroes_exactly_the_masked_bands", post)],
              inputs={"N": NB, "T": TT, "F": FF, "num_time_masks": MT, "num_freq_masks": MF}, timeout_ms=30000,
              twins=[("everything_zeroed", lambda p: ip.to_z3(p.value.elem(N0, T0, F0)) == 0 if api.returns(p) and hasattr(p.value, "elem") else None)],
              assumptions=["any over a symbolic extent: true iff some position in range is (assumed contract); tensors as index functions (vf/pyvc/symtensor.py)",
                           "no warp drawn (empty warp parameters): the warp path is numerical (grid_sample) and is the bounded driver's", "input validation assumed passed"])


PA, PB, PC = z3.Reals("lemma_x lemma_y lemma_z")
IA, IB, IC = z3.Ints("lemma_i lemma_j lemma_k")


def forward_vc(training, with_lengths):
    """P rung: SpecAugment.forward with draw_parameters / apply_parameters under CONTRACT (their own clauses: C08.P.draw_bounds,
    C08.P.apply_masks): in training mode the result is apply_parameters(feats, draw_parameters(feats, lengths), lengths) with the very
    tensors given - lengths omitted: a vector of N entries all equal to the number of frames T, for SYMBOLIC N and T -; in
    evaluation mode the input itself comes back and nothing is drawn."""
    import pydrobert.torch._img as IMG
    from vf.pyvc import symtensor as stn

    N, T, F, N0 = z3.Ints("N T F n0")
    X = z3.Function("feats", z3.IntSort(), z3.IntSort(), z3.IntSort(), z3.RealSort())
    LEN = z3.Function("lengths", z3.IntSort(), z3.IntSort())
    name = "SpecAugment.forward[training=%s, lengths %s; symbolic N, T, F]" % (training, "given" if with_lengths else "omitted")

    def thunk(I):
        I.stubs.update(stn.stubs())
        z = ip.to_z3
        feats = stn.ST((N, T, F), lambda a, b, c: X(z(a), z(b), z(c)), "float")
        lens = stn.ST((N,), lambda a: LEN(z(a)), "long") if with_lengths else None
        calls = []
        OUTF = z3.Function("apply_parameters_result", z3.IntSort(), z3.IntSort(), z3.IntSort(), z3.RealSort())
        PARAMS, OUT = object(), stn.ST((N, T, F), lambda a, b, c: OUTF(z(a), z(b), z(c)), "float")

        def draw(I2, a, k):
            calls.append(("draw", a[1:], k))
            return PARAMS

        def apply_(I2, a, k):
            calls.append(("apply", a[1:], k))
            return OUT

        I.contracts["SpecAugment.draw_parameters"] = draw
        I.contracts["SpecAugment.apply_parameters"] = apply_
        obj = ip.SObj(IMG.SpecAugment, {"training": training}, "spec_augment")
        out = I.call(I.getattr(obj, "forward"), [feats] + ([lens] if with_lengths else []), {})
        I.ex.ghost.update(calls=calls, feats=feats, lens=lens, PARAMS=PARAMS, OUT=OUT)
        return out

    def post(p):
        if not api.returns(p):
            return False
        g = p.ghost
        calls = g["calls"]
        T0, F0 = z3.Ints("t0 f0")
        same_t = lambda a, b: (z3.And(z3.BoolVal(hasattr(a, "elem") and len(a.shape) == 3), ip.to_z3(a.shape[0]) == N, ip.to_z3(a.shape[1]) == T, ip.to_z3(a.shape[2]) == F,
                                      ip.to_z3(a.elem(N0, T0, F0)) == ip.to_z3(b.elem(N0, T0, F0))) if hasattr(a, "elem") and len(a.shape) == 3 else z3.BoolVal(False))  # equal as tensors (element at a generic position)
        if not training:
            return [("evaluation_mode_returns_the_input", same_t(p.value, g["feats"])), ("evaluation_mode_draws_nothing", z3.BoolVal(not calls))]
        ok = len(calls) == 2 and calls[0][0] == "draw" and calls[1][0] == "apply" and not calls[0][2] and not calls[1][2] and len(calls[0][1]) == 2 and len(calls[1][1]) == 3
        if not ok:
            return [("one_draw_then_one_apply", z3.BoolVal(False))]
        (f1, l1), (f2, pr, l2) = calls[0][1], calls[1][1]
        want_len = (lambda n: LEN(n)) if with_lengths else (lambda n: T)
        len_ok = lambda l: (z3.And(z3.BoolVal(len(l.shape) == 1), ip.to_z3(l.shape[0]) == N, z3.Implies(z3.And(0 <= N0, N0 < N), ip.to_z3(l.elem(N0)) == want_len(N0))) if hasattr(l, "elem") else z3.BoolVal(False))
        return [("features_given_to_draw_and_apply_are_the_input", z3.And(same_t(f1, g["feats"]), same_t(f2, g["feats"]))),
                ("apply_gets_the_drawn_parameters", z3.BoolVal(pr is g["PARAMS"])),
                ("lengths_given_to_draw_and_apply_are_the_input_lengths" if with_lengths else "omitted_lengths_mean_every_frame", z3.And(len_ok(l1), len_ok(l2))),
                ("result_is_what_apply_returned", same_t(p.value, g["OUT"]))]

    return VC("C08.P.forward_composes", name, M, "SpecAugment.forward", thunk, pre=[N >= 1, T >= 0, F >= 1, 0 <= N0, N0 < N, 0 <= z3.Int("t0"), z3.Int("t0") < T, 0 <= z3.Int("f0"), z3.Int("f0") < F], posts=[("draw_then_apply", post)], inputs={"N": N, "T": T, "F": F}, timeout_ms=20000,
              assumptions=["callee contracts: draw_parameters (C08.P.draw_bounds) and apply_parameters (C08.P.apply_masks) are replaced by opaque results; what is proved is the composition and the arguments passed"])


def forward_vcs(ctx):
    return [forward_vc(tr, wl) for tr in (True, False) for wl in (True, False)]


def apply_vcs(ctx):
    return [apply_vc(True, True), apply_vc(True, False), apply_vc(False, True), apply_vc(False, False)]


def vcs(ctx):
    if ctx.quick:  # one configuration per enabled/disabled combination; the thorough tier widens the mask counts
        return [draw_vc(2, 1, True), draw_vc(1, 0, False), draw_vc(0, 1, True)]
    out = []
    for ntm in (0, 1, 2, 3):
        for nfm in (0, 1, 2):
            out.append(draw_vc(ntm, nfm, (ntm + nfm) % 2 == 0))
    return out
