"""C08, engine A part: drawn SpecAugment parameters respect every configured limit.

`spec_augment_draw_parameters` is executed symbolically with a feature tensor of which only the shape
(N=1, symbolic T and F) matters, a symbolic length, symbolic limits and symbolic uniform draws u in [0,1)
(assumed contract of torch.rand). The number of masks is a concrete small count (the code is element-wise
in the mask index). Real arithmetic; eps is the dtype's machine epsilon, 0 < eps <= 2**-10.
"""
import z3

from vf.pyvc import api, ctensor as ct, interp as ip, solve
from vf.pyvc.api import VC

M = "pydrobert.torch._img"
T, F, L = z3.Ints("T F length")
EPS = z3.Real("eps")
MTW, MFW, MTMP, NTMP = z3.Reals("max_time_warp max_freq_warp max_time_mask_proportion num_time_mask_proportion")
MTM, MFM = z3.Ints("max_time_mask max_freq_mask")


class Feats:
    """feature tensor of shape (1, T, F) of which only the shape is used"""

    def __vc_getattr__(self, I, name):
        import torch

        if name == "shape":
            return (1, T, F)
        if name == "device":
            return torch.device("cpu")
        if name == "dtype":
            return torch.float32
        if name == "dim":
            class D:
                def __vc_call__(s, I, a, k):
                    return 3
            return D()
        raise ip.Unsupported("feats.%s" % name)


def draw_vc(ntm, nfm, with_lengths):
    import pydrobert.torch._img as IMG

    name = "draw[num_time_mask=%d,num_freq_mask=%d,lengths=%s]" % (ntm, nfm, "given" if with_lengths else "omitted")

    def thunk(I):
        us = []

        def rand(I2, size, *a, **k):
            shape = tuple(size) if isinstance(size, (list, tuple)) else (size,)
            t = ct.CT.symbolic("u%d" % len(us), shape, "float")
            for v in t.a.reshape(-1):
                I2.ex.assume(z3.And(v >= 0, v < 1))
            us.append(t)
            return t

        I.stubs["torch.rand"] = rand
        I.contracts["pydrobert.torch._img._spec_augment_check_input"] = lambda I2, a, k: None  # input validation: its own precondition below
        I.contracts["pydrobert.torch._img._get_tensor_eps"] = lambda I2, a, k: EPS
        lengths = ct.CT(ct.obj_array(L, (1,)), "long") if with_lengths else None
        out = I.call(IMG.spec_augment_draw_parameters, [Feats(), MTW, MFW, MTM, MFM, MTMP, ntm, NTMP, nfm], dict(lengths=lengths))
        return out

    Lr = z3.ToReal(L) if with_lengths else z3.ToReal(T)

    def post(p):
        if not api.returns(p) or not isinstance(p.value, tuple) or len(p.value) != 8:
            return False
        w0, w, v0, v, t0, t, f0, f = p.value
        goals = []

        def elems(x):
            return list(x.a.reshape(-1)) if isinstance(x, ct.CT) else []

        # time warp: W = clamp(L/2 - eps, 0, max); centre in [W, L - W]; |shift| <= W
        if elems(w0):
            Wt = z3.If(Lr / 2 - EPS < 0, 0, z3.If(Lr / 2 - EPS > MTW, MTW, Lr / 2 - EPS))
            for a, b in zip(elems(w0), elems(w)):
                goals.append(("time_warp_window", z3.And(Wt <= a, a <= Lr - Wt, -Wt <= b, b <= Wt, 2 * Wt < Lr)))
        if elems(v0):
            Fr = z3.ToReal(F)
            Wf = z3.If(Fr / 2 - EPS < 0, 0, z3.If(Fr / 2 - EPS > MFW, MFW, Fr / 2 - EPS))
            for a, b in zip(elems(v0), elems(v)):
                goals.append(("freq_warp_window", z3.And(Wf <= a, a <= Fr - Wf, -Wf <= b, b <= Wf)))
        # time masks: width <= min(abs cap, floor(L * proportion)); count cap; mask inside the valid frames
        te, t0e = elems(t), elems(t0)
        if te:
            cap = z3.ToInt(z3.If(Lr * MTMP > z3.ToReal(MTM), z3.ToReal(MTM), Lr * MTMP))
            ncap = z3.ToInt(z3.If(Lr * NTMP > ntm, z3.RealVal(ntm), Lr * NTMP))
            for m, (wd, st) in enumerate(zip(te, t0e)):
                wd, st = ip.to_z3(wd), ip.to_z3(st)
                # one goal per conjunct: small nonlinear queries are decided fast and reproducibly, the conjunction was not
                for lbl, g_ in (("width_nonneg", 0 <= wd), ("width_le_floor_of_both_caps", wd <= cap), ("width_le_abs_cap", wd <= MTM), ("floor_of_caps_le_proportion", z3.ToReal(cap) <= Lr * MTMP),
                                # cut: with the two goals above proved, this one is linear
                                ("width_le_proportion", z3.Implies(z3.And(wd <= cap, z3.ToReal(cap) <= Lr * MTMP), z3.ToReal(wd) <= Lr * MTMP)),
                                ("zero_beyond_count_cap", z3.Implies(m >= ncap, wd == 0)), ("start_nonneg", 0 <= st), ("inside_valid_frames", z3.ToReal(st + wd) <= Lr)):
                    goals.append(("time_mask_%d.%s" % (m, lbl), g_))
        else:
            goals.append(("time_masks_disabled_only_when_a_limit_is_zero", z3.Or(MTM == 0, MTMP == 0, z3.BoolVal(ntm == 0), NTMP == 0)))
        fe, f0e = elems(f), elems(f0)
        if fe:
            for m, (wd, st) in enumerate(zip(fe, f0e)):
                wd, st = ip.to_z3(wd), ip.to_z3(st)
                for lbl, g_ in (("width_nonneg", 0 <= wd), ("width_le_abs_cap", wd <= MFM), ("width_le_F", wd <= F), ("start_nonneg", 0 <= st), ("inside", st + wd <= F)):
                    goals.append(("freq_mask_%d.%s" % (m, lbl), g_))
        else:
            goals.append(("freq_masks_disabled_only_when_a_limit_is_zero", z3.Or(MFM == 0, z3.BoolVal(nfm == 0))))
        return goals if goals else True

    pre = [T >= 1, F >= 1, L >= 1, L <= T, EPS > 0, EPS <= z3.RealVal(1) / 1024, MTW >= 0, MFW >= 0, MTM >= 0, MFM >= 0, MTMP >= 0, MTMP <= 1, NTMP >= 0, NTMP <= 1]
    return VC("C08.P.draw_bounds", name, M, "spec_augment_draw_parameters", thunk, pre=pre, posts=[("limits", post)],
              twins=[("mask_may_start_anywhere", lambda p: z3.And([ip.to_z3(x) + 1 <= L for x in (p.value[4].a.reshape(-1) if isinstance(p.value[4], ct.CT) and p.value[4].a.size else [])] or [z3.BoolVal(True)]) if api.returns(p) and ntm else None)] if ntm else [],
              inputs={"T": T, "F": F, "length": L, "max_time_mask": MTM, "max_freq_mask": MFM, "max_time_mask_proportion": MTMP, "num_time_mask_proportion": NTMP,
                      "max_time_warp": MTW, "max_freq_warp": MFW, "eps": EPS},
              assumptions=["torch.rand yields values in [0, 1)", "float arithmetic treated as real arithmetic (the eps tricks exist for rounding; rounding itself is exercised by the bounded driver)",
                           "input validation (_spec_augment_check_input) assumed passed: 1 <= length <= T", "batch size 1 and a concrete number of masks per VC: the code is element-wise in both"],
              lemmas=[("product_facts_are_valid", [], z3.And(solve.product_facts(PA, PB, PA * PB) + solve.shared_factor_facts(PA, PB, PC, PA * PB, PA * PC)), "raw"),
                      ("product_facts_are_valid_over_the_integers", [], z3.And(solve.product_facts(IA, IB, IA * IB) + solve.shared_factor_facts(IA, IB, IC, IA * IB, IA * IC)), "raw")],
              timeout_ms=60000)


PA, PB, PC = z3.Reals("lemma_x lemma_y lemma_z")
IA, IB, IC = z3.Ints("lemma_i lemma_j lemma_k")


def vcs(ctx):
    if ctx.quick:  # one configuration per enabled/disabled combination; the thorough tier widens the mask counts
        return [draw_vc(2, 1, True), draw_vc(1, 0, False), draw_vc(0, 1, True)]
    out = []
    for ntm in (0, 1, 2, 3):
        for nfm in (0, 1, 2):
            out.append(draw_vc(ntm, nfm, (ntm + nfm) % 2 == 0))
    return out
