"""C12 - bounded run-time contracts (engine B) for data-directory validation, fixing, the
statistics report, sos/eos insertion/stripping and utterance discovery.

Real functions under contract (called through their public entry points):
  pydrobert.torch.data.validate_spect_data_set           (_datasets.py::_info_and_validate)
  pydrobert.torch.command_line.get_torch_spect_data_dir_info  (get-torch-spect-data-dir-info)
  pydrobert.torch.data.SpectDataSet.__getitem__ / .write_hyp, LangDataSet.__getitem__ / .write_hyp
                                                         (_datasets.py::_load_ref, _write_hyp)
  pydrobert.torch.data.SpectDataSet.__init__ / find_utt_ids    (_datasets.py::_utts_in_dir)

Oracle.  Everything below the line "the independent spec" is written from the property text and
the documentation it refers to (docstring of validate_spect_data_set: conditions 1-6 and permitted
fixes 1-5; the key list 1-10 of get-torch-spect-data-dir-info; the sos/eos parameter docs and the
write_hyp docstring).  It works on *descriptions* of stored tensors ({"d": dtype, "s": shape, "v":
flat values}) in pure Python and shares no code with the library.  A directory is a list of
utterances, each with a feature file and optionally an alignment and a reference file; the
documented conditions are conditions on the STORED tensors, so the oracle never looks at how the
data set object that is handed to the validator was configured (sos/eos, tokens_only, suppress_*),
except that a data set built with suppress_alis=True has, by its documentation, no alignments.

Histories.  A case of C12.val.* / C12.fix.sticks is a directory plus a history: a list of
validation passes, each strict (None) or with a fix tolerance k.  After every pass the checker
compares raise/no-raise with the oracle and the files on disk with the oracle's directory:
  strict pass      raises  <=> some documented condition is violated;   never changes a file
                   (the documented exception is ValueError; where the oracle demands a rejection any
                   exception is accepted as one, where it demands acceptance every exception is a failure)
  pass with fix k  raises  <=> some defect is not one of the documented repairable ones (for k);
                   no raise => every file equals the documented repair of what was stored, and
                               nothing else changed (so a later strict pass must accept: the
                               history contains that pass);
                   raise    => every file is either untouched or the complete documented repair
                               of that file (the property does not say how far a failing pass
                               gets, so both are accepted, per file).
The state after a pass is re-read from disk, so later passes are judged on what is really stored.

Domain decisions (all stated in the evidence): token ids, sos and eos are non-negative and sos !=
eos (property quantifier); dtypes int8/int16 are not generated for alignments/references (the
documentation says "bytes or 32-bit integers" can be upcast, the code also upcasts int8/int16 -
whether that is documented is left undecided); CUDA tensors cannot be produced here.
"""
import itertools
import os
import random
import tempfile
import warnings

SOS, EOS = 7, 8  # never used as token ids by the generators
_TMPBASE = "/dev/shm" if os.path.isdir("/dev/shm") and os.access("/dev/shm", os.W_OK) else None


def _tmpdir():
    return tempfile.TemporaryDirectory(prefix="c12_", dir=_TMPBASE)


# =============================================================================================
# the independent spec (pure Python over tensor descriptions)

UPCASTABLE = ("uint8", "int32")  # "a reference or alignment of bytes or 32-bit integers can be upcast to long"


def sp(dtype, shape, vals=None):
    n = 1
    for k in shape:
        n *= k
    if vals is None:
        vals = [0] * n
    assert len(vals) == n, (shape, vals)
    return {"d": dtype, "s": list(shape), "v": list(vals)}


def _canon(spec):
    """Unknown boundaries are 'negative' in the documentation; which negative number is stored is
    immaterial, so (R, 3) integer tensors are compared with negative boundaries mapped to -1."""
    if spec is None:
        return None
    d, s, v = spec["d"], list(spec["s"]), list(spec["v"])
    if len(s) == 2 and s[1] == 3 and not d.startswith("float") and d != "bool":
        v = [x if (i % 3 == 0 or x >= 0) else -1 for i, x in enumerate(v)]
    return (d, tuple(s), tuple(v))


def same(a, b):
    return _canon(a) == _canon(b)


BAD = "bad"


def spec_feat_file(f):
    """conditions 2-3 on one feature file (2 and 4 also compare files, see spec_step)"""
    return BAD if len(f["s"]) != 2 else f


def spec_ali_file(a, T, fix):
    """conditions 5.1-5.3, permitted fixes 2 and 5. Returns BAD or the (possibly repaired) file."""
    d, s, v = a["d"], list(a["s"]), list(a["v"])
    if d != "int64":
        if fix is not None and d in UPCASTABLE:
            d = "int64"
        else:
            return BAD
    if len(s) != 1:
        return BAD
    if s[0] != T:
        if fix is not None and T < s[0] <= T + fix:
            s, v = [T], v[:T]
        else:
            return BAD
    return {"d": d, "s": s, "v": v}


def spec_ref_file(r, T, fix):
    """conditions 6.1, 6.3 (6.2 compares files), permitted fixes 2, 3, 4."""
    d, s, v = r["d"], list(r["s"]), list(r["v"])
    if d != "int64":
        if fix is not None and d in UPCASTABLE:
            d = "int64"
        else:
            return BAD
    if len(s) == 1:
        return {"d": d, "s": s, "v": v}
    if len(s) != 2 or s[1] != 3:
        return BAD
    out = []
    for i in range(s[0]):
        tok, a, b = v[3 * i: 3 * i + 3]
        if (a < 0 and b < 0) or (0 <= a <= b <= T):
            pass
        elif fix is None:
            return BAD
        elif (a < 0) != (b < 0):  # fix 3: only a start or an end bound: the existing one is removed
            a, b = -1, -1
        elif 0 <= a <= b and b > T and b - T <= fix and a <= T:  # fix 4: end too long by <= fix, and end stays >= start
            b = T
        else:
            return BAD
        out += [tok, a, b]
    return {"d": d, "s": s, "v": out}


def spec_step(state, fix, cfg):
    """One validation pass over `state` (list of utterance dicts name/feat[/ali][/ref]).
    Returns (raises, new_state, allowed) where allowed[(name, kind)] lists the file contents that
    are acceptable after a *raising* pass."""
    use_ali = not cfg.get("suppress_alis", False)
    raises = False
    new_state, allowed = [], {}
    feat_sig, ref_dims = set(), set()
    for u in state:
        nu = {"name": u["name"], "feat": u["feat"]}
        allowed[(u["name"], "feat")] = [u["feat"]]
        f = spec_feat_file(u["feat"])
        T = None
        if f is BAD:
            raises = True
        else:
            T = f["s"][0]
            feat_sig.add((f["d"], f["s"][1]))
        if "ali" in u:
            allowed[(u["name"], "ali")] = [u["ali"]]
            nu["ali"] = u["ali"]
            if use_ali:
                a = BAD if T is None else spec_ali_file(u["ali"], T, fix)
                if a is BAD:
                    raises = True
                else:
                    nu["ali"] = a
                    allowed[(u["name"], "ali")].append(a)
        if "ref" in u:
            allowed[(u["name"], "ref")] = [u["ref"]]
            nu["ref"] = u["ref"]
            r = BAD if T is None else spec_ref_file(u["ref"], T, fix)
            if r is BAD:
                raises = True
            else:
                nu["ref"] = r
                allowed[(u["name"], "ref")].append(r)
            ref_dims.add(len(u["ref"]["s"]))
        new_state.append(nu)
    if len(feat_sig) > 1:  # one dtype (condition 2), one width (condition 4)
        raises = True
    if len(ref_dims) > 1:  # condition 6.2
        raises = True
    return raises, (state if raises else new_state), allowed


def spec_recount(state):
    """Keys 1-10 of get-torch-spect-data-dir-info recounted from the stored tensors (valid directory)."""
    has_ali = any("ali" in u for u in state)
    has_ref = any("ref" in u for u in state)
    out = {"num_utterances": len(state), "total_frames": sum(u["feat"]["s"][0] for u in state)}
    if state:
        out["num_filts"] = state[0]["feat"]["s"][1]
    counts, segs = {}, {}
    for u in state:
        if "ali" not in u:
            continue
        prev = None
        for c in u["ali"]["v"]:
            counts[c] = counts.get(c, 0) + 1
            if c != prev:
                segs[c] = segs.get(c, 0) + 1  # a maximal run of c
            prev = c
    out["max_ali_class"] = max(counts) if (has_ali and counts) else -1
    rframes, rsegs, unknown = {}, {}, set()
    total_tokens = 0
    for u in state:
        if "ref" not in u:
            continue
        s, v = u["ref"]["s"], u["ref"]["v"]
        total_tokens += s[0]
        for i in range(s[0]):
            if len(s) == 1:
                tok, a, b = v[i], -1, -1
            else:
                tok, a, b = v[3 * i: 3 * i + 3]
            rsegs[tok] = rsegs.get(tok, 0) + 1
            if a < 0 or b < 0:
                unknown.add(tok)  # "does not provide segment boundaries"
            else:
                rframes[tok] = rframes.get(tok, 0) + (b - a)
    out["max_ref_class"] = max(rsegs) if (has_ref and rsegs) else -1
    out["total_tokens"] = total_tokens if has_ref else -1
    if out["max_ali_class"] >= 0:
        w = len(str(out["max_ali_class"]))
        for i in range(out["max_ali_class"] + 1):
            out["count_%0*d" % (w, i)] = counts.get(i, 0)
            out["segs_%0*d" % (w, i)] = segs.get(i, 0)
    if out["max_ref_class"] >= 0:
        w = len(str(out["max_ref_class"]))
        for i in range(out["max_ref_class"] + 1):
            out["rcount_%0*d" % (w, i)] = -1 if (i in unknown or i not in rsegs) else rframes.get(i, 0)
            out["rsegs_%0*d" % (w, i)] = rsegs.get(i, 0)
    return out


def spec_wrap(ref, sos, eos, tokens_only):
    """What reading a stored reference yields: configured sos before / eos after EVERY transcript."""
    s, v = list(ref["s"]), list(ref["v"])
    if len(s) == 2 and tokens_only:
        v, s = [v[i * s[1]] for i in range(s[0])], [s[0]]
    if len(s) == 1:
        v = ([sos] if sos is not None else []) + v + ([eos] if eos is not None else [])
        return {"d": ref["d"], "s": [len(v)], "v": v}
    w = s[1]
    pad = [-1] * (w - 1)
    v = ([sos] + pad if sos is not None else []) + v + ([eos] + pad if eos is not None else [])
    return {"d": ref["d"], "s": [len(v) // w, w], "v": v}


def spec_bare(ref, tokens_only):
    s, v = list(ref["s"]), list(ref["v"])
    if len(s) == 2 and tokens_only:
        v, s = [v[i * s[1]] for i in range(s[0])], [s[0]]
    return {"d": "int64", "s": s, "v": [int(x) for x in v]}


def spec_select(name, prefix, suffix):
    """utterance id of a file name, or None if the file does not count towards the data set"""
    if len(name) < len(prefix) + len(suffix):
        return None
    if name.startswith(prefix) and name.endswith(suffix):
        return name[len(prefix): len(name) - len(suffix)]
    return None


# =============================================================================================
# glue: descriptions <-> real tensors / directories


def _dtype(name):
    import torch

    return getattr(torch, name)


def to_tensor(spec):
    import torch

    return torch.tensor(spec["v"], dtype=_dtype(spec["d"])).reshape(spec["s"])


def to_spec(t):
    import torch

    if not isinstance(t, torch.Tensor):
        return {"d": "not-a-tensor:%s" % type(t).__name__, "s": [], "v": []}
    return {"d": str(t.dtype).split(".")[-1], "s": list(t.shape), "v": t.reshape(-1).tolist()}


SUB = {"feat": "feat", "ali": "ali", "ref": "ref"}


def write_state(root, state, prefix="", suffix=".pt"):
    import torch

    for u in state:
        for kind in ("feat", "ali", "ref"):
            if kind in u:
                d = os.path.join(root, SUB[kind])
                os.makedirs(d, exist_ok=True)
                torch.save(to_tensor(u[kind]), os.path.join(d, prefix + u["name"] + suffix))


def _paths(root, state, prefix="", suffix=".pt"):
    for i, u in enumerate(state):
        for kind in ("feat", "ali", "ref"):
            if kind in u:
                yield i, kind, os.path.join(root, SUB[kind], prefix + u["name"] + suffix)


def mark_unmodified(root, state):
    """Give every file the modification time 0, so that any later rewrite is visible from os.stat alone."""
    for _, _, pth in _paths(root, state):
        os.utime(pth, ns=(0, 0))


def read_state(root, state, only_modified=False):
    """The directory as stored now. With only_modified, files whose modification time is still the 0 set by
    mark_unmodified are not re-read (nothing has written them); re-read files are marked again."""
    import torch

    out = [dict(u) for u in state]
    for i, kind, pth in _paths(root, state):
        if only_modified and os.stat(pth).st_mtime_ns == 0:
            continue
        out[i][kind] = to_spec(torch.load(pth))
        if only_modified:
            os.utime(pth, ns=(0, 0))
    return out


def make_ds(root, cfg):
    from pydrobert.torch import data

    params = data.SpectDataParams(sos=cfg.get("sos"), eos=cfg.get("eos"))
    return data.SpectDataSet(root, params=params, suppress_alis=cfg.get("suppress_alis", False),
                             suppress_uttids=cfg.get("suppress_uttids", True), tokens_only=cfg.get("tokens_only", False))


def _short(spec):
    return "%s%s%s" % (spec["d"], spec["s"], spec["v"])


# =============================================================================================
# C12.val.iff / C12.val.dtype_dims / C12.fix.sticks : validate/fix/validate histories


def check_history(case):
    from pydrobert.torch import data

    cfg = case.get("cfg", {})
    state = [dict(u) for u in case["utts"]]
    with _tmpdir() as root, warnings.catch_warnings():
        warnings.simplefilter("ignore")
        write_state(root, state)
        mark_unmodified(root, state)
        ds = make_ds(root, cfg)
        if len(ds) != len(state):
            return "data set lists %d utterances, directory has %d" % (len(ds), len(state))
        for i, fix in enumerate(case["history"]):
            want_raise, want_state, allowed = spec_step(state, fix, cfg)
            what = "pass %d (%s)" % (i, "strict" if fix is None else "fix=%d" % fix)
            try:
                data.validate_spect_data_set(ds, fix)
                raised = None
            except Exception as e:  # the property says "raises"; the documented type is ValueError, any exception counts as a rejection
                raised = "%s(%r)" % (type(e).__name__, str(e).replace(root, "<dir>")[-160:])
            if raised is not None and not want_raise:
                return "%s raised %s but %s" % (what, raised, "the directory meets every documented condition" if fix is None else "every defect present is a documented repairable one")
            if raised is None and want_raise:
                return "%s accepted a directory that %s" % (what, "violates a documented condition" if fix is None else "has a defect outside the documented repairable ones")
            disk = read_state(root, state, only_modified=True)
            for u0, u1, uw in zip(state, disk, want_state):
                for kind in ("feat", "ali", "ref"):
                    if kind not in u0:
                        continue
                    if fix is None or raised is None:
                        if not same(u1[kind], uw[kind]):
                            tag = ""
                            if kind == "ref" and (cfg.get("sos") is not None or cfg.get("eos") is not None) and len(uw[kind]["s"]) in (1, 2) \
                                    and same(u1[kind], spec_wrap(uw[kind], cfg.get("sos"), cfg.get("eos"), False)):
                                tag = " [stored WITH the data set's sos/eos]"
                            return "%s: %s/%s.pt on disk is %s, expected %s%s (was %s)" % (what, kind, u0["name"], _short(u1[kind]), _short(uw[kind]), tag, _short(u0[kind]))
                    elif not any(same(u1[kind], a) for a in allowed[(u0["name"], kind)]):
                        tag = ""
                        if kind == "ref" and (cfg.get("sos") is not None or cfg.get("eos") is not None) and any(
                                len(a["s"]) in (1, 2) and same(u1[kind], spec_wrap(a, cfg.get("sos"), cfg.get("eos"), False)) for a in allowed[(u0["name"], kind)]):
                            tag = " [stored WITH the data set's sos/eos]"
                        return "%s raised, and left %s/%s.pt as %s which is neither what was stored (%s) nor its documented repair%s" % (
                            what, kind, u0["name"], _short(u1[kind]), _short(u0[kind]), tag)
            state = disk
    return None


# ---- directory generators -------------------------------------------------------------------

F0 = 2  # base feature width


def feat_variants(T):
    return [
        ("feat:ok", sp("float32", [T, F0])),
        ("feat:f64", sp("float64", [T, F0])),
        ("feat:i64", sp("int64", [T, F0])),
        ("feat:w1", sp("float32", [T, 1])),
        ("feat:1d", sp("float32", [T])),
        ("feat:3d", sp("float32", [T, F0, 1])),
    ]


def _ali_vals(n):
    return [(i // 2) % 3 for i in range(n)]


def ali_variants(T, thorough=False):
    out = [("ali:none", None), ("ali:ok", sp("int64", [T], _ali_vals(T)))]
    for k in (1, 2, 3):
        out.append(("ali:+%d" % k, sp("int64", [T + k], _ali_vals(T + k))))
    if T >= 1:
        out.append(("ali:-1", sp("int64", [T - 1], _ali_vals(T - 1))))
    out += [
        ("ali:i32", sp("int32", [T], _ali_vals(T))),
        ("ali:u8", sp("uint8", [T], _ali_vals(T))),
        ("ali:i32+1", sp("int32", [T + 1], _ali_vals(T + 1))),
        ("ali:f32", sp("float32", [T], [float(x) for x in _ali_vals(T)])),
        ("ali:2d", sp("int64", [T, 1], _ali_vals(T))),
    ]
    if thorough:
        out += [
            ("ali:bool", sp("bool", [T], [bool(x % 2) for x in _ali_vals(T)])),
            ("ali:u8+2", sp("uint8", [T + 2], _ali_vals(T + 2))),
            ("ali:f64", sp("float64", [T], [float(x) for x in _ali_vals(T)])),
            ("ali:i32-2d", sp("int32", [T, 1], _ali_vals(T))),
        ]
    return out


def ref2(rows, dtype="int64"):
    return sp(dtype, [len(rows), 3], [x for r in rows for x in r])


def ref_variants(T, thorough=False):
    out = [
        ("ref:none", None),
        ("ref:1d", sp("int64", [2], [1, 2])),
        ("ref:1d-empty", sp("int64", [0])),
        ("ref:1d-i32", sp("int32", [2], [1, 2])),
        ("ref:1d-u8", sp("uint8", [1], [3])),
        ("ref:1d-f32", sp("float32", [2], [1.0, 2.0])),
        ("ref:2d", ref2([[1, 0, T], [2, -1, -1]])),
        ("ref:2d-empty", sp("int64", [0, 3])),
        ("ref:2d-emptyseg", ref2([[1, T, T], [0, 0, 0]])),
        ("ref:2d-nostart", ref2([[1, -1, 1]])),
        ("ref:2d-noend", ref2([[1, 0, -1]])),
        ("ref:2d-over1", ref2([[1, 0, T + 1]])),
        ("ref:2d-over2", ref2([[2, 0, T], [1, min(1, T), T + 2]])),
        ("ref:2d-start>T", ref2([[1, T + 1, T + 1]])),
        ("ref:2d-w2", sp("int64", [1, 2], [1, 0])),
        ("ref:2d-w4", sp("int64", [1, 4], [1, 0, 0, 0])),
        ("ref:3d", sp("int64", [1, 3, 1], [1, 0, 0])),
        ("ref:2d-i32", ref2([[1, 0, T]], "int32")),
        ("ref:2d-i32-over1", ref2([[1, 0, T + 1]], "int32")),
        ("ref:2d-mix", ref2([[0, -1, 0], [1, 0, T + 1], [2, 0, T]])),
        ("ref:2d-f32", sp("float32", [1, 3], [1.0, 0.0, 0.0])),
    ]
    if T >= 1:
        out.append(("ref:2d-start>end", ref2([[1, T, T - 1]])))
    if thorough:
        out += [
            ("ref:2d-u8", ref2([[1, 0, T]], "uint8")),
            ("ref:2d-u8-over2", ref2([[1, 0, T + 2]], "uint8")),
            ("ref:0d", sp("int64", [], [1])),
            ("ref:1d-bool", sp("bool", [1], [True])),
            ("ref:2d-over3", ref2([[1, T, T + 3]])),
            ("ref:2d-i32-w2", sp("int32", [1, 2], [1, 0])),
        ]
    return out


def utt(name, f, a, r):
    u = {"name": name, "feat": f}
    if a is not None:
        u["ali"] = a
    if r is not None:
        u["ref"] = r
    return u


def dirs_single_cross(T, thorough=False):
    """one utterance, every combination of one feature, one alignment and one reference variant"""
    for (tf, f), (ta, a), (tr, r) in itertools.product(feat_variants(T), ali_variants(T, thorough), ref_variants(T, thorough)):
        yield [tf, ta, tr], [utt("u0", f, a, r)]


def dirs_ref_rows(Ts, lo=-2, hi=3):
    """one utterance, one 2-D reference row with every (start, end) in [lo, T+hi]^2"""
    for T in Ts:
        for a in range(lo, T + hi + 1):
            for b in range(lo, T + hi + 1):
                yield ["ref:row(%d,%d)/T=%d" % (a, b, T)], [utt("u0", sp("float32", [T, F0]), None, ref2([[4, a, b]]))]


def _row_menu(T):
    return [(-1, -1), (0, T), (0, 0), (T, T), (0, T + 1), (1, T + 2), (-1, 1), (1, -1), (T, max(T - 1, 0)), (T + 1, T + 2)]


def dirs_ref_two_rows(T):
    for r1, r2 in itertools.product(_row_menu(T), repeat=2):
        yield ["ref:rows(%s,%s)/T=%d" % (r1, r2, T)], [utt("u0", sp("float32", [T, F0]), None, ref2([[0] + list(r1), [1] + list(r2)]))]


def dirs_ali_len(Ts, hi=4):
    for T in Ts:
        for Tp in range(0, T + hi + 1):
            for d in ("int64", "int32", "uint8"):
                yield ["ali:len%d/T=%d/%s" % (Tp, T, d)], [utt("u0", sp("float32", [T, F0]), sp(d, [Tp], _ali_vals(Tp)), None)]


def utt_menu(T, with_ali, thorough=False):
    """single-defect utterances (plus well-formed ones of several kinds) for multi-utterance directories"""
    ok_f, ok_a = sp("float32", [T, F0]), (sp("int64", [T], _ali_vals(T)) if with_ali else None)
    ok_r2, ok_r1 = ref2([[1, 0, T], [2, -1, -1]]), sp("int64", [2], [1, 2])
    out = []
    for tr, r in ref_variants(T, thorough):
        if r is not None:
            out.append(([tr], ok_f, ok_a, r))
    for tf, f in feat_variants(T)[1:]:
        out.append(([tf], f, ok_a, ok_r2))
        out.append(([tf, "ref:1d"], f, ok_a, ok_r1))
    if with_ali:
        for ta, a in ali_variants(T, thorough)[2:]:
            out.append(([ta], ok_f, a, ok_r2))
    return out


def dirs_pairs(T1, T2, with_ali, thorough=False):
    for (t1, f1, a1, r1), (t2, f2, a2, r2) in itertools.product(utt_menu(T1, with_ali, thorough), utt_menu(T2, with_ali, thorough)):
        yield ["u0/" + "+".join(t1), "u1/" + "+".join(t2)], [utt("u0", f1, a1, r1), utt("u1", f2, a2, r2)]


def small_menu(T):
    ok_f, ok_a = sp("float32", [T, F0]), sp("int64", [T], _ali_vals(T))
    return [
        (["ok2d"], ok_f, ok_a, ref2([[1, 0, T]])),
        (["ref:1d"], ok_f, ok_a, sp("int64", [1], [1])),
        (["feat:f64"], sp("float64", [T, F0]), ok_a, ref2([[1, 0, T]])),
        (["feat:w1"], sp("float32", [T, 1]), ok_a, ref2([[1, 0, T]])),
        (["ali:i32+1"], ok_f, sp("int32", [T + 1], _ali_vals(T + 1)), ref2([[1, 0, T]])),
        (["ref:2d-over1"], ok_f, ok_a, ref2([[1, 0, T + 1]])),
        (["ref:2d-noend"], ok_f, ok_a, ref2([[1, 0, -1]])),
        (["ref:2d-start>end"], ok_f, ok_a, ref2([[1, T, T - 1]])),
    ]


def dirs_triples(T):
    for trip in itertools.product(small_menu(T), repeat=3):
        yield ["u%d/%s" % (i, "+".join(t[0])) for i, t in enumerate(trip)], [utt("u%d" % i, t[1], t[2], t[3]) for i, t in enumerate(trip)]


def dirs_random(rng, n):
    for _ in range(n):
        N = rng.randint(1, 4)
        with_ali, with_ref = rng.random() < 0.7, rng.random() < 0.85
        clean = rng.random() < 0.35  # a good share of directories with repairable defects only
        tags, utts = [], []
        twod = rng.random() < 0.7
        for i in range(N):
            T = rng.randint(0, 5)
            f = sp("float32", [T, F0])
            if not clean and rng.random() < 0.08:
                tf, f = rng.choice(feat_variants(T)[1:])
                tags.append("u%d/%s" % (i, tf))
            a = r = None
            if with_ali:
                k = rng.choice([0, 0, 0, 1, 2, 3]) if rng.random() < 0.5 else 0
                d = rng.choice(["int64", "int64", "int32", "uint8"])
                a = sp(d, [T + k], [rng.randint(0, 3) for _ in range(T + k)])
                if not clean and rng.random() < 0.08:
                    ta, a = rng.choice(ali_variants(T, True)[5:])
                    tags.append("u%d/%s" % (i, ta))
                elif k or d != "int64":
                    tags.append("u%d/ali:%s+%d" % (i, d, k))
            if with_ref:
                R = rng.randint(0, 3)
                if twod or (not clean and rng.random() < 0.05):
                    rows = []
                    for _ in range(R):
                        c = rng.random()
                        if c < 0.4:
                            s0 = rng.randint(0, T)
                            rows.append([rng.randint(0, 3), s0, rng.randint(s0, T)])
                        elif c < 0.55:
                            rows.append([rng.randint(0, 3), -1, -1])
                        elif c < 0.7:
                            rows.append([rng.randint(0, 3)] + rng.choice([[-1, rng.randint(0, T + 1)], [rng.randint(0, T + 1), -1]]))
                        elif c < 0.9 or clean:
                            s0 = rng.randint(0, T)
                            rows.append([rng.randint(0, 3), s0, T + rng.randint(1, 3)])
                        else:
                            rows.append([rng.randint(0, 3), rng.randint(-2, T + 3), rng.randint(-2, T + 3)])
                    r = ref2(rows, rng.choice(["int64", "int64", "int64", "int32"]))
                else:
                    r = sp(rng.choice(["int64", "int64", "int32", "uint8"]), [R], [rng.randint(0, 3) for _ in range(R)])
                if not clean and rng.random() < 0.06:
                    tr, r = rng.choice(ref_variants(T, True)[1:])
                tags.append("u%d/ref:%s" % (i, _short(r)))
            utts.append(utt("u%d" % i, f, a, r))
        yield tags, utts


CFGS = {
    "plain": {},
    "soseos": {"sos": SOS, "eos": EOS},
    "sos": {"sos": SOS},
    "eos": {"eos": EOS},
    "tokens_only": {"tokens_only": True},
    "suppress_alis": {"suppress_alis": True},
    "uttids": {"suppress_uttids": False},
}


def _ali_clean(tags):
    return all(("ali:" not in t) or t.endswith("ali:none") or t.endswith("ali:ok") for t in tags)


def _dedupe(gen):
    import json

    seen = set()
    for c in gen:
        k = json.dumps(c, sort_keys=True)
        if k not in seen:
            seen.add(k)
            yield c


def hist_bound(ctx):
    if ctx.quick:
        return dict(cross_T=[2], rows_T=[0, 1, 2, 3], two_rows_T=[2], pair_T=[(2, 2), (2, 3)], triple_T=[2], nrand=0, fixes=[0, 1, 2], cfg_T=[2], cfg_feats=("feat:ok",),
                    other_feats=("feat:f64", "feat:1d"))
    return dict(cross_T=[1, 2, 3], rows_T=[0, 1, 2, 3, 4, 5], two_rows_T=[1, 2, 3], pair_T=[(2, 2), (2, 3), (0, 1)], triple_T=[1, 2], nrand=10000, fixes=[0, 1, 2, 3], cfg_T=[2],
                cfg_feats=("feat:ok", "feat:f64"), other_feats=("feat:f64", "feat:i64", "feat:w1", "feat:1d", "feat:3d"))


def _all_dirs(ctx, b, for_cfg=False):
    th = not ctx.quick
    for T in (b["cfg_T"] if for_cfg else b["cross_T"]):
        for tags, utts in dirs_single_cross(T, th):
            if not for_cfg or tags[0] in b["cfg_feats"]:
                yield tags, utts
    if for_cfg:
        for (t1, f1, a1, r1), (t2, f2, a2, r2) in itertools.product(small_menu(2), small_menu(3)):
            yield ["u0/" + "+".join(t1), "u1/" + "+".join(t2)], [utt("u0", f1, a1, r1), utt("u1", f2, a2, r2)]
        return
    yield from dirs_ref_rows(b["rows_T"])
    for T in b["two_rows_T"]:
        yield from dirs_ref_two_rows(T)
    yield from dirs_ali_len(b["rows_T"])
    for i, (T1, T2) in enumerate(b["pair_T"]):
        yield from dirs_pairs(T1, T2, with_ali=(i % 2 == 0), thorough=th)
    for T in b["triple_T"]:
        yield from dirs_triples(T)


def cases_val_iff(ctx):
    b = hist_bound(ctx)

    def gen():
        for tags, utts in _all_dirs(ctx, b):
            yield {"tags": tags, "utts": utts, "cfg": {}, "history": [None]}
        for name, cfg in CFGS.items():
            if name == "plain":
                continue
            for tags, utts in _all_dirs(ctx, b, for_cfg=True):
                if name == "suppress_alis" and not _ali_clean(tags):
                    continue
                yield {"tags": tags, "utts": utts, "cfg": cfg, "history": [None]}
        if b["nrand"]:
            rng = random.Random(ctx.seed * 7919 + 12)
            for tags, utts in dirs_random(rng, b["nrand"]):
                cfg = rng.choice(list(CFGS.values())) if rng.random() < 0.3 else {}
                if cfg.get("suppress_alis"):
                    cfg = {}
                yield {"tags": tags, "utts": utts, "cfg": cfg, "history": [None]}

    return _dedupe(gen())


def _single_feat_ok(tags, utts):
    return len(utts) == 1 and (tags[0] == "feat:ok" or not tags[0].startswith("feat:"))


def cases_fix_sticks(ctx):
    b = hist_bound(ctx)

    def gen():
        for tags, utts in _all_dirs(ctx, b):
            if _single_feat_ok(tags, utts):  # everything repairable lives here: every tolerance, and a growing one
                for k in b["fixes"]:
                    yield {"tags": tags, "utts": utts, "cfg": {}, "history": [k, None, k]}
                yield {"tags": tags, "utts": utts, "cfg": {}, "history": [None, 0, 1, 2, 3, None]}
            elif len(utts) > 1 or tags[0] in b["other_feats"]:  # feature defects are never repairable; several utterances: k = 1
                yield {"tags": tags, "utts": utts, "cfg": {}, "history": [1, None, 1]}
        for name, cfg in CFGS.items():
            if name == "plain":
                continue
            for tags, utts in _all_dirs(ctx, b, for_cfg=True):
                if name == "suppress_alis" and not _ali_clean(tags):
                    continue
                for k in (0, 1):
                    yield {"tags": tags, "utts": utts, "cfg": cfg, "history": [k, None, k]}
        if b["nrand"]:
            rng = random.Random(ctx.seed * 7919 + 13)
            for tags, utts in dirs_random(rng, b["nrand"]):
                cfg = rng.choice(list(CFGS.values())) if rng.random() < 0.3 else {}
                if cfg.get("suppress_alis"):
                    cfg = {}
                h = [rng.choice([None, 0, 1, 2, 3, 4]) for _ in range(rng.randint(1, 4))] + [None]
                yield {"tags": tags, "utts": utts, "cfg": cfg, "history": h}

    return _dedupe(gen())


DTYPES_ALL = ["float32", "float64", "float16", "int64", "int32", "uint8", "bool"]


def cases_dtype_dims(ctx):
    """tensor-type and dimension checks in isolation: every dtype x every dimensionality per sub-directory"""
    T = 2

    def val(d, n):
        if d == "bool":
            return [bool(i % 2) for i in range(n)]
        if d.startswith("float"):
            return [float(i % 2) for i in range(n)]
        return [i % 2 for i in range(n)]

    def gen():
        ok_f = sp("float32", [T, F0])
        shapes_f = [[T], [T, F0], [T, F0, 1], [T, 1]]
        for d1, d2 in itertools.product(DTYPES_ALL, repeat=2):
            for s1, s2 in itertools.product(shapes_f, repeat=2):
                n1, n2 = (sp(d, s, val(d, _n(s))) for d, s in ((d1, s1), (d2, s2)))
                for fix in (None, 0):
                    yield {"tags": ["feat:%s%s" % (d1, s1), "feat:%s%s" % (d2, s2)], "utts": [utt("u0", n1, None, None), utt("u1", n2, None, None)], "cfg": {}, "history": [fix, None]}
        for d in DTYPES_ALL:
            for s in ([], [T], [T, 1], [1, T], [T + 1]):
                a = sp(d, s, val(d, _n(s)))
                for fix in (None, 0, 1):
                    yield {"tags": ["ali:%s%s" % (d, s)], "utts": [utt("u0", ok_f, a, None)], "cfg": {}, "history": [fix, None]}
        for d1, d2 in itertools.product(DTYPES_ALL, repeat=2):
            for s1, s2 in itertools.product(([1], [1, 3], [0, 3], [1, 3, 1], [1, 2]), repeat=2):
                r1, r2 = sp(d1, s1, val(d1, _n(s1))), sp(d2, s2, val(d2, _n(s2)))
                for fix in (None, 0):
                    yield {"tags": ["ref:%s%s" % (d1, s1), "ref:%s%s" % (d2, s2)], "utts": [utt("u0", ok_f, None, r1), utt("u1", ok_f, None, r2)], "cfg": {}, "history": [fix, None]}

    return _dedupe(gen())


def _n(shape):
    n = 1
    for k in shape:
        n *= k
    return n


def _has_defect(case):
    return any(not (t.endswith(":ok") or t.endswith(":none") or t.endswith("ok2d")) for t in case["tags"])


# =============================================================================================
# C12.info.recount : the command-line report is the recount; --strict / --fix N behave as validation


def check_info(case):
    from pydrobert.torch import command_line

    state = [dict(u) for u in case["utts"]]
    mode, k = case["mode"], case.get("k")
    if mode == "none":
        fix, flags = None, []
    elif mode == "strict":
        fix, flags = None, ["--strict"]
    else:
        fix, flags = (1 if k is None else k), (["--fix"] if k is None else ["--fix", str(k)])  # bare --fix "defaults to 1"
    want_raise, want_state, _ = spec_step(state, fix, {})
    if mode == "none" and want_raise:
        return None  # "in an invalid data directory, the stored key/value pairs are not guaranteed to be correct"
    with _tmpdir() as root, warnings.catch_warnings():
        warnings.simplefilter("ignore")
        write_state(root, state)
        out_path = os.path.join(root, "info.txt")
        what = "get-torch-spect-data-dir-info %s" % " ".join(flags)
        try:
            rc = command_line.get_torch_spect_data_dir_info([root, out_path] + flags)
            raised = None
        except Exception as e:  # any exception counts as a rejection (documented: ValueError)
            raised = "%s(%r)" % (type(e).__name__, str(e).replace(root, "<dir>")[-160:])
        if raised is not None and not want_raise:
            return "%s raised %s on a directory it should accept" % (what, raised)
        if raised is None and want_raise:
            return "%s accepted a directory that %s" % (what, "violates a documented condition" if mode == "strict" else "has a defect outside the documented repairable ones (fix=%d)" % fix)
        if raised is not None:
            return None
        if rc != 0:
            return "%s returned %r" % (what, rc)
        disk = read_state(root, state)
        for u1, uw in zip(disk, want_state):
            for kind in ("feat", "ali", "ref"):
                if kind in uw and not same(u1[kind], uw[kind]):
                    return "%s: %s/%s.pt on disk is %s, expected %s" % (what, kind, uw["name"], _short(u1[kind]), _short(uw[kind]))
        with open(out_path) as f:
            lines = f.read().split("\n")
        if lines and lines[-1] == "":
            lines.pop()
        got, keys = {}, []
        for ln in lines:
            parts = ln.split(" ")
            if len(parts) != 2:
                return "%s: malformed line %r" % (what, ln)
            try:
                got[parts[0]] = int(parts[1])
            except ValueError:
                return "%s: non-integer value in %r" % (what, ln)
            keys.append(parts[0])
        if keys != sorted(keys) or len(set(keys)) != len(keys):
            return "%s: keys not in sorted order / repeated: %s" % (what, keys)
        want = spec_recount(disk)
        if got != want:
            diff = sorted(set(got.items()) ^ set(want.items()))
            return "%s: report differs from the recount of the stored tensors: report %s vs recount %s" % (
                what, {k_: v for k_, v in diff if got.get(k_) == v}, {k_: v for k_, v in diff if want.get(k_) == v and got.get(k_) != v})
    return None


def dirs_info(ctx):
    Tmax = 3 if ctx.quick else 4
    # every alignment over {0,1,2} of length T <= Tmax (runs / segments), no reference
    for T in range(0, Tmax + 1):
        for a in itertools.product(range(3), repeat=T):
            yield ["ali:%s" % (list(a),)], [utt("u0", sp("float32", [T, F0]), sp("int64", [T], list(a)), None)]
    # every 2-D reference of R <= 2 rows over tokens {0,1,2} and boundaries known/unknown/empty/overlapping; and 1-D
    T = 3
    bmenu = [(-1, -1), (0, 1), (1, 1), (0, T), (1, 3)] if ctx.quick else [(-1, -1), (0, 1), (1, 1), (0, T), (1, 3), (0, 0), (T, T), (2, 3)]
    rows = [[t, a, b] for t in range(3) for a, b in bmenu]
    for R in range(0, 3):
        for rs in itertools.product(rows, repeat=R):
            yield ["ref:%s" % (list(rs),)], [utt("u0", sp("float32", [T, F0]), None, ref2(list(rs)))]
    for R in range(0, 4):
        for toks in itertools.product(range(3), repeat=R):
            yield ["ref1d:%s" % (list(toks),)], [utt("u0", sp("float32", [T, 1]), None, sp("int64", [R], list(toks)))]
    # two utterances: classes spread over files, one file with / one without boundaries, empty transcripts
    refs = [sp("int64", [0, 3]), ref2([[0, 0, 2]]), ref2([[0, -1, -1]]), ref2([[1, 1, 1]]), ref2([[1, 0, 3], [0, 2, 3]])]
    alis = [None, [0, 0, 1], [1, 1, 1], [2, 0, 2]]
    for (r1, r2), (a1, a2) in itertools.product(itertools.product(refs + [None], repeat=2), itertools.product(alis, repeat=2)):
        if (r1 is None) != (r2 is None) or (a1 is None) != (a2 is None):
            continue
        yield ["two"], [utt("u0", sp("float32", [3, F0]), a1 and sp("int64", [3], a1), r1), utt("u1", sp("float32", [3, F0]), a2 and sp("int64", [3], a2), r2)]
    refs1 = [sp("int64", [0]), sp("int64", [1], [2]), sp("int64", [2], [0, 0])]
    for r1, r2 in itertools.product(refs1, repeat=2):
        yield ["two1d"], [utt("u0", sp("float32", [3, F0]), None, r1), utt("u1", sp("float32", [1, F0]), None, r2)]
    # class ids around the digit boundaries (zero padding of the keys)
    for m in (9, 10, 11, 99, 100, 101) if ctx.quick else (9, 10, 11, 99, 100, 101, 999, 1000):
        yield ["pad:%d" % m], [utt("u0", sp("float32", [2, F0]), sp("int64", [2], [m, 1]), ref2([[m, 0, 1], [3, 1, 2]]))]
        yield ["pad1d:%d" % m], [utt("u0", sp("float32", [2, F0]), sp("int64", [2], [0, m]), sp("int64", [2], [m, 0]))]
    # feature-only directory
    yield ["featonly"], [utt("u0", sp("float32", [2, 3]), None, None), utt("u1", sp("float32", [0, 3]), None, None)]


def cases_info(ctx):
    def gen():
        for tags, utts in dirs_info(ctx):
            for mode, k in (("none", None), ("strict", None), ("fix", 0), ("fix", None)):
                yield {"tags": tags, "utts": utts, "mode": mode, "k": k}
        # defective directories: the command must behave as validation (raise iff ...), repair on disk, and report the repaired recount
        defect_dirs = itertools.chain((d for d in dirs_single_cross(2, False) if d[0][0] == "feat:ok" or not ctx.quick), dirs_ref_rows([2] if ctx.quick else [1, 2, 3]), dirs_ali_len([2] if ctx.quick else [1, 2, 3]),
                                      dirs_triples(2) if not ctx.quick else ())
        for tags, utts in defect_dirs:
            for mode, k in (("strict", None), ("fix", 0), ("fix", 1), ("fix", None), ("fix", 2)):
                yield {"tags": tags, "utts": utts, "mode": mode, "k": k}
        if not ctx.quick:
            rng = random.Random(ctx.seed * 7919 + 14)
            for tags, utts in dirs_random(rng, 20000):
                mode, k = rng.choice([("none", None), ("strict", None), ("fix", 0), ("fix", 1), ("fix", None), ("fix", 3)])
                yield {"tags": tags, "utts": utts, "mode": mode, "k": k}

    return _dedupe(gen())


# =============================================================================================
# C12.soseos.inverse : reading wraps every transcript, writing strips, load(write(read(x))) = x


def check_soseos(case):
    import torch
    from pydrobert.torch import data

    ref, sos, eos, tokens_only, cls = case["ref"], case["sos"], case["eos"], case["tokens_only"], case["cls"]
    with _tmpdir() as root, warnings.catch_warnings():
        warnings.simplefilter("ignore")
        os.makedirs(os.path.join(root, "feat"))
        os.makedirs(os.path.join(root, "ref"))
        torch.save(torch.zeros(4, 1), os.path.join(root, "feat", "u.pt"))
        torch.save(to_tensor(ref), os.path.join(root, "ref", "u.pt"))
        if cls == "spect":
            ds = data.SpectDataSet(root, params=data.SpectDataParams(sos=sos, eos=eos), suppress_alis=True, tokens_only=tokens_only)
            got = ds[0][1]
            only = tokens_only
        else:
            ds = data.LangDataSet(os.path.join(root, "ref"), params=data.LangDataParams(sos=sos, eos=eos), tokens_only=tokens_only)
            got = ds[0]
            only = tokens_only
        want = spec_wrap(ref, sos, eos, only)
        if not _exact(to_spec(got), want):
            return "reading %s with sos=%s eos=%s tokens_only=%s gives %s, expected %s" % (_short(ref), sos, eos, only, _short(to_spec(got)), _short(want))
        bare = spec_bare(ref, only)
        hyp_dir = os.path.join(root, "hyp")
        variants = [("as read", got)]
        if case.get("float_hyp"):
            variants.append(("as read, float", got.float()))
        for pre, post in case.get("junk", []):
            # write_hyp docs: everything up to and including the LAST sos, and from the FIRST eos on, is removed
            w = to_tensor(want)
            if (pre and sos is None) or (post and eos is None):
                continue

            def rowsof(syms):
                t = torch.tensor(syms, dtype=torch.long)
                if w.dim() == 2:
                    t = torch.cat([t.unsqueeze(1), torch.full((len(syms), w.size(1) - 1), -1, dtype=torch.long)], 1)
                return t

            variants.append(("with %s before and %s after" % (pre, post), torch.cat([rowsof(pre), w.long(), rowsof(post)], 0)))
        for what, hyp in variants:
            if cls == "spect":
                ds.write_hyp(0, hyp, hyp_dir)
            else:
                ds.write_hyp("u", hyp, hyp_dir)
            back = torch.load(os.path.join(hyp_dir, "u.pt"))
            if not _exact(to_spec(back), bare):
                return "write_hyp(%s: %s) with sos=%s eos=%s stored %s, expected the bare transcript %s" % (what, _short(to_spec(hyp)), sos, eos, _short(to_spec(back)), _short(bare))
    return None


def _exact(a, b):
    return a["d"] == b["d"] and list(a["s"]) == list(b["s"]) and list(a["v"]) == list(b["v"])


def cases_soseos(ctx):
    Rmax = 3 if ctx.quick else 4
    alphabet = [0, 1, 2]
    junk = [([], []), ([5], []), ([], [5]), ([SOS, 5], [5, EOS]), ([5, SOS], [EOS, 5])]

    def gen():
        for cls in ("spect", "lang"):
            for sos, eos in ((None, None), (SOS, None), (None, EOS), (SOS, EOS), (0 + 9, 0 + 3), (4, 0), (0, 4)):
                # symbol value 0 is a legitimate configuration when the token ids do not use it: shifted alphabet, own junk
                alpha = alphabet if 0 not in (sos, eos) else [1, 2, 3]
                junk_ = junk if 0 not in (sos, eos) else [([], []), ([5], []), ([], [5]), ([sos, 5], [5, eos]), ([5, sos], [eos, 5])]
                for tokens_only in (False, True):
                    for R in range(0, Rmax + 1 if 0 not in (sos, eos) else 3):
                        for toks in itertools.product(alpha, repeat=R):
                            base = {"sos": sos, "eos": eos, "tokens_only": tokens_only, "cls": cls, "junk": junk_, "float_hyp": R <= 2}
                            yield dict(base, ref=sp("int64", [R], list(toks)))
                            # 2-D: each row with unknown or known boundaries
                            for bsel in itertools.product((0, 1), repeat=R) if R <= 2 or not ctx.quick else [(0,) * R, (1,) * R, (0, 1, 0)[:R]]:
                                rows = [[t, -1, -1] if not b else [t, i, i + 1] for i, (t, b) in enumerate(zip(toks, bsel))]
                                yield dict(base, ref=ref2(rows))
                    if not ctx.quick:
                        yield {"sos": sos, "eos": eos, "tokens_only": tokens_only, "cls": cls, "junk": junk, "float_hyp": True, "ref": sp("int32", [2], [1, 2])}
                        yield {"sos": sos, "eos": eos, "tokens_only": tokens_only, "cls": cls, "junk": junk, "float_hyp": True, "ref": ref2([[1, 0, 1]], "int32")}
        if not ctx.quick:
            rng = random.Random(ctx.seed * 7919 + 15)
            for _ in range(20000):
                R = rng.randint(0, 8)
                sos, eos = rng.choice([(None, None), (50, None), (None, 60), (50, 60)])
                toks = [rng.randint(0, 20) for _ in range(R)]
                two = rng.random() < 0.5
                ref = ref2([[t] + rng.choice([[-1, -1], [i, i + 2]]) for i, t in enumerate(toks)]) if two else sp("int64", [R], toks)
                pre = [rng.choice([21, 50]) for _ in range(rng.randint(0, 2))] if sos is not None else []
                post = [rng.choice([21, 60]) for _ in range(rng.randint(0, 2))] if eos is not None else []
                cls = rng.choice(["spect", "lang"])
                yield {"sos": sos, "eos": eos, "tokens_only": rng.random() < 0.5, "cls": cls, "junk": [(pre, post)], "float_hyp": False, "ref": ref}

    return _dedupe(gen())


# =============================================================================================
# C12.utts.find : utterance discovery by prefix/suffix across sub-directories (bounded cross-check)

POOL = ["a", "ab", "aab", "ba", "b.pt", "ab.pt", "a.ptx", "aa", ".pt", "abab"]
AFFIXES = [("", ".pt"), ("", ""), ("a", ""), ("a", ".pt"), ("a", "b"), ("ab", "ab"), ("b", ".pt")]


def check_utts(case):
    from pydrobert.torch import data
    from pydrobert.torch._datasets import _utts_in_dir

    p, s = case["prefix"], case["suffix"]
    with _tmpdir() as root, warnings.catch_warnings():
        warnings.simplefilter("ignore")
        for kind in ("feat", "ali", "ref"):
            if case.get(kind) is None:
                continue
            os.makedirs(os.path.join(root, kind))
            for name in case[kind]:
                open(os.path.join(root, kind, name), "w").close()
        ids = {}
        for kind in ("feat", "ali", "ref"):
            if case.get(kind) is None:
                continue
            ids[kind] = {spec_select(n, p, s) for n in case[kind]} - {None}
            got = _utts_in_dir(os.path.join(root, kind), p, s)
            if got != ids[kind]:
                return "_utts_in_dir(%s/, %r, %r) over %s = %s, expected %s" % (kind, p, s, case[kind], sorted(got), sorted(ids[kind]))
        params = data.SpectDataParams(subset_ids=list(case.get("subset") or []))
        ds = data.SpectDataSet(root, file_prefix=p, file_suffix=s, params=params, suppress_alis=case.get("suppress_alis", False), tokens_only=False)
        has_ali = bool(ids.get("ali")) and not case.get("suppress_alis", False)
        has_ref = bool(ids.get("ref"))
        want = set(ids["feat"])
        if has_ali:
            want &= ids["ali"]
        if has_ref:
            want &= ids["ref"]
        if case.get("subset"):
            want &= set(case["subset"])
        if (ds.has_ali, ds.has_ref) != (has_ali, has_ref):
            return "has_ali/has_ref = %s, expected %s" % ((ds.has_ali, ds.has_ref), (has_ali, has_ref))
        if tuple(ds.utt_ids) != tuple(sorted(want)) or len(ds) != len(want):
            return "utt_ids = %s, expected %s (prefix %r suffix %r, feat %s ali %s ref %s)" % (list(ds.utt_ids), sorted(want), p, s, case.get("feat"), case.get("ali"), case.get("ref"))
        for u in ds.utt_ids:
            for kind, present in (("feat", True), ("ali", has_ali), ("ref", has_ref)):
                if present and not os.path.exists(os.path.join(root, kind, p + u + s)):
                    return "utterance %r: %s does not exist in %s/" % (u, p + u + s, kind)
    return None


def cases_utts(ctx):
    npool = 6 if ctx.quick else 8

    def gen():
        for p, s in AFFIXES:
            pool = [n for n in POOL if not (n.startswith(p) and n.endswith(s) and len(n) < len(p) + len(s))][:npool]  # overlapping prefix/suffix: outside the 'prefix+utt+suffix' form
            for mask in range(1, 2 ** len(pool)):
                feat = [n for i, n in enumerate(pool) if mask >> i & 1]
                sel = sorted({spec_select(n, p, s) for n in feat} - {None})
                others = [None, [], list(feat), feat[1:], pool[:3]]
                for ali, ref in itertools.product(others, repeat=2):
                    if ctx.quick and ali is not None and ref is not None and ali != ref and len(feat) > 3:
                        continue
                    yield {"prefix": p, "suffix": s, "feat": feat, "ali": ali, "ref": ref}
                if sel:
                    yield {"prefix": p, "suffix": s, "feat": feat, "ali": feat[1:], "ref": None, "subset": sel[:1]}
                    yield {"prefix": p, "suffix": s, "feat": feat, "ali": None, "ref": list(feat), "subset": sel[-1:] + ["zz"]}
                    yield {"prefix": p, "suffix": s, "feat": feat, "ali": pool[:2], "ref": list(feat), "suppress_alis": True}

    return _dedupe(gen())


# =============================================================================================
# defects these contracts found in the pinned tree, all repaired since (fix: commits 068efe7..b62ef4d in
# /repo). Nothing is open, so FINDINGS / KNOWN_MATCH are empty and every failure is a violation. The
# smallest witness of each former finding is kept as a named regression case (clause C12.regress.fixed):
# each must satisfy its clause's contract now.

FINDINGS = []  # nothing open on the current tree
KNOWN_MATCH = {}

_OK = sp("float32", [2, 2])
_STRICT, _FIX0, _FIX1 = [None], [0, None, 0], [1, None, 1]
REGRESSIONS = [
    # (name, fixing commit, clause whose checker judges it, what used to fail, witness)
    ("KF-C12-1 suppress_alis", "068efe7", "C12.val.iff", "validation raised 'values to unpack' for data sets built with suppress_alis=True",
     {"tags": ["feat:ok"], "utts": [utt("u0", _OK, None, None)], "cfg": {"suppress_alis": True}, "history": _STRICT}),
    ("KF-C12-1 suppress_uttids", "068efe7", "C12.fix.sticks", "validation raised 'values to unpack' for data sets built with suppress_uttids=False",
     {"tags": ["ali:i32"], "utts": [utt("u0", _OK, sp("int32", [2], [0, 1]), None)], "cfg": {"suppress_uttids": False}, "history": _FIX0}),
    ("KF-C12-2 sos/eos written back", "068efe7", "C12.fix.sticks", "a fixing pass on a data set with sos/eos stored the repaired reference WITH the sos/eos rows",
     {"tags": ["ref:2d-over1"], "utts": [utt("u0", _OK, None, ref2([[1, 0, 3]]))], "cfg": {"sos": SOS, "eos": EOS}, "history": _FIX1}),
    ("KF-C12-2 sos/eos written back before a raise", "068efe7", "C12.fix.sticks", "the same, when the pass goes on to raise on a later utterance",
     {"tags": ["u0/ref:2d-noend", "u1/ref:1d"], "utts": [utt("u0", _OK, None, ref2([[1, 0, -1]])), utt("u1", _OK, None, sp("int64", [1], [1]))], "cfg": {"eos": EOS}, "history": _FIX0}),
    ("KF-C12-3 tokens_only accepts boundary defects", "068efe7", "C12.val.iff", "with tokens_only=True a (R, 3) reference with start > end passed strict validation",
     {"tags": ["ref:2d-start>end"], "utts": [utt("u0", _OK, None, ref2([[1, 2, 1]]))], "cfg": {"tokens_only": True}, "history": _STRICT}),
    ("KF-C12-3 tokens_only loses boundaries", "068efe7", "C12.fix.sticks", "with tokens_only=True an upcast stored the token column only",
     {"tags": ["ref:2d-i32"], "utts": [utt("u0", _OK, None, ref2([[1, 0, 2]], "int32"))], "cfg": {"tokens_only": True}, "history": _FIX0}),
    ("KF-C12-5 empty (0,3) reference with eos", "068efe7", "C12.val.iff", "validation raised IndexError on a stored empty (0, 3) reference when sos/eos was configured",
     {"tags": ["ref:2d-empty"], "utts": [utt("u0", _OK, None, sp("int64", [0, 3]))], "cfg": {"eos": EOS}, "history": _STRICT}),
    ("KF-C12-9 uint8 reference with sos", "068efe7", "C12.fix.sticks", "the added sos row's -1 wrapped to 255 in a uint8 (R, 3) reference and the fixing pass rejected it",
     {"tags": ["ref:2d-u8"], "utts": [utt("u0", _OK, None, ref2([[1, 0, 2]], "uint8"))], "cfg": {"sos": SOS}, "history": _FIX0}),
    ("KF-C12-4 empty 1-D transcript", "db6b5e6", "C12.soseos.inverse", "_load_ref returned an empty 1-D transcript without sos/eos",
     {"sos": SOS, "eos": EOS, "tokens_only": False, "cls": "spect", "junk": [], "float_hyp": False, "ref": sp("int64", [0])}),
    ("KF-C12-4 empty (0,3) transcript", "db6b5e6", "C12.soseos.inverse", "_load_ref raised IndexError on an empty (0, 3) transcript",
     {"sos": None, "eos": EOS, "tokens_only": False, "cls": "lang", "junk": [], "float_hyp": False, "ref": sp("int64", [0, 3])}),
    ("KF-C12-4 empty (0,3) transcript, tokens only", "db6b5e6", "C12.soseos.inverse", "the same through tokens_only=True",
     {"sos": SOS, "eos": None, "tokens_only": True, "cls": "spect", "junk": [], "float_hyp": False, "ref": sp("int64", [0, 3])}),
    ("KF-C12-6 --fix 0 repairs", "6380a03", "C12.info.recount", "get-torch-spect-data-dir-info --fix 0 did not validate: an int32 alignment stayed int32",
     {"tags": ["ali:i32"], "utts": [utt("u0", _OK, sp("int32", [2], [0, 0]), None)], "mode": "fix", "k": 0}),
    ("KF-C12-6 --fix 0 rejects", "6380a03", "C12.info.recount", "get-torch-spect-data-dir-info --fix 0 reported on an unrepairable directory",
     {"tags": ["ali:len1/T=2"], "utts": [utt("u0", _OK, sp("int64", [1], [0]), None)], "mode": "fix", "k": 0}),
    ("KF-C12-7 empty segment", "9a268cc", "C12.info.recount", "rcount_<i> was -1 as soon as token <i> had an empty segment",
     {"tags": ["ref"], "utts": [utt("u0", sp("float32", [3, 2]), None, ref2([[1, 0, 3], [1, 1, 1]]))], "mode": "strict", "k": None}),
    ("KF-C12-7 segment emptied by the fix", "9a268cc", "C12.info.recount", "the same when --fix reduced the end to T == start",
     {"tags": ["ref:row(2,3)/T=2"], "utts": [utt("u0", _OK, None, ref2([[4, 2, 3]]))], "mode": "fix", "k": 1}),
    ("KF-C12-8 only empty transcripts", "b62ef4d", "C12.info.recount", "total_tokens was -1 when ref/ held only empty transcripts",
     {"tags": ["ref1d"], "utts": [utt("u0", sp("float32", [3, 1]), None, sp("int64", [0]))], "mode": "strict", "k": None}),
]


def check_regression(case):
    """case: {"name", "fixed_by", "clause", "what", "witness"}; the witness must satisfy its clause's contract"""
    msg = CHECKERS[case["clause"]](case["witness"])
    return None if msg is None else "regression of %s (fixed by %s: %s): %s" % (case["name"], case["fixed_by"], case["what"], msg)


def cases_regression(ctx):
    for name, commit, clause, what, witness in REGRESSIONS:
        yield {"name": name, "fixed_by": commit, "clause": clause, "what": what, "witness": witness}


CHECKERS = {
    "C12.val.iff": check_history,
    "C12.val.dtype_dims": check_history,
    "C12.fix.sticks": check_history,
    "C12.info.recount": check_info,
    "C12.soseos.inverse": check_soseos,
    "C12.utts.find": check_utts,
    "C12.regress.fixed": check_regression,
}


def _wanted(ctx, name):
    only = getattr(ctx, "only", None)
    return not only or any(name.startswith(o) or o.startswith(name) for o in only)


def run_bounded(ctx):
    import torch  # noqa: F401  (loaded before the worker pool forks)
    import pydrobert.torch  # noqa: F401
    import pydrobert.torch.data  # noqa: F401
    import pydrobert.torch.command_line  # noqa: F401

    ctx.known_match.update(KNOWN_MATCH)
    b = hist_bound(ctx)
    fns = ["_datasets._info_and_validate", "_datasets.validate_spect_data_set", "_datasets.SpectDataSet.get_utterance_tuple", "_datasets._load_ref"]
    dir_bound = ("directories of 1 utterance: T in %s, every (feature x alignment x reference) variant [6 feature variants: ok/float64/int64/width 1/1-D/3-D; %d alignment variants: absent, ok, "
                 "too long by 1..3, short by 1, int32, uint8, int32+1, float, 2-D%s; %d reference variants: absent, 1-D ok/empty/int32/uint8/float, 2-D ok/empty/empty segments/no start/no end/"
                 "end over by 1,2/start>T/start>end/width 2,4/3-D/int32/int32+over/float/mixed rows%s]; one 2-D row with every (start,end) in [-2,T+3]^2 for T in %s; two rows from a 10-row menu, T in %s; "
                 "alignment lengths 0..T+4 x {int64,int32,uint8}; 2 utterances: all ordered pairs of single-defect utterances for (T1,T2) in %s; 3 utterances: 8^3 from a small menu, T in %s; "
                 "6 data-set configurations (sos+eos, sos, eos, tokens_only, suppress_alis [alignment-clean directories only], suppress_uttids=False) x the 1-utterance cross at T in %s%s and 8x8 2-utterance pairs%s") % (
        b["cross_T"], len(ali_variants(2, not ctx.quick)), ", bool, uint8+2, float64, int32 2-D" if not ctx.quick else "", len(ref_variants(2, not ctx.quick)),
        ", uint8, 0-D, bool, over by 3" if not ctx.quick else "", b["rows_T"], b["two_rows_T"], b["pair_T"], b["triple_T"], b["cfg_T"], " (feature variants %s)" % "/".join(f.split(":")[1] for f in b["cfg_feats"]),
        "; plus %d seeded random directories (1-4 utterances, T<=5, random rows/dtypes/lengths, random configuration)" % b["nrand"] if b["nrand"] else "")
    if _wanted(ctx, "C12.val.iff"):
        ctx.bounded("C12.val.iff", check_history, cases_val_iff(ctx), bound=dir_bound + "; history = one strict pass",
                    text="validate_spect_data_set(ds) raises ValueError iff the stored tensors violate a documented condition (independent checker of conditions 2-6 on tensor descriptions); a strict pass changes no file",
                    nontrivial=_has_defect, chunk=128, functions=fns)
    if _wanted(ctx, "C12.val.dtype_dims"):
        ctx.bounded("C12.val.dtype_dims", check_history, cases_dtype_dims(ctx),
                    bound="dtypes {float32,float64,float16,int64,int32,uint8,bool}; 2 feature files: all dtype pairs x shapes {(T,),(T,F),(T,F,1),(T,1)}^2; 1 alignment: dtypes x shapes {(),(T,),(T,1),(1,T),(T+1,)}, fix in {None,0,1}; "
                          "2 references: all dtype pairs x shapes {(1,),(1,3),(0,3),(1,3,1),(1,2)}^2, fix in {None,0}; T=2; history = [pass, strict]",
                    text="tensor-type and dimensionality conditions (2, 3, 4, 5.1, 5.2, 6.1, 6.2, 6.3.1) and the upcast repair: accepted / repaired / rejected exactly as documented",
                    nontrivial=lambda c: True, chunk=128, functions=fns)
    if _wanted(ctx, "C12.fix.sticks"):
        ctx.bounded("C12.fix.sticks", check_history, cases_fix_sticks(ctx),
                    bound=dir_bound + "; histories: 1-utterance directories with a well-formed feature file: [k, strict, k] for every k in %s and the growing [strict, 0, 1, 2, 3, strict]; other directories "
                                      "(1 utterance with feature variants %s; 2-3 utterances): [1, strict, 1]; configurations: [k, strict, k] for k in {0,1}%s" % (
                        b["fixes"], "/".join(f.split(":")[1] for f in b["other_feats"]), "; random directories: random histories of 1-4 passes with k in {strict,0..4} followed by a strict pass" if b["nrand"] else ""),
                    text="validate/fix/validate histories: a pass with tolerance k raises iff a defect is outside the documented repairable ones; otherwise the files equal the documented repairs of what was stored and nothing "
                         "else changed, the following strict pass accepts and a repeated fix changes nothing; after a raising pass every file is untouched or completely repaired",
                    nontrivial=_has_defect, chunk=128, functions=fns)
    if _wanted(ctx, "C12.info.recount"):
        ctx.bounded("C12.info.recount", check_info, cases_info(ctx),
                    bound="command line in-process; valid directories: every alignment over {0,1,2} with T<=%d; every 2-D reference with R<=2 rows over tokens {0,1,2} x %d boundary kinds; every 1-D reference R<=3; 2-utterance mixes; class ids "
                          "9,10,11,99,100,101%s; flags {none,--strict,--fix 0,--fix}; defective directories (1-utterance cross at T=2%s, boundary sweep, alignment-length sweep%s) x flags {--strict,--fix 0,--fix 1,--fix,--fix 2}%s" % (
                              3 if ctx.quick else 4, 5 if ctx.quick else 8, "" if ctx.quick else ",999,1000", " with a well-formed feature file" if ctx.quick else "", "" if ctx.quick else ", 3-utterance menu", "" if ctx.quick else "; 20000 seeded random directories x random flag"),
                    text="get-torch-spect-data-dir-info: with --strict / --fix N it raises exactly when validation must, leaves exactly the documented repairs on disk, and the sorted key/value report equals the recount (keys 1-10 of its documentation) of the tensors stored afterwards",
                    nontrivial=lambda c: True, chunk=128, functions=["command_line.get_torch_spect_data_dir_info", "_datasets._info_and_validate"])
    if _wanted(ctx, "C12.soseos.inverse"):
        ctx.bounded("C12.soseos.inverse", check_soseos, cases_soseos(ctx),
                    bound="stored transcripts: every 1-D token list of R<=%d over {0,1,2} and its 2-D versions (each row with unknown or known boundaries); (sos,eos) in {none, 7/-, -/8, 7/8, 9/3, 4/0, 0/4 (the last two over {1,2,3}, R<=2)}; SpectDataSet (tokens_only both) and LangDataSet; "
                          "hypotheses = the transcript as read, a float copy, and with extra symbols/sos before and symbols/eos after%s" % (
                              3 if ctx.quick else 4, "" if ctx.quick else "; int32 storage; 20000 seeded random transcripts R<=8 over 0..20"),
                    text="__getitem__ returns sos + stored transcript + eos for every transcript (empty included; 2-D rows [sym,-1,-1]); write_hyp of that (also with leading/trailing material per its docs) stores exactly the bare tokens as a long tensor",
                    nontrivial=lambda c: c["sos"] is not None or c["eos"] is not None, chunk=64,
                    functions=["_datasets._load_ref", "_datasets._write_hyp", "_datasets.SpectDataSet.write_hyp", "_datasets.LangDataSet.write_hyp"])
    if _wanted(ctx, "C12.utts.find"):
        ctx.bounded("C12.utts.find", check_utts, cases_utts(ctx),
                    bound="7 (prefix,suffix) pairs incl. empty and equal-letter ones; feat/ = every non-empty subset of a pool of %d names; ali/ and ref/ each in {absent, empty, same as feat, feat minus one, first 3 of the pool}; subset_ids; suppress_alis; "
                          "names in which prefix and suffix would overlap are excluded" % (6 if ctx.quick else 8),
                    text="_utts_in_dir = {x[len(p):len(x)-len(s)] : x startswith p, endswith s}; SpectDataSet.utt_ids = sorted intersection over the sub-directories that are present (and subset_ids); prefix+utt+suffix exists in each",
                    nontrivial=lambda c: bool(c["prefix"] or c["suffix"]), chunk=256, functions=["_datasets._utts_in_dir", "_datasets.SpectDataSet.find_utt_ids"])
    if _wanted(ctx, "C12.regress.fixed"):
        ctx.bounded("C12.regress.fixed", check_regression, cases_regression(ctx),
                    bound="the %d named witnesses of the defects repaired by /repo commits 068efe7, db6b5e6, 6380a03, 9a268cc, b62ef4d (former findings KF-C12-1..9)" % len(REGRESSIONS),
                    text="each former witness satisfies the contract of the clause that found it (data-set view vs stored tensors, sos/eos around empty transcripts, --fix 0, empty segments in rcount, total_tokens of empty transcripts)",
                    nontrivial=lambda c: True, chunk=4, functions=fns + ["_datasets._load_ref", "command_line.get_torch_spect_data_dir_info"])
    ctx.replay_known_witnesses()
    ctx.not_applicable.append("condition 1 / fix 1 (CUDA tensors are rejected, or moved to the CPU by a fixing pass): no CUDA device in the sandbox, the branch cannot be executed")
    ctx.not_applicable.append("int8/int16 alignments and references: the documentation names 'bytes or 32-bit integers' as upcastable, the code also upcasts int8 and int16; not generated, left undecided")
    ctx.assume("the documented conditions are conditions on the stored tensors: the oracle ignores the data set's sos/eos/tokens_only/suppress_uttids configuration (suppress_alis=True means 'no alignments', and is only combined with alignment-clean directories)",
               "token ids, sos and eos are non-negative, sos != eos, transcripts do not contain sos/eos (property quantifier)",
               "negative boundaries are compared as 'unknown' (any negative value equals -1)",
               "after a pass that raises, each file may be untouched or completely repaired (the property does not fix how far a failing pass gets)",
               "get-torch-spect-data-dir-info without --strict/--fix is only checked on valid directories (its documentation disclaims the rest); directories have >= 1 utterance",
               "the command line is called in-process (command_line.get_torch_spect_data_dir_info(argv)), temporary directories live under /dev/shm when available")
