"""C10 - slicing policies yield the documented windows; token chunks are slice-relative.

Bounded run-time contracts only so far (contracts/C10_rt.py); the deductive clauses of DESIGN.md
section 3 (C10.fixed.windows, C10.ref.windows, C10.tok.mask, C10.tok.relative) are added here when written.
"""
from contracts import C10_rt

CHECKERS = dict(C10_rt.CHECKERS)


def run(ctx):
    C10_rt.run_bounded(ctx)
