"""C10 - slicing policies yield the documented windows; token chunks are slice-relative."""
from contracts import C10_rt, C10_vc
from vf.pyvc import api

CHECKERS = dict(C10_rt.CHECKERS)


def _kf1_vc(case, msg):
    m = msg or ""
    return "retain=False" in m and m.endswith(".bounds")


def run(ctx):
    from contracts import wrap_vc

    api.run_vcs(ctx, wrap_vc.wrapper_vcs("C10.P.module_forwards_parameters", ['SliceSpectData', 'ChunkTokenSequencesBySlices']), {"C10.P.module_forwards_parameters": wrap_vc.TEXT % "SliceSpectData, ChunkTokenSequencesBySlices"})
    from vf.pyvc import crosscheck_sym

    crosscheck_sym.guard(ctx)  # the symbolic-shape tensor layer against real torch, before the clauses that rest on it
    ctx.known_match.update(C10_rt.KNOWN_MATCH)
    rt_pred = ctx.known_match.get("KF-C10-1")
    ctx.known_match["KF-C10-1"] = lambda case, msg: _kf1_vc(case, msg) if not isinstance(case, dict) or "ref_0_0_0" in case else (rt_pred(case, msg) if rt_pred else False)
    api.run_vcs(ctx, C10_vc.p_vcs(ctx), {"C10.P.fixed_windows": "real slice_spect_data source, policy 'fixed' without in_lens, for SYMBOLIC batch size and frames (lobe size enumerated): exactly the windows the documented policy prescribes, in order, each labelled with its row"})
    api.run_vcs(ctx, C10_vc.tok_p_vcs(ctx), {"C10.P.tok_chunks": "real chunk_token_sequences_by_slices source for a SYMBOLIC batch size and number of tokens (lengths given; contained / overlapping; boundaries retained or not): reported count = number of kept tokens; every kept token lands at the position given by the number of kept tokens before it with its id (and, retained, its boundaries) unchanged"})
    api.run_vcs(ctx, C10_vc.vcs(ctx), {"C10.S.tok_chunks": "real chunk_token_sequences_by_slices source: kept tokens = contained (or overlapping) known segments, in order, ids unchanged, boundaries slice-relative unless retained, count = chunked_lens; all contents"},
                bounded="shapes (N,R) in %s, partial x retain x ref_lens given/omitted; ALL token ids, boundaries, slices, lengths" % ("{(1,2),(2,1)}" if ctx.quick else "{(1,1),(1,2),(1,3),(2,2)}"))
    C10_rt.run_bounded(ctx)
