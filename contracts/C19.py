"""C19 - estimators are unbiased where promised; relaxed distributions are consistent.

Minimal wrapper: the bounded run-time contracts live in contracts/C19_rt.py (the deductive part, when
it exists, is added here).
"""
from contracts import C19_rt

CHECKERS = dict(C19_rt.CHECKERS)


def run(ctx):
    C19_rt.run_bounded(ctx)
