"""C19 - estimators are unbiased where promised; relaxed distributions are consistent."""
from contracts import C19_rt, C19_vc
from vf.pyvc import api

CHECKERS = dict(C19_rt.CHECKERS)


def run(ctx):
    from vf.pyvc import crosscheck

    crosscheck.guard(ctx)  # the concrete-shape tensor layer (used by the scalar / batch-1 contracts here) against real torch
    api.run_vcs(ctx, C19_vc.vcs(ctx), {
        "C19.P.srswor_cardinality": "fixed-cardinality sampling: loop invariant on the real sampler, symbolic vector size: exactly `given` ones, all below `total`; bernoulli probabilities in [0,1]",
        "C19.P.lb_threshold_csample": "LogisticBernoulli: threshold(csample(b)) = b for all probabilities, noise and b (sign axioms of log)"})
    C19_rt.run_bounded(ctx)
