"""C01 (engine B) - edit distance is the weighted Levenshtein distance, per pair and per prefix.

Run-time contracts on the real functions
    pydrobert.torch._string._lens_from_eos
    pydrobert.torch.functional.edit_distance / prefix_edit_distances
    pydrobert.torch.modules.EditDistance / PrefixEditDistances
checked over exhaustively enumerated batches against a spec written from the property text.

Reading of the property (everything below is the spec, none of it is taken from the implementation)
----------------------------------------------------------------------------------------------------
* A batch stores sequence n of the references in column n of `ref` (R, N) and of the hypotheses in
  column n of `hyp` (H, N); rows and columns swap when `batch_first`.
* The sequence held by a column is the whole column when `eos` is None, otherwise the tokens before
  the first `eos` - plus that first `eos` itself when `include_eos` ("end token counted"). A column
  without an `eos` holds the whole column in either setting. Tokens after the first `eos` are garbage.
* D(r, h) = minimum total cost of insertions (ins), deletions (del) and substitutions (sub) turning r
  into h = the Wagner-Fischer recurrence (textbook theorem, cross-checked against a shortest-path
  search over edit scripts in the guard clause).
* edit_distance: out has shape (N,), out[n] = D(r_n, h_n), divided by |r_n| when `norm`. For
  |r_n| = 0 under `norm` the quotient is undefined in the property; that entry is not constrained.
* prefix_edit_distances: out has shape (H + 1, N) ((H, N) when `exclude_last`; transposed when
  `batch_first`); out[j, n] = D(r_n, h_n[:j]) (same normalisation) for j <= |h_n| (j < |h_n| when
  `exclude_last`: the pair's own full prefix is the omitted one) and exactly `padding` elsewhere.
* The functions return (do not raise) for every batch with N >= 1, R >= 0, H >= 0.
* out[n] is a function of (r_n, h_n, configuration) only.
"""
import itertools
import random
import warnings
from fractions import Fraction
from functools import lru_cache
from math import gcd

P = "C01"
FUNCS_SM = ["_string._string_matching", "_string._lens_from_eos"]
BIG = 10 ** 9

# (ins, del, sub): unit, uniform non-unit (dyadic / non-dyadic), NIST (3,3,4), sub > ins + del, pairwise
# distinct (a swapped argument shows), non-dyadic, lopsided
COSTS10 = [(1.0, 1.0, 1.0), (0.5, 0.5, 0.5), (0.7, 0.7, 0.7), (3.0, 3.0, 4.0), (1.0, 2.0, 2.5), (2.0, 1.0, 1.5),
           (1.0, 1.0, 2.5), (0.1, 0.2, 0.3), (5.0, 1.0, 3.0), (1.0, 5.0, 3.0)]
COSTS3 = [(0.5, 0.5, 0.5), (1.0, 2.0, 2.5), (0.3, 0.1, 0.2)]
# one or two operations for free (a weighted distance all the same; the lower-triangular deletion trick must not let a zero cost
# open the upper triangle - seeded change C01_D)
COSTS0 = [(1.0, 0.0, 1.0), (0.0, 1.0, 1.0), (1.0, 1.0, 0.0), (0.0, 0.0, 1.0)]
COSTS2 = [(0.7, 0.7, 0.7), (2.0, 1.0, 2.5)]

# ---------------------------------------------------------------------------------------------------
# spec


def spec_seq(col, eos, include_eos):
    """the sequence a column holds"""
    if eos is None:
        return tuple(col)
    for t, x in enumerate(col):
        if x == eos:
            return tuple(col[: t + 1] if include_eos else col[:t])
    return tuple(col)


def _lcm(a, b):
    return a * b // gcd(a, b)


@lru_cache(maxsize=256)
def _int_costs(costs):
    """the float costs as exact integers over a common denominator"""
    fr = [Fraction(c) for c in costs]
    den = 1
    for f in fr:
        den = _lcm(den, f.denominator)
    return tuple(int(f * den) for f in fr) + (den,)


@lru_cache(maxsize=1 << 17)
def spec_row(r, h, costs):
    """[D(r, h[:j]) for j in 0..len(h)], exact: the float costs are taken as the rationals they are, scaled
    to integers, Wagner-Fischer over Python ints, scaled back (one rounding to float at the very end)."""
    ic, dc, sc, den = _int_costs(costs)
    # prev[j] = D(r[:i], h[:j])
    prev = [j * ic for j in range(len(h) + 1)]
    for i in range(1, len(r) + 1):
        cur = [i * dc]
        ri = r[i - 1]
        for j in range(1, len(h) + 1):
            best = prev[j] + dc  # delete r[i-1]
            v = cur[j - 1] + ic  # insert h[j-1]
            if v < best:
                best = v
            v = prev[j - 1] + (0 if ri == h[j - 1] else sc)  # keep / substitute
            if v < best:
                best = v
            cur.append(best)
        prev = cur
    return tuple(v / den for v in prev)  # int / int is correctly rounded in Python: the float nearest to the exact rational


def spec_min_over_scripts(r, costs, alpha, maxlen):
    """guard for the recurrence: Dijkstra over strings (length <= maxlen, tokens in alpha), one edge per
    single insertion / deletion / substitution -> {h: min total cost of an edit script r ~> h}"""
    import heapq

    ic, dc, sc = (Fraction(c) for c in costs)
    dist = {tuple(r): Fraction(0)}
    heap = [(Fraction(0), tuple(r))]
    while heap:
        d, s = heapq.heappop(heap)
        if d > dist[s]:
            continue
        nxt = []
        for p in range(len(s)):
            nxt.append((dc, s[:p] + s[p + 1:]))
            for a in alpha:
                if a != s[p]:
                    nxt.append((sc, s[:p] + (a,) + s[p + 1:]))
        if len(s) < maxlen:
            for p in range(len(s) + 1):
                for a in alpha:
                    nxt.append((ic, s[:p] + (a,) + s[p:]))
        for c, t in nxt:
            if t not in dist or d + c < dist[t]:
                dist[t] = d + c
                heapq.heappush(heap, (d + c, t))
    return dist


# ---------------------------------------------------------------------------------------------------
# cases -> batches -> calls


_COLS_MEMO = {}
_TABLE_MEMO = {}
_TENSOR_MEMO = {}


def _columns(case):
    """-> (R, H, ref_cols, hyp_cols): N columns each, as tuples. Either explicit ('ref'/'hyp': list of
    columns, all of one length; 'R'/'H' given when N could not tell) or generated ('gen': every pair of a
    column over `alpha` of length R with one of length H, reference-major, ref columns [lo, hi) only)."""
    if "gen" in case:
        g = case["gen"]
        key = repr(sorted(g.items()))
        if key not in _COLS_MEMO:  # consecutive cases differ in flags only: build the batch once per worker
            rs = list(itertools.product(g["alpha"], repeat=g["R"]))
            hs = list(itertools.product(g["alpha"], repeat=g["H"]))
            lo, hi = g.get("rsel", [0, len(rs)])
            rs = rs[lo:hi]
            if len(_COLS_MEMO) >= 4:
                _COLS_MEMO.clear()
            _COLS_MEMO[key] = (g["R"], g["H"], [r for r in rs for _ in hs], [h for _ in rs for h in hs])
        return _COLS_MEMO[key]
    ref = [tuple(c) for c in case["ref"]]
    hyp = [tuple(c) for c in case["hyp"]]
    assert len(ref) == len(hyp) and len(ref) >= 1
    R, H = len(ref[0]), len(hyp[0])
    assert all(len(c) == R for c in ref) and all(len(c) == H for c in hyp)
    return R, H, ref, hyp


def _tensor(cols, T, batch_first):
    import torch

    hit = _TENSOR_MEMO.get(id(cols))
    if hit is not None and hit[0] is cols:
        t = hit[1]
    else:
        t = torch.tensor([list(c) for c in cols], dtype=torch.long).reshape(len(cols), T)
        if len(_TENSOR_MEMO) >= 8:
            _TENSOR_MEMO.clear()
        _TENSOR_MEMO[id(cols)] = (cols, t)
    return t.clone() if batch_first else t.t().contiguous()


def _cfg(case):
    c = tuple(float(x) for x in case["costs"])
    return dict(fn=case["fn"], eos=case.get("eos"), include_eos=bool(case.get("include_eos", False)), norm=bool(case.get("norm", False)),
                batch_first=bool(case.get("batch_first", False)), exclude_last=bool(case.get("exclude_last", False)),
                padding=int(case.get("padding", -100)), costs=c, via=case.get("via", "functional_kw"), warn=bool(case.get("warn", False)))


def _call(cfg, ref_cols, hyp_cols, R, H):
    """calls the real function; returns the result in layout (N,) or (rows, N) (undoing batch_first), after
    checking shape and dtype"""
    import torch
    import pydrobert.torch.functional as F
    import pydrobert.torch.modules as M

    N = len(ref_cols)
    bf = cfg["batch_first"]
    ref, hyp = _tensor(ref_cols, R, bf), _tensor(hyp_cols, H, bf)
    ic, dc, sc = cfg["costs"]
    prefix = cfg["fn"] == "prefix"
    kw = dict(eos=cfg["eos"], include_eos=cfg["include_eos"], norm=cfg["norm"], batch_first=bf, ins_cost=ic, del_cost=dc, sub_cost=sc)
    pos = [cfg["eos"], cfg["include_eos"], cfg["norm"], bf, ic, dc, sc]
    if prefix:
        kw.update(padding=cfg["padding"], exclude_last=cfg["exclude_last"])
        pos += [cfg["padding"], cfg["exclude_last"]]
    kw["warn"] = cfg["warn"]
    pos.append(cfg["warn"])
    via = cfg["via"]
    with warnings.catch_warnings():
        warnings.simplefilter("ignore")
        if via == "functional_kw":
            out = (F.prefix_edit_distances if prefix else F.edit_distance)(ref, hyp, **kw)
        elif via == "functional_pos":
            out = (F.prefix_edit_distances if prefix else F.edit_distance)(ref, hyp, *pos)
        elif via == "module_kw":
            out = (M.PrefixEditDistances if prefix else M.EditDistance)(**kw)(ref, hyp)
        elif via == "module_pos":
            out = (M.PrefixEditDistances if prefix else M.EditDistance)(*pos)(ref, hyp)
        else:
            raise ValueError("via=%r" % via)
    if not isinstance(out, torch.Tensor):
        return None, "result is %s, not a tensor" % type(out).__name__
    if not out.dtype.is_floating_point:
        return None, "result dtype %s is not a floating type" % out.dtype
    if prefix:
        rows = H + (0 if cfg["exclude_last"] else 1)
        want = (N, rows) if bf else (rows, N)
        if tuple(out.shape) != want:
            return None, "result shape %s, expected %s" % (tuple(out.shape), want)
        if bf:
            out = out.t()
    elif tuple(out.shape) != (N,):
        return None, "result shape %s, expected %s" % (tuple(out.shape), (N,))
    return out.detach().to(torch.float64), None


def _spec_table(cfg, ref_cols, hyp_cols, H):
    """-> (full, rl, hl): full[n, j] = D(r_n, h_n[:j]) for j <= |h_n| (0 beyond), |r_n|, |h_n|. Depends on the batch,
    eos, include_eos and the costs only, so it is memoised per worker across the flag variants of one batch (the
    memo holds the very list objects it was computed from)."""
    import torch

    eos, inc = cfg["eos"], cfg["include_eos"]
    key = (id(ref_cols), id(hyp_cols), eos, inc, cfg["costs"])
    hit = _TABLE_MEMO.get(key)
    if hit is not None and hit[0] is ref_cols and hit[1] is hyp_cols:
        return hit[2]
    vals, rl, hl = [], [], []
    for r, h in zip(ref_cols, hyp_cols):
        rs, hs = spec_seq(r, eos, inc), spec_seq(h, eos, inc)
        row = spec_row(rs, hs, cfg["costs"])
        rl.append(len(rs))
        hl.append(len(hs))
        vals.append(list(row) + [0.0] * (H + 1 - len(row)))
    out = (torch.tensor(vals, dtype=torch.float64).reshape(len(ref_cols), H + 1), torch.tensor(rl, dtype=torch.float64), torch.tensor(hl, dtype=torch.long))
    if len(_TABLE_MEMO) >= 4:
        _TABLE_MEMO.clear()
    _TABLE_MEMO[key] = (ref_cols, hyp_cols, out)
    return out


def _expected(cfg, ref_cols, hyp_cols, H):
    """-> (exp, constrained, is_pad) float64/bool tensors in layout (N,) or (rows, N)"""
    import torch

    N = len(ref_cols)
    prefix = cfg["fn"] == "prefix"
    rows = H + (0 if cfg["exclude_last"] else 1)
    full, rl, hl = _spec_table(cfg, ref_cols, hyp_cols, H)
    if prefix:
        exp = full[:, :rows].t()
        limit = hl + (0 if cfg["exclude_last"] else 1)  # number of reported prefixes of pair n
        is_pad = torch.arange(rows).unsqueeze(1) >= limit.unsqueeze(0)
    else:
        exp = full.gather(1, hl.unsqueeze(1)).squeeze(1)
        is_pad = torch.zeros(N, dtype=torch.bool)
    constrained = torch.ones_like(is_pad)
    if cfg["norm"]:
        zero = rl == 0
        exp = exp / torch.where(zero, torch.ones_like(rl), rl)
        constrained = constrained & ~(zero.unsqueeze(0) if prefix else zero)
    constrained = constrained & ~is_pad
    if prefix:
        exp = torch.where(is_pad, torch.full_like(exp, float(cfg["padding"])), exp)
    return exp, constrained, is_pad


def _tol(cfg, exp):
    # float32 sums of at most R + H products of the costs: relative error far below 1e-5 of the scale
    return 1e-5 * (max(cfg["costs"]) + exp.abs())


def _describe(cfg, ref_cols, hyp_cols, n):
    r, h = ref_cols[n], hyp_cols[n]
    return "pair n=%d ref column %s hyp column %s (sequences %s -> %s)" % (
        n, list(r), list(h), list(spec_seq(r, cfg["eos"], cfg["include_eos"])), list(spec_seq(h, cfg["eos"], cfg["include_eos"])))


def _check_against_spec(cfg, R, H, ref_cols, hyp_cols):
    import torch

    out, err = _call(cfg, ref_cols, hyp_cols, R, H)
    if err:
        return err
    exp, constrained, is_pad = _expected(cfg, ref_cols, hyp_cols, H)
    bad = (constrained & ~((out - exp).abs() <= _tol(cfg, exp))) | (is_pad & (out != exp))
    if bool(bad.any()):
        idx = [int(i) for i in bad.nonzero()[0]]
        n = idx[-1]
        where = "" if out.dim() == 1 else " prefix j=%d" % idx[0]
        what = "padding position holds" if bool(is_pad[tuple(idx)]) else "value"
        return "%s:%s %s %r, spec says %r [%d of %d entries differ]" % (
            _describe(cfg, ref_cols, hyp_cols, n), where, what, float(out[tuple(idx)]), float(exp[tuple(idx)]), int(bad.sum()), bad.numel())
    return None


def check_spec(case):
    """C01.sm.post_final / post_prefix / C01.wrap.forward: the reported numbers equal the spec on every pair
    of the batch."""
    cfg = _cfg(case)
    R, H, ref_cols, hyp_cols = _columns(case)
    return _check_against_spec(cfg, R, H, ref_cols, hyp_cols)


def check_uniform(case):
    """C01.sm.uniform_shortcut: with ins = del = sub = c the result is c times the unit-cost result and
    equals the spec for (c, c, c)."""
    import torch

    cfg = _cfg(case)
    assert cfg["costs"][0] == cfg["costs"][1] == cfg["costs"][2]
    c = cfg["costs"][0]
    R, H, ref_cols, hyp_cols = _columns(case)
    msg = _check_against_spec(cfg, R, H, ref_cols, hyp_cols)
    if msg:
        return msg
    out_c, err = _call(cfg, ref_cols, hyp_cols, R, H)
    if err:
        return err
    unit = dict(cfg, costs=(1.0, 1.0, 1.0))
    out_1, err = _call(unit, ref_cols, hyp_cols, R, H)
    if err:
        return err
    exp, constrained, is_pad = _expected(cfg, ref_cols, hyp_cols, H)
    bad = constrained & ~((out_c - c * out_1).abs() <= 1e-5 * (c + (c * out_1).abs()))
    if bool(bad.any()):
        idx = [int(i) for i in bad.nonzero()[0]]
        return "%s: cost %r gives %r but %r x unit-cost result is %r" % (
            _describe(cfg, ref_cols, hyp_cols, idx[-1]), c, float(out_c[tuple(idx)]), c, c * float(out_1[tuple(idx)]))
    return None


# ---- independence ------------------------------------------------------------------------------


def _same(a, b):
    """exact equality, NaN equal to NaN (0/0 of an empty reference under norm)"""
    import torch

    return (a == b) | (torch.isnan(a) & torch.isnan(b))


def _first_eos(col, eos):
    for t, x in enumerate(col):
        if x == eos:
            return t
    return None


def check_independence(case):
    """C01.sm.independence: a pair's result is exactly the same (a) alone, (b) at another place in the batch,
    (c) with other garbage after its eos, (d) with the tensors padded further (eos + garbage rows)."""
    import torch

    cfg = _cfg(case)
    R, H, ref_cols, hyp_cols = _columns(case)
    N = len(ref_cols)
    eos = cfg["eos"]
    rng = random.Random(case.get("seed", 0) * 7919 + R * 31 + H)
    base, err = _call(cfg, ref_cols, hyp_cols, R, H)
    if err:
        return err

    def col(out, n):
        return out[n] if out.dim() == 1 else out[:, n]

    # (a) alone
    for n in range(0, N, int(case.get("single_stride", 1))):
        o, err = _call(cfg, ref_cols[n:n + 1], hyp_cols[n:n + 1], R, H)
        if err:
            return "singleton: " + err
        if not bool(_same(col(o, 0), col(base, n)).all()):
            return "%s: alone gives %s, inside the batch of %d gives %s" % (_describe(cfg, ref_cols, hyp_cols, n), col(o, 0).tolist(), N, col(base, n).tolist())
    # (b) elsewhere in the batch
    perms = [list(range(N - 1, -1, -1))]
    p = list(range(N))
    rng.shuffle(p)
    perms.append(p)
    for p in perms:
        o, err = _call(cfg, [ref_cols[i] for i in p], [hyp_cols[i] for i in p], R, H)
        if err:
            return "permuted: " + err
        for k, i in enumerate(p):
            if not bool(_same(col(o, k), col(base, i)).all()):
                return "%s: at batch position %d gives %s, at position %d gives %s" % (_describe(cfg, ref_cols, hyp_cols, i), k, col(o, k).tolist(), i, col(base, i).tolist())
    if eos is None:
        return None
    junk = [eos, eos + 1, eos - 1, -1, 0, BIG, -BIG, 3]

    def garble(c):
        t = _first_eos(c, eos)
        if t is None:
            return c
        return c[: t + 1] + tuple(rng.choice(junk) for _ in c[t + 1:])

    # (c) other garbage after the first eos
    for _ in range(2):
        r2, h2 = [garble(c) for c in ref_cols], [garble(c) for c in hyp_cols]
        o, err = _call(cfg, r2, h2, R, H)
        if err:
            return "garbage after eos: " + err
        if not bool(_same(o, base).all()):
            n = int((~_same(o, base)).nonzero()[0][-1])
            return "%s: result changes to %s (from %s) when the columns become ref %s hyp %s, which differ only after the first eos" % (
                _describe(cfg, ref_cols, hyp_cols, n), col(o, n).tolist(), col(base, n).tolist(), list(r2[n]), list(h2[n]))
    # (d) longer tensors: append an eos row and k - 1 garbage rows to ref, to hyp, to both. A column without an eos
    # keeps its sequence only if the eos is not counted.
    for kr, kh in ((1, 0), (0, 2), (2, 1)):
        def ext(c, k):
            return c + ((eos,) + tuple(rng.choice(junk) for _ in range(k - 1)) if k else ())

        r2, h2 = [ext(c, kr) for c in ref_cols], [ext(c, kh) for c in hyp_cols]
        o, err = _call(cfg, r2, h2, R + kr, H + kh)
        if err:
            return "extended tensors: " + err
        for n in range(N):
            if cfg["include_eos"] and ((kr and _first_eos(ref_cols[n], eos) is None) or (kh and _first_eos(hyp_cols[n], eos) is None)):
                continue
            a, b = col(o, n), col(base, n)
            if a.dim() == 0:
                ok = bool(_same(a, b))
            else:
                ok = bool(_same(a[: b.numel()], b).all()) and bool((a[b.numel():] == float(cfg["padding"])).all())
            if not ok:
                return "%s: result %s in a (%d,%d)-row batch but %s after appending eos+garbage rows (%d to ref, %d to hyp)" % (
                    _describe(cfg, ref_cols, hyp_cols, n), b.tolist(), R, H, a.tolist(), kr, kh)
    return None


# ---- _lens_from_eos ---------------------------------------------------------------------------------


def check_lens(case):
    """C01.lens.first_eos / empty_dim: _lens_from_eos(tok, eos, dim)[...] = index of the first eos along dim,
    the size of dim when there is none; returns for every size of dim including 0.
    case: {'alpha', 'T', 'layout': 'TN' | 'NT' | 'ATB', 'eos', ['neg_dim']} (every column over alpha of
    length T) or {'cols': [...], 'T', ...}"""
    import torch
    from pydrobert.torch._string import _lens_from_eos

    T, eos, layout = case["T"], case["eos"], case["layout"]
    cols = [tuple(c) for c in case["cols"]] if "cols" in case else list(itertools.product(case["alpha"], repeat=T))
    N = len(cols)
    want = [T if _first_eos(c, eos) is None else _first_eos(c, eos) for c in cols]
    tok = torch.tensor([list(c) for c in cols], dtype=torch.long).reshape(N, T)  # (N, T)
    if layout == "NT":
        dim, shape = 1, (N,)
    elif layout == "TN":
        tok, dim, shape = tok.t().contiguous(), 0, (N,)
    elif layout == "ATB":  # (2, T, N): second slice holds the columns in reverse order
        tok, dim, shape = torch.stack([tok.t(), tok.flip(0).t()], 0).contiguous(), 1, (2, N)
        want = [want, want[::-1]]
    else:
        raise ValueError(layout)
    if case.get("neg_dim"):
        dim -= tok.dim()
    out = _lens_from_eos(tok, eos, dim)
    if tuple(out.shape) != shape:
        return "shape %s, expected %s" % (tuple(out.shape), shape)
    if out.dtype != torch.long:
        return "dtype %s, expected int64" % out.dtype
    wt = torch.tensor(want, dtype=torch.long).reshape(shape)
    if not bool((out == wt).all()):
        i = [int(x) for x in (out != wt).nonzero()[0]]
        c = cols[i[-1]] if layout != "ATB" or i[0] == 0 else cols[N - 1 - i[-1]]
        return "column %s eos=%d: length %d, first eos says %d" % (list(c), eos, int(out[tuple(i)]), int(wt[tuple(i)]))
    return None


def check_empty_dim(case):
    """C01.lens.empty_dim: totality (and the spec) on a zero-length time dimension with eos set"""
    if case.get("kind") == "lens":
        return check_lens(case)
    return check_spec(case)


# ---------------------------------------------------------------------------------------------------
# enumeration


def _gen(alpha, R, H, maxpairs=8192):
    """generated batches for (alpha, R, H), split over reference columns so that no batch exceeds maxpairs"""
    nr, nh = len(alpha) ** R, len(alpha) ** H
    step = max(1, maxpairs // nh)
    if step >= nr:
        yield {"alpha": list(alpha), "R": R, "H": H}
    else:
        for lo in range(0, nr, step):
            yield {"alpha": list(alpha), "R": R, "H": H, "rsel": [lo, min(nr, lo + step)]}


def _spaces(ctx):
    """(alphabet, max length) grids enumerated completely; quick is a subset of thorough"""
    if ctx.quick:
        return [((0, 1, 2), 3), ((0, 1), 5)]
    return [((0, 1, 2), 5), ((0, 1, 2, 3), 4), ((0, 1), 7)]


def _eos_settings(alpha):
    # no eos; eos = smallest / largest token of the alphabet; both ways of counting it
    out = [(None, False), (None, True)]
    for e in (alpha[0], alpha[-1]):
        out += [(e, False), (e, True)]
    return out


def _empty_with_eos(eos, R, H):
    return eos is not None and (R == 0 or H == 0)


def _rand_batch(rng, maxlen, maxn):
    """ragged random batch: explicit columns with eos somewhere (or nowhere) and garbage after it"""
    V = rng.randint(1, 5)
    alpha = list(range(V))
    eos = rng.choice([None, 0, V - 1, V, -1])
    R, H, N = rng.randint(0, maxlen), rng.randint(0, maxlen), rng.randint(1, maxn)
    junk = alpha + [BIG, -5] + ([eos] if eos is not None else [])

    def column(T):
        body = [rng.choice(alpha) for _ in range(T)]
        if eos is not None and T and rng.random() < 0.8:
            t = rng.randint(0, T - 1)
            body = [x if x != eos else rng.choice(alpha) for x in body[:t]]
            body = body + [eos] + [rng.choice(junk) for _ in range(T - t - 1)]
        return body[:T]

    def related(c):  # hypotheses are noisy copies of the reference as often as not
        c = list(c)
        for _ in range(rng.randint(0, 3)):
            op = rng.randint(0, 2)
            if op == 0 and c:
                del c[rng.randrange(len(c))]
            elif op == 1:
                c.insert(rng.randint(0, len(c)), rng.choice(alpha))
            elif c:
                c[rng.randrange(len(c))] = rng.choice(alpha)
        c = (c + [eos if eos is not None else rng.choice(alpha)] + [rng.choice(junk) for _ in range(H)])[:H]
        return c

    ref = [column(R) for _ in range(N)]
    hyp = [related(spec_seq(c, eos, False)) if rng.random() < 0.5 else column(H) for c in ref]
    costs = rng.choice(COSTS10 + [tuple(round(10 ** rng.uniform(-2, 2), 3) for _ in range(3)), (round(10 ** rng.uniform(-2, 2), 3),) * 3])
    return dict(ref=ref, hyp=hyp, eos=eos, include_eos=rng.random() < 0.5, norm=rng.random() < 0.5, batch_first=rng.random() < 0.5,
                costs=list(costs), padding=rng.choice([-100, -1, 0, 7]))


def cases_spec(ctx, fn, want_empty_eos=False):
    """post_final (fn='ed') / post_prefix (fn='prefix'): every batch of the grids x every configuration.
    Batches with eos set and a zero-length time dimension belong to C01.lens.empty_dim (want_empty_eos), except
    prefix + exclude_last on H = 0."""
    excl = (False, True) if fn == "prefix" else (False,)
    if fn == "prefix" and not want_empty_eos:
        yield from REGRESSION["C01.sm.post_prefix"]
    for alpha, L in _spaces(ctx):
        costs = COSTS10 if (ctx.quick or len(alpha) == 2 or L <= 4) else COSTS10[:6]
        if L <= 3:
            costs = costs + COSTS0
        for R in range(L + 1):
            for H in range(L + 1):
                for eos, inc in _eos_settings(alpha):
                    for g in _gen(alpha, R, H):
                        for c in costs:
                            for norm in (False, True):
                                for bf in (False, True):
                                    for ex in excl:
                                        # the (0, N) result of exclude_last on H = 0 stays with post_prefix whatever eos is
                                        if (_empty_with_eos(eos, R, H) and not (ex and H == 0)) != want_empty_eos:
                                            continue
                                        yield dict(fn=fn, gen=g, eos=eos, include_eos=inc, norm=norm, batch_first=bf, exclude_last=ex, costs=list(c),
                                                   padding=-100 if (R + H) % 2 == 0 else 7)
    if want_empty_eos:
        return
    # an eos outside the alphabet (never found) and a negative one
    for R in range(4):
        for H in range(4):
            for eos in (5, -1):
                for inc in (False, True):
                    for c in COSTS3 + COSTS0[:2]:
                        for ex in excl:
                            if R and H:
                                yield dict(fn=fn, gen={"alpha": [0, 1, 2], "R": R, "H": H}, eos=eos, include_eos=inc, norm=bool(R % 2), batch_first=bool(H % 2),
                                           exclude_last=ex, costs=list(c), padding=-1)
    if not ctx.quick:
        rng = random.Random(1000003 * ctx.seed + (1 if fn == "ed" else 2))
        for _ in range(3000):
            b = _rand_batch(rng, 10, 16)
            b.update(fn=fn, exclude_last=(rng.random() < 0.5) if fn == "prefix" else False)
            yield b


def cases_uniform(ctx):
    cs = [0.5, 0.7, 3.0, 1e-3, 250.0] + ([] if ctx.quick else [0.1, 2.0, 1e-2, 1e3, 1.0])
    for alpha, L in ([((0, 1, 2), 3)] if ctx.quick else [((0, 1, 2), 4), ((0, 1), 6)]):
        for R in range(L + 1):
            for H in range(L + 1):
                for eos, inc in [(None, False), (alpha[0], False), (alpha[0], True)]:
                    for g in _gen(alpha, R, H):
                        for c in cs:
                            for fn, ex in (("ed", False), ("prefix", False), ("prefix", True)):
                                for norm in (False, True):
                                    yield dict(fn=fn, gen=g, eos=eos, include_eos=inc, norm=norm, batch_first=bool((R + H) % 2), exclude_last=ex, costs=[c, c, c])


def cases_independence(ctx):
    k = 0
    for alpha, L in ([((0, 1, 2), 3)] if ctx.quick else [((0, 1, 2), 4), ((0, 1), 5)]):
        for R in range(L + 1):
            for H in range(L + 1):
                for eos, inc in [(None, False), (alpha[0], False), (alpha[0], True)]:
                    for g in _gen(alpha, R, H, maxpairs=243):
                        for c in COSTS2:
                            for fn, ex in (("ed", False), ("prefix", False), ("prefix", True)):
                                for norm in (False, True):
                                    k += 1
                                    yield dict(fn=fn, gen=g, eos=eos, include_eos=inc, norm=norm, batch_first=bool(k % 2), exclude_last=ex, costs=list(c), seed=ctx.seed)
    if not ctx.quick:
        rng = random.Random(1000003 * ctx.seed + 3)
        for _ in range(2000):
            b = _rand_batch(rng, 8, 16)
            fn = rng.choice(["ed", "prefix"])
            b.update(fn=fn, exclude_last=(rng.random() < 0.5) if fn == "prefix" else False, seed=rng.randrange(1 << 30))
            yield b


def cases_wrap(ctx):
    L = 3 if ctx.quick else 4
    for via in ("functional_pos", "module_kw", "module_pos", "functional_kw"):
        for R in range(L + 1):
            for H in range(L + 1):
                for eos, inc in [(None, False), (0, False), (0, True)]:
                    for c in COSTS3:
                        for fn, ex in (("ed", False), ("prefix", False), ("prefix", True)):
                            for norm in (False, True):
                                for bf in (False, True):
                                    # functional_kw only with warn=True (warn=False is what post_final/post_prefix call)
                                    for warn in ((True,) if via == "functional_kw" else (False, True)):
                                        yield dict(fn=fn, gen={"alpha": [0, 1, 2], "R": R, "H": H}, eos=eos, include_eos=inc, norm=norm, batch_first=bf, exclude_last=ex,
                                                   costs=list(c), padding=-3, via=via, warn=warn)


def cases_lens(ctx, empty=False):
    spaces = [((0, 1, 2), 5), ((0, 1), 8)] if ctx.quick else [((0, 1, 2), 8), ((0, 1, 2, 3), 6), ((0, 1), 12)]
    for alpha, L in spaces:
        for T in ([0] if empty else range(1, L + 1)):
            for eos in list(alpha) + [alpha[-1] + 1, -1]:
                for layout in ("TN", "NT", "ATB"):
                    for neg in (False, True):
                        yield dict(kind="lens", alpha=list(alpha), T=T, eos=eos, layout=layout, neg_dim=neg)
    if not empty:
        # long columns: more eos tokens after the first one than a narrow integer counter can hold (2^8, 2^15, 2^16)
        for T, lead in ((255, 0), (256, 0), (257, 1), (300, 3), (600, 2), (33000, 1), (70000, 2)) if not ctx.quick else ((256, 0), (300, 3), (33000, 1)):
            yield dict(kind="lens", cols=[[1] * lead + [0] * (T - lead), [2] * T, [1] * (T - 1) + [0]], T=T, eos=0, layout="TN")
    if empty:
        for N in range(0, 4):  # T = 0 with explicit batch sizes (the grid above has exactly one column of length 0)
            for layout in ("TN", "NT", "ATB"):
                yield dict(kind="lens", cols=[[]] * N, T=0, eos=0, layout=layout)
    elif not ctx.quick:
        rng = random.Random(1000003 * ctx.seed + 4)
        for _ in range(2000):
            T, N = rng.randint(1, 40), rng.randint(1, 12)
            eos = rng.choice([0, 1, -1, BIG])
            yield dict(kind="lens", cols=[[rng.choice([0, 1, 2, -1, BIG]) for _ in range(T)] for _ in range(N)], T=T, eos=eos, layout=rng.choice(["TN", "NT", "ATB"]))


def cases_empty_dim(ctx):
    yield from REGRESSION["C01.lens.empty_dim"]
    yield from cases_lens(ctx, empty=True)
    yield from cases_spec(ctx, "ed", want_empty_eos=True)
    yield from cases_spec(ctx, "prefix", want_empty_eos=True)


def guard_oracle(ctx):
    """the recurrence used as spec equals the minimum over edit scripts (shortest path over strings)"""
    from vf.core import Clause

    alpha, L = (0, 1, 2), (2 if ctx.quick else 3)
    strings = [s for n in range(L + 1) for s in itertools.product(alpha, repeat=n)]
    bad, n = [], 0
    for costs in COSTS10:
        for r in strings:
            dist = spec_min_over_scripts(r, costs, alpha, L + 1)
            for h in strings:
                n += 1
                if abs(float(dist[h]) - spec_row(r, h, costs)[-1]) > 1e-12 * (1 + float(dist[h])):
                    bad.append((r, h, costs, float(dist[h]), spec_row(r, h, costs)[-1]))
    c = Clause(name="C01.guard.oracle", kind="guard", status="ok" if not bad else "error", evaluations=n,
               text="spec recurrence == min cost over edit scripts (Dijkstra over strings, alphabet {0,1,2}, lengths <= %d, intermediates <= %d, 10 cost triples)" % (L, L + 1),
               detail="%d disagreements%s" % (len(bad), (" first: %r" % (bad[0],)) if bad else ""))
    ctx.add_clause(c)
    if bad:
        ctx.errors.append("C01 oracle disagrees with the minimum over edit scripts")


# ---------------------------------------------------------------------------------------------------
# registration

CHECKERS = {
    "C01.lens.first_eos": check_lens,
    "C01.lens.empty_dim": check_empty_dim,
    "C01.sm.post_final": check_spec,
    "C01.sm.post_prefix": check_spec,
    "C01.sm.uniform_shortcut": check_uniform,
    "C01.sm.independence": check_independence,
    "C01.wrap.forward": check_spec,
}


# Defects this driver found in the tree it was written against; both were repaired in /repo afterwards, the cases that
# exposed them stay in the enumeration (and are yielded first, by name) as the regression oracle of those repairs.
#  * 22f6e22 "_lens_from_eos raises when the sequence dimension has size zero": eos set and R = 0 or H = 0 made
#    edit_distance / prefix_edit_distances raise 'max(): Expected reduction dim 0 to have non-zero size'
#    -> clause C01.lens.empty_dim
#  * 7c520c6 "prefix_edit_distances ... raise on an empty hypothesis with exclude_last": H = 0 and exclude_last raised
#    IndexError instead of returning the (0, N) result -> clause C01.sm.post_prefix
REGRESSION = {
    "C01.lens.empty_dim": [
        {"fn": "ed", "ref": [[]], "hyp": [[1]], "eos": 0, "include_eos": False, "norm": False, "batch_first": False, "costs": [1.0, 1.0, 1.0]},
        {"fn": "prefix", "ref": [[1, 0]], "hyp": [[]], "eos": 0, "include_eos": True, "norm": False, "batch_first": True, "exclude_last": False, "costs": [1.0, 2.0, 2.5], "padding": -100},
        {"kind": "lens", "cols": [[], []], "T": 0, "eos": 0, "layout": "TN"},
    ],
    "C01.sm.post_prefix": [
        {"fn": "prefix", "ref": [[1]], "hyp": [[]], "eos": None, "include_eos": False, "norm": False, "batch_first": False, "exclude_last": True, "costs": [1.0, 1.0, 1.0], "padding": -100},
        {"fn": "prefix", "ref": [[1, 0], [0, 0]], "hyp": [[], []], "eos": 0, "include_eos": True, "norm": True, "batch_first": True, "exclude_last": True, "costs": [1.0, 2.0, 2.5], "padding": 7},
    ],
}
FINDINGS = []  # nothing open on the current tree
KNOWN_MATCH = {}


def _grid_text(ctx):
    return "; ".join("alphabet {%s} lengths 0..%d" % (",".join(map(str, a)), L) for a, L in _spaces(ctx))


def run_bounded(ctx):
    ctx.known_match.update(KNOWN_MATCH)
    only = getattr(ctx, "only", None)
    # import once here: the fork pool's workers inherit the loaded library instead of importing it 16 times per clause
    warnings.filterwarnings("ignore", category=FutureWarning, message=".*torch.jit.script.*")
    import torch  # noqa: F401
    import pydrobert.torch.functional  # noqa: F401
    import pydrobert.torch.modules  # noqa: F401

    def on(name):
        return not only or any(name.startswith(p) for p in only)

    q = ctx.quick
    flags = "include_eos, norm, batch_first (exclude_last) both ways"
    if on("C01.guard.oracle"):
        guard_oracle(ctx)
    if on("C01.lens.first_eos"):
        ctx.bounded("C01.lens.first_eos", check_lens, cases_lens(ctx),
                    bound=("every column over {0,1,2} of length 1..5 and over {0,1} of length 1..8" if q else
                           "every column over {0,1,2} of length 1..8, {0..3} of length 1..6, {0,1} of length 1..12; 2000 seeded random (T<=40, N<=12, tokens incl. +-1e9)")
                    + "; eos in alphabet + {max+1, -1}; layouts (T,N) dim 0, (N,T) dim 1, (2,T,N) dim 1; dim also given negative",
                    text="_lens_from_eos = index of the first eos along dim, size of dim if none; shape, dtype", chunk=8,
                    functions=["_string._lens_from_eos"])
    if on("C01.lens.empty_dim"):
        ctx.bounded("C01.lens.empty_dim", check_empty_dim, cases_empty_dim(ctx),
                    bound="time dimension 0: _lens_from_eos on (0,N) N=0..3 and 3 layouts; edit_distance and prefix_edit_distances with eos set and R=0 or H=0, "
                          "the other length over %s, every configuration of post_final/post_prefix (prefix with exclude_last on H=0 is enumerated by C01.sm.post_prefix); "
                          "3 named regression cases of fix 22f6e22" % _grid_text(ctx),
                    text="returns (does not raise) on an empty time dimension with eos set, and the result equals the spec", chunk=16,
                    nontrivial=lambda c: True, functions=FUNCS_SM)
    if on("C01.sm.post_final"):
        ctx.bounded("C01.sm.post_final", check_spec, cases_spec(ctx, "ed"),
                    bound="every pair of columns, %s, one batch per (alphabet, R, H) (<= 8192 pairs per call); eos in {None, min, max of alphabet, absent 5, -1}; %s; "
                          "10 cost triples incl. uniform, NIST (3,3,4), non-dyadic; "
                          "batches with eos set and R=0 or H=0 are enumerated by C01.lens.empty_dim%s" % (_grid_text(ctx), flags, "" if q else "; 3000 seeded random ragged batches (N<=16, lengths<=10, garbage +-1e9, log-uniform costs)"),
                    text="edit_distance[n] = exact Wagner-Fischer cost of (ref_n -> hyp_n) (/ |ref_n| if norm), tolerance 1e-5*(max cost+|x|); shape (N,)",
                    nontrivial=lambda c: _nontrivial(c), chunk=8, functions=FUNCS_SM + ["_string.edit_distance"])
    if on("C01.sm.post_prefix"):
        ctx.bounded("C01.sm.post_prefix", check_spec, cases_spec(ctx, "prefix"),
                    bound="as C01.sm.post_final, times exclude_last in {False, True} (H=0 with exclude_last, the (0,N) result, for every eos setting here); padding in {-100, 7, -1}; "
                          "2 named regression cases of fix 7c520c6",
                    text="prefix_edit_distances[j,n] = exact cost of (ref_n -> hyp_n[:j]) for j <= |hyp_n| (< if exclude_last), exactly `padding` beyond; shape (H+1-excl, N), transposed iff batch_first",
                    nontrivial=lambda c: _nontrivial(c), chunk=8, functions=FUNCS_SM + ["_string.prefix_edit_distances"])
    if on("C01.sm.uniform_shortcut"):
        ctx.bounded("C01.sm.uniform_shortcut", check_uniform, cases_uniform(ctx),
                    bound="every pair of columns, %s; c in %s; eos in {None, 0 not counted, 0 counted}; norm both ways; ed, prefix, prefix exclude_last" % (
                        "alphabet {0,1,2} lengths 0..3" if q else "alphabet {0,1,2} lengths 0..4, {0,1} lengths 0..6", "{0.5,0.7,3,1e-3,250}" if q else "{0.5,0.7,3,1e-3,250,0.1,2,1e-2,1e3,1}"),
                    text="ins=del=sub=c: result = c x unit-cost result = spec for (c,c,c)", nontrivial=lambda c: _nontrivial(c), chunk=8, functions=FUNCS_SM)
    if on("C01.sm.independence"):
        ctx.bounded("C01.sm.independence", check_independence, cases_independence(ctx),
                    bound="every pair of columns, %s, in batches of <= 243; each pair alone vs in the batch, batch reversed and shuffled, 2 re-drawings of the garbage after the first eos "
                          "(tokens from {eos, eos+-1, -1, 0, 3, +-1e9}), tensors extended by eos+garbage rows ((1,0),(0,2),(2,1) rows to ref,hyp); 2 cost triples; eos in {None, 0 not counted, 0 counted}; "
                          "norm both ways, batch_first alternating; ed, prefix, prefix exclude_last%s" % ("alphabet {0,1,2} lengths 0..3" if q else "alphabet {0,1,2} lengths 0..4, {0,1} lengths 0..5",
                                                                                           "" if q else "; 2000 seeded random ragged batches"),
                    text="a pair's result is bit-identical alone / elsewhere in the batch / with other garbage after its eos / in longer tensors",
                    nontrivial=lambda c: _nontrivial(c), chunk=2, functions=FUNCS_SM)
    if on("C01.wrap.forward"):
        ctx.bounded("C01.wrap.forward", check_spec, cases_wrap(ctx),
                    bound="every pair of columns over {0,1,2}, lengths 0..%d; functional positional, modules EditDistance/PrefixEditDistances by keyword and positional, warn both ways "
                          "(functional by keyword with warn=True); 3 cost triples with pairwise distinct costs; eos in {None, 0 not counted, 0 counted}; norm, batch_first, exclude_last both ways; padding -3" % (3 if q else 4),
                    text="every public entry point hands every argument to the computation in its documented slot: results equal the spec",
                    nontrivial=lambda c: _nontrivial(c), chunk=8,
                    functions=["_string.edit_distance", "_string.prefix_edit_distances", "_string.EditDistance.forward", "_string.PrefixEditDistances.forward"])
    ctx.replay_known_witnesses()
    ctx.assume("float32 results compared with the exact rational spec at tolerance 1e-5*(max cost + |x|); padding positions and all independence comparisons are exact",
               "Wagner-Fischer recurrence = minimum over edit scripts (textbook; cross-checked by C01.guard.oracle on strings of length <= %d)" % (2 if q else 3),
               "norm with an empty reference (x/0) is not defined by the property: those entries are unconstrained (their padding positions are still checked)",
               "exclude_last omits each pair's own full prefix: position |hyp_n| holds padding",
               "tokens are int64 tensors on the CPU; eager mode (no tracing / TorchScript of _string_matching)")
    ctx.not_applicable.append("C01 on CUDA tensors and under TorchScript/tracing of _string_matching (only eager CPU execution is run)")


def _nontrivial(case):
    if "gen" in case:
        return case["gen"]["R"] > 0 and case["gen"]["H"] > 0
    return len(case["ref"][0]) > 0 and len(case["hyp"][0]) > 0
