"""C15 - training control decisions follow the stated rules and survive restarts:
bounded run-time contracts (engine B) on the real pydrobert.torch.training.TrainingStateController

    C15.hist.rules      whole histories (no files): every decision, learning rate, count-down and the
                        best epoch after every epoch against an explicit state machine
    C15.restart.equiv   discard the controller after every subset of epochs and rebuild it from the
                        same CSV + state directory: decisions, the learning rates that are really in
                        the optimizer's param groups, recorded rows and CSV text as in the
                        uninterrupted run
    C15.user.types      user-defined entries come back with their declared types (live and rebuilt)

The deductive part (contracts/C15.py + C15_vc.py) proves the ONE-STEP rules of update_for_epoch and
get_best_epoch under a history invariant. What it cannot reach is here: whole histories from the
empty one (so the invariant's base case and its preservation are exercised on the real object),
the round trip through the CSV text and torch.save/torch.load, and the typed user entries.

Oracle (written from the property text and the class documentation, no index arithmetic, nothing
shared with the implementation): one `Criterion` per rule (early stopping, lr reduction) with the
ghost state the text talks about --

    wait   epochs left in which the criterion is suspended (burn-in; cool-down after a reduction)
    ref    "the value [the validation metric] had when the patience count was last reset"
           (+inf before any epoch; while the criterion is suspended the count is held at its full
           value, so the reference is the latest metric)
    stale  consecutive live epochs in which the metric "failed to undercut ref by the threshold"

fires <=> threshold > 0 and stale reaches patience. Early stopping firing, or epoch >= num_epochs,
is exactly when the controller must say stop. The reduction firing multiplies lr by the factor iff
old - new > 10**log10_epsilon ("the change is not negligible"), restarts the cool-down and resets
the count. Documented meaning of the recorded count-downs: *_resume_cd = wait,
*_patience_cd = patience - stale. Best epoch = earliest epoch with the smallest metric.

A case is JSON: {"cfg": {...}, "val": [per-epoch validation metrics], "subset": null | [epochs]}
(cfg keys: esP/esB/esT, rP/rB/rC/rT = patience/burn-in/(cool-down)/threshold of the two criteria,
f factor, eps log10 epsilon, N num_epochs, lr0 optimizer's constructor rate, log10lr, groups, opt,
keep; missing keys take DEFAULT). subset = epochs after which the controller is discarded and
rebuilt; null = every subset, explored as a tree inside the one case. User-entry cases:
{"entries": [{"name", "typ", "fmt", "vals"}], "restart": k, "states": bool}.

Found on the unchanged tree (FINDINGS below): KF-C15-1 -- a rebuilt controller resumes from the
learning rate as printed in the CSV (5 significant digits) while the optimizer file holds the exact
one; the next reduction then writes a different rate than the uninterrupted run (10**-2.5 -> ...
7.9055e-04 instead of 7.9057e-04), in the optimizer and in the CSV.
"""
import itertools
import os
import random
import shutil
import tempfile
import warnings
from fractions import Fraction

INF = float("inf")
SHM = "/dev/shm" if os.path.isdir("/dev/shm") and os.access("/dev/shm", os.W_OK) else None
COLS = ("epoch", "es_resume_cd", "es_patience_cd", "rlr_resume_cd", "rlr_patience_cd", "lr", "train_met", "val_met")
INT_COLS = COLS[:5]
DEFAULT = dict(esP=1, esB=0, esT=0.0, rP=1, rB=0, rC=0, rT=0.0, f=0.5, eps=-8, N=None, lr0=1.0, log10lr=None,
               groups=1, opt="sgd", keep=True)


def full(cfg):
    d = dict(DEFAULT)
    d.update(cfg)
    return d


def p5(x):
    """the history file's printed precision: 5 significant digits, exponent notation (class doc)"""
    return "%.4e" % x


def printable(x):
    return float(p5(x)) == x


# ----------------------------------------------------------------------------------------------
# spec side: the explicit state machine


class Criterion:
    def __init__(self, patience, burnin, threshold):
        self.patience, self.threshold = patience, threshold
        self.wait, self.ref, self.stale = burnin, INF, 0

    def step(self, val):
        """consume one epoch's validation metric; True iff the criterion fires at this epoch"""
        if self.wait > 0:  # suspended: burn-in or cool-down. the count stays full
            self.wait -= 1
            self.ref, self.stale = val, 0
            return False
        undercut = self.ref - val >= self.threshold  # improved on the reference by at least the threshold
        if self.threshold > 0 and not undercut:
            self.stale += 1
            if self.stale >= self.patience:
                return True
            return False
        self.ref, self.stale = val, 0  # the patience count is reset here; remember the value
        return False


TRAIN = [0.5001, 0.7501, 1.0001, 1.2501, 1.5001]  # literals with 5 significant digits: any lost printed digit shows after a rebuild


def train_of(i, val):
    """training metric of epoch i (1-based): deliberately different from the validation metric"""
    return TRAIN[(3 * i) % 5]


def spec_history(cfg, vals, reload_after=()):
    """rows of the uninterrupted run as the property prescribes them; stops after the first stop decision.
    reload_after is NOT part of the spec: it models known finding KF-C15-1 (after a rebuild the rate is the
    one printed in the CSV) and is used only by that finding's class predicate."""
    es = Criterion(cfg["esP"], cfg["esB"], cfg["esT"])
    rl = Criterion(cfg["rP"], cfg["rB"], cfg["rT"])
    lr = cfg["lr0"] if cfg["log10lr"] is None else 10 ** cfg["log10lr"]
    rows, best, best_val, bestt, bestt_val = [], 0, INF, 0, INF
    for e, v in enumerate(vals, 1):
        stop_es = es.step(v)
        if rl.step(v):
            new = lr * cfg["f"]
            if lr - new > 10 ** cfg["eps"]:
                lr = new
            rl.wait, rl.ref, rl.stale = cfg["rC"], v, 0
        t = train_of(e, v)
        if v < best_val:
            best, best_val = e, v
        if t < bestt_val:
            bestt, bestt_val = e, t
        cont = not (stop_es or (cfg["N"] is not None and e >= cfg["N"]))
        rows.append({"epoch": e, "cont": cont, "lr": lr, "es_resume_cd": es.wait, "es_patience_cd": es.patience - es.stale,
                     "rlr_resume_cd": rl.wait, "rlr_patience_cd": rl.patience - rl.stale, "train_met": t, "val_met": v,
                     "best": best, "best_train": bestt})
        if not cont:
            break
        if e in reload_after:
            lr = float(p5(lr))
    return rows


# ----------------------------------------------------------------------------------------------
# real side


_PARAMS = {}


def make_params(cfg, reuse=False):
    """reuse: the file-less clause builds one (read-only) parameter object per setting and worker"""
    if not reuse:
        return _make_params(cfg)
    key = tuple(sorted((k, repr(v)) for k, v in cfg.items()))
    if key not in _PARAMS:
        if len(_PARAMS) > 64:
            _PARAMS.clear()
        _PARAMS[key] = _make_params(cfg)
    return _PARAMS[key]


def _make_params(cfg):
    from pydrobert.torch.training import TrainingStateParams

    return TrainingStateParams(
        num_epochs=cfg["N"], log10_learning_rate=cfg["log10lr"],
        early_stopping_threshold=cfg["esT"], early_stopping_patience=cfg["esP"], early_stopping_burnin=cfg["esB"],
        reduce_lr_threshold=cfg["rT"], reduce_lr_patience=cfg["rP"], reduce_lr_burnin=cfg["rB"],
        reduce_lr_cooldown=cfg["rC"], reduce_lr_factor=cfg["f"], reduce_lr_log10_epsilon=cfg["eps"],
        keep_last_and_best_only=cfg["keep"])


class Run:
    """what a user's training script holds: params, controller, model, optimizer. Built the way the class
    documentation's example builds it (construct, then load_model_and_optimizer_for_epoch)."""

    def __init__(self, cfg, root=None):
        import torch
        from pydrobert.torch.training import TrainingStateController

        self.cfg = cfg
        self.params = make_params(cfg, reuse=root is None)
        csv = os.path.join(root, "hist.csv") if root else None
        sdir = os.path.join(root, "states") if root else None
        self.csv = csv
        self.ctrl = TrainingStateController(self.params, csv, sdir, warn=False)
        two = cfg["groups"] == 2
        self.model = torch.nn.Linear(1, 1, bias=two)
        groups = [{"params": [self.model.weight]}] + ([{"params": [self.model.bias]}] if two else [])
        cls = torch.optim.SGD if cfg["opt"] == "sgd" else torch.optim.Adam
        self.opt = cls(groups, lr=cfg["lr0"])
        self.ctrl.load_model_and_optimizer_for_epoch(self.model, self.opt)

    def lrs(self):
        return [g["lr"] for g in self.opt.param_groups]

    def step(self, e, val):
        import torch

        with torch.no_grad():
            self.model.weight.fill_(float(e))  # tag the parameters with the epoch they belong to
        cont = self.ctrl.update_for_epoch(self.model, self.opt, train_of(e, val), val)
        return cont

    def csv_text(self):
        with open(self.csv) as f:
            return f.read()


def against_spec(run, e, cont, want):
    """everything observable after epoch e against the state machine's row"""
    c = run.ctrl
    if bool(cont) != want["cont"] or not isinstance(cont, bool):
        return "epoch %d: update_for_epoch returned %r, the rules say continue=%s" % (e, cont, want["cont"])
    if c.continue_training() != want["cont"]:
        return "epoch %d: continue_training() = %r, the rules say %s" % (e, c.continue_training(), want["cont"])
    for k, lr in enumerate(run.lrs()):
        if lr != want["lr"]:
            return "epoch %d: optimizer param group %d has lr %r, the rules say %r" % (e, k, lr, want["lr"])
    info = c.get_info(e)
    if c[e] is not info and c[e] != info:
        return "epoch %d: controller[e] differs from get_info(e)" % e
    for key in COLS:
        if key not in info:
            return "epoch %d: get_info lacks %s" % (e, key)
        if info[key] != want[key] or (key in INT_COLS and type(info[key]) is not int):
            return "epoch %d: recorded %s = %r, the rules say %r" % (e, key, info[key], want[key])
    if c.get_last_epoch() != e:
        return "epoch %d: get_last_epoch() = %r" % (e, c.get_last_epoch())
    if c.get_best_epoch() != want["best"]:
        return "epoch %d: get_best_epoch() = %r, earliest minimum is %r" % (e, c.get_best_epoch(), want["best"])
    if c.get_best_epoch(train_met=True) != want["best_train"]:
        return "epoch %d: get_best_epoch(train) = %r, earliest minimum is %r" % (e, c.get_best_epoch(True), want["best_train"])
    return None


def check_history(case):
    """C15.hist.rules: one whole history on a controller without files against the state machine"""
    cfg, vals = full(case["cfg"]), case["val"]
    want = spec_history(cfg, vals)
    with warnings.catch_warnings():
        warnings.simplefilter("ignore")
        run = Run(cfg)
        lr_init = cfg["lr0"] if cfg["log10lr"] is None else 10 ** cfg["log10lr"]
        if cfg["log10lr"] is not None and any(lr != lr_init for lr in run.lrs()):
            return "initial learning rate %r not written into the optimizer (%r)" % (lr_init, run.lrs())
        if run.ctrl.get_last_epoch() != 0 or run.ctrl.get_best_epoch() != 0:
            return "empty history: last/best epoch not 0"
        for row in want:
            e = row["epoch"]
            cont = run.step(e, row["val_met"])
            msg = against_spec(run, e, cont, row)
            if msg:
                return msg
        # earlier rows are not rewritten by later epochs
        for row in want:
            info = run.ctrl.get_info(row["epoch"])
            for key in COLS:
                if info[key] != row[key]:
                    return "after the run: row %d %s = %r, was %r when recorded" % (row["epoch"], key, info[key], row[key])
            if run.ctrl.continue_training(row["epoch"]) != row["cont"]:
                return "after the run: continue_training(%d) = %r, decision then was %s" % (
                    row["epoch"], run.ctrl.continue_training(row["epoch"]), row["cont"])
    return None


# ---- restart equivalence ------------------------------------------------------------------------


def same_lr(a, b, exact):
    return a == b if exact else p5(a) == p5(b)


def check_restart(case):
    """C15.restart.equiv: uninterrupted run (also held against the state machine), then every subset of
    restart points (or the one listed in case["subset"]) explored as a tree: at each epoch boundary the
    run either goes on with the live objects or is discarded and rebuilt from a copy of the files."""
    cfg, vals = full(case["cfg"]), case["val"]
    subset = case.get("subset")
    want = spec_history(cfg, vals)
    with warnings.catch_warnings(), tempfile.TemporaryDirectory(prefix="c15_", dir=SHM) as root:
        warnings.simplefilter("ignore")
        # -- reference: the uninterrupted run --
        d0 = os.path.join(root, "u")
        os.mkdir(d0)
        live = Run(cfg, d0)
        ref = [None]
        for row in want:
            e = row["epoch"]
            cont = live.step(e, row["val_met"])
            msg = against_spec(live, e, cont, row)
            if msg:
                return "uninterrupted run with files: " + msg
            ref.append({"cont": cont, "lrs": live.lrs(), "info": dict(live.ctrl.get_info(e)), "csv": live.csv_text(),
                        "best": live.ctrl.get_best_epoch(), "best_train": live.ctrl.get_best_epoch(True)})
        n = len(want)
        # lr values are compared bit for bit as long as every learning rate of the run survives the
        # printed precision (the grid assumption of the property), else to the printed precision
        exact = all(printable(r["lr"]) for r in want) and printable(cfg["lr0"])
        counter = [0]

        def rebuilt_ok(run, i, discarded_lrs):
            c, r = run.ctrl, ref[i]
            if c.get_last_epoch() != i:
                return "rebuilt after epoch %d: get_last_epoch() = %r" % (i, c.get_last_epoch())
            if c.continue_training() != r["cont"]:
                return "rebuilt after epoch %d: continue_training() = %r, the uninterrupted run was told %r" % (i, c.continue_training(), r["cont"])
            if c.get_best_epoch() != r["best"] or c.get_best_epoch(True) != r["best_train"]:
                return "rebuilt after epoch %d: best epoch %r/%r, uninterrupted %r/%r" % (
                    i, c.get_best_epoch(), c.get_best_epoch(True), r["best"], r["best_train"])
            if run.lrs() != discarded_lrs:  # bit for bit what the discarded optimizer held (that was compared with the uninterrupted run before)
                return "rebuilt after epoch %d: optimizer lrs after load %r, the discarded optimizer had %r" % (i, run.lrs(), discarded_lrs)
            if not all(same_lr(x, y, exact) for x, y in zip(run.lrs(), r["lrs"])):
                return "rebuilt after epoch %d: optimizer lrs after load %r, uninterrupted run had %r" % (i, run.lrs(), r["lrs"])
            if float(run.model.weight) != float(i):
                return "rebuilt after epoch %d: loaded parameters are those of epoch %r" % (i, float(run.model.weight))
            for e in range(1, i + 1):
                msg = same_row(c.get_info(e, None), ref[e]["info"], "rebuilt after epoch %d: row %d" % (i, e))
                if msg:
                    return msg
            return None

        def same_row(info, rinfo, where):
            if info is None:
                return "%s is missing" % where
            for key in COLS:
                a, b = info.get(key), rinfo[key]
                if a is None or (key in INT_COLS and type(a) is not int):
                    return "%s: %s has type %s, uninterrupted %s" % (where, key, type(a).__name__, type(b).__name__)
                if key == "lr":
                    if not same_lr(a, b, exact):
                        return "%s: lr %r, uninterrupted %r" % (where, a, b)
                elif a != b:
                    return "%s: %s = %r, uninterrupted %r" % (where, key, a, b)
            return None

        def stepped_ok(run, e, cont):
            r = ref[e]
            if cont != r["cont"]:
                return "epoch %d: told continue=%r, uninterrupted run was told %r" % (e, cont, r["cont"])
            if run.ctrl.continue_training() != r["cont"]:
                return "epoch %d: continue_training() = %r, uninterrupted %r" % (e, run.ctrl.continue_training(), r["cont"])
            a, b = run.lrs(), r["lrs"]
            if len(a) != len(b) or not all(same_lr(x, y, exact) for x, y in zip(a, b)):
                return "epoch %d: lr in the optimizer %r, uninterrupted run had %r" % (e, a, b)
            msg = same_row(run.ctrl.get_info(e, None), r["info"], "epoch %d: recorded row" % e)
            if msg:
                return msg
            if run.ctrl.get_best_epoch() != r["best"]:
                return "epoch %d: best epoch %r, uninterrupted %r" % (e, run.ctrl.get_best_epoch(), r["best"])
            if run.csv_text() != r["csv"]:
                a, b = run.csv_text().splitlines(), r["csv"].splitlines()
                k = next((j for j in range(min(len(a), len(b))) if a[j] != b[j]), min(len(a), len(b)))
                ra, rb = (a[k] if k < len(a) else ""), (b[k] if k < len(b) else "")
                cols = [COLS[j] if j < len(COLS) else "col%d" % j for j, (x, y) in enumerate(itertools.zip_longest(ra.split(","), rb.split(","))) if x != y]
                return "epoch %d: CSV text differs from the uninterrupted run in line %d columns %s: %r vs %r" % (e, k, cols, ra, rb)
            return None

        def allowed(i, restart):
            return subset is None or ((i in subset) == restart)

        def explore(run, d, i, path):
            """run has finished epochs 1..i on directory d (i >= 1)"""
            if allowed(i, True):
                if i < n and allowed(i, False):
                    counter[0] += 1
                    s = os.path.join(root, "s%d" % counter[0])
                    shutil.copytree(d, s)
                else:
                    s = d  # nobody else needs d any more
                tag = "restarts after epochs %s: " % (path + [i])
                try:
                    fresh = Run(cfg, s)
                    msg = rebuilt_ok(fresh, i, run.lrs())
                    if msg is None and i < n:
                        msg = stepped_ok(fresh, i + 1, fresh.step(i + 1, vals[i]))
                except Exception as ex:  # the rebuilt run must behave as the uninterrupted one, which did not raise
                    msg = "raised %s: %s" % (type(ex).__name__, ex)
                if msg:
                    return tag + msg
                if i < n:
                    msg = explore(fresh, s, i + 1, path + [i])
                    if msg:
                        return msg
            if i < n and allowed(i, False):
                try:
                    msg = stepped_ok(run, i + 1, run.step(i + 1, vals[i]))
                except Exception as ex:
                    msg = "raised %s: %s" % (type(ex).__name__, ex)
                if msg:
                    return "restarts after epochs %s: " % path + msg
                return explore(run, d, i + 1, path)
            return None

        if n == 0:
            return None
        d1 = os.path.join(root, "t")
        os.mkdir(d1)
        run = Run(cfg, d1)
        try:
            msg = stepped_ok(run, 1, run.step(1, vals[0]))
        except Exception as ex:
            msg = "raised %s: %s" % (type(ex).__name__, ex)
        if msg:
            return "second uninterrupted run: " + msg
        return explore(run, d1, 1, [])


# ---- user entries ---------------------------------------------------------------------------------

TYPES = {"int": int, "float": float, "str": str, "Fraction": Fraction}


def decode(tname, v):
    if tname == "Fraction":
        return Fraction(v)
    if tname == "float":
        return float(v)  # "inf" travels as a string in JSON
    return v


def check_user(case):
    """C15.user.types. case: {"entries": [{"name", "typ", "fmt", "vals": [one per epoch]}...], "restart": k,
    "states": bool}. After every epoch the live controller returns the value given, with the declared type;
    a controller rebuilt after epoch k (entries declared again) returns typ(fmt.format(v)) -- the documented
    round trip -- with exactly the declared type, for every epoch; without the declarations the built-in
    columns still load; the run continued after the rebuild ends with the CSV text of the uninterrupted one."""
    import torch
    from pydrobert.torch.training import TrainingStateController, TrainingStateParams

    ents = case["entries"]
    n = len(ents[0]["vals"])
    k = case.get("restart", n)
    vals = [1.0, 0.5, 1.5, 0.25, 2.0, 0.125][:n]

    def build(root, declare=True):
        p = TrainingStateParams(num_epochs=n + 2)
        c = TrainingStateController(p, os.path.join(root, "hist.csv"), os.path.join(root, "states") if case.get("states") else None, warn=False)
        if declare:
            for en in ents:
                c.add_entry(en["name"], TYPES[en["typ"]], en.get("fmt", "{}"))
        m = torch.nn.Linear(1, 1, bias=False)
        o = torch.optim.SGD(m.parameters(), lr=1.0)
        c.load_model_and_optimizer_for_epoch(m, o)
        return c, m, o

    def kw(e):
        return {en["name"]: decode(en["typ"], en["vals"][e - 1]) for en in ents}

    def look(c, e, stored, where):
        info = c.get_info(e, None)
        if info is None:
            return "%s: no row for epoch %d" % (where, e)
        for en in ents:
            typ, given = TYPES[en["typ"]], decode(en["typ"], en["vals"][e - 1])
            if en["name"] not in info:
                return "%s: epoch %d has no entry %s" % (where, e, en["name"])
            got = info[en["name"]]
            exp = typ(en.get("fmt", "{}").format(given)) if stored else given
            if type(got) is not typ:
                return "%s: epoch %d entry %s has type %s, declared %s" % (where, e, en["name"], type(got).__name__, typ.__name__)
            if got != exp and not (got != got and exp != exp):
                return "%s: epoch %d entry %s = %r, expected %r" % (where, e, en["name"], got, exp)
        if info["val_met"] != vals[e - 1] or info["epoch"] != e:
            return "%s: epoch %d built-in columns disturbed: %r" % (where, e, info)
        return None

    with warnings.catch_warnings(), tempfile.TemporaryDirectory(prefix="c15u_", dir=SHM) as root:
        warnings.simplefilter("ignore")
        ua, ub = os.path.join(root, "a"), os.path.join(root, "b")
        os.mkdir(ua), os.mkdir(ub)
        c, m, o = build(ua)
        for e in range(1, n + 1):
            c.update_for_epoch(m, o, 2.0, vals[e - 1], **kw(e))
            msg = look(c, e, False, "live")
            if msg:
                return msg
        with open(os.path.join(ua, "hist.csv")) as f:
            text = f.read()
        # interrupted twin
        c, m, o = build(ub)
        for e in range(1, k + 1):
            c.update_for_epoch(m, o, 2.0, vals[e - 1], **kw(e))
        del c
        c, m, o = build(ub)
        if c.get_last_epoch() != k:
            return "rebuilt after epoch %d: last epoch %r" % (k, c.get_last_epoch())
        for e in range(1, k + 1):
            msg = look(c, e, True, "rebuilt after epoch %d" % k)
            if msg:
                return msg
        for e in range(k + 1, n + 1):
            c.update_for_epoch(m, o, 2.0, vals[e - 1], **kw(e))
            msg = look(c, e, False, "continued after rebuild")
            if msg:
                return msg
        with open(os.path.join(ub, "hist.csv")) as f:
            if f.read() != text:
                return "CSV text of the run rebuilt after epoch %d differs from the uninterrupted one" % k
        # a reader that does not declare the entries still gets the built-in columns
        c2 = build(ub, declare=False)[0]
        for e in range(1, n + 1):
            info = c2.get_info(e, None)
            if info is None or info["val_met"] != vals[e - 1] or info["epoch"] != e or type(info["es_patience_cd"]) is not int:
                return "reader without declarations: row %d wrong: %r" % (e, info)
        # declared types are enforced on the way in, and a rejected update records nothing
        c3, m, o = build(ub)
        before, accepted = c3.get_last_epoch(), False
        wrong = dict(kw(n))
        en = ents[0]
        wrong[en["name"]] = [] if en["typ"] != "str" else 3
        for bad in (wrong, {}, dict(kw(n), not_declared_=1)):
            try:
                c3.update_for_epoch(m, o, 2.0, 9.0, **bad)
            except (TypeError, ValueError):
                if c3.get_last_epoch() != before:
                    return "rejected update changed the history"
                continue
            accepted, before = True, c3.get_last_epoch()
            got = c3.get_info(before)  # accepted: then what was stored must still have the declared types
            for x in ents:
                if type(got.get(x["name"])) is not TYPES[x["typ"]]:
                    return "update with entries %r was accepted and stored %s = %r, declared %s" % (sorted(bad), x["name"], got.get(x["name"]), x["typ"])
        if not accepted:
            with open(os.path.join(ub, "hist.csv")) as f:
                if f.read() != text:
                    return "rejected update wrote to the CSV"
    return None


# ----------------------------------------------------------------------------------------------
# case generators

GRID4 = [1.0, 1.5, 2.0, 3.0]  # differences 0, .5, 1, 1.5, 2 against thresholds .5 and 1 (below / equal / above)
GRID3 = [1.0, 1.5, 2.5]
GRID5 = [1.0001, 1.5001, 2.5001]  # uses all 5 printed digits (still "exactly representable in the printed precision")


def es_settings(pmax=3, bmax=2, ts=(0.0, 0.5, 1.0)):
    for p, b, t in itertools.product(range(1, pmax + 1), range(bmax + 1), ts):
        yield dict(esP=p, esB=b, esT=t)


def rlr_settings(pmax=3, bmax=2, cmax=2, ts=(0.0, 0.5, 1.0)):
    for p, b, c, t in itertools.product(range(1, pmax + 1), range(bmax + 1), range(cmax + 1), ts):
        yield dict(rP=p, rB=b, rC=c, rT=t)


def _merge(*ds):
    out = {}
    for d in ds:
        out.update(d)
    return out


# special settings that are not patience/burn-in/cool-down/threshold: budget, factor, epsilon, initial rate, groups
EXTRA = [
    dict(N=1), dict(N=2), dict(N=3), dict(N=4), dict(N=10),
    dict(f=0.25), dict(f=0.1), dict(f=0.75, lr0=2.0),
    dict(eps=0, lr0=4.0), dict(eps=0, lr0=8.0, f=0.25), dict(eps=-1, lr0=0.5), dict(eps=-2, f=0.1, lr0=0.125),
    dict(log10lr=-1, lr0=7.0), dict(log10lr=0, lr0=0.25), dict(log10lr=-3, lr0=1.0, f=0.1),
    dict(groups=2), dict(groups=2, opt="adam", lr0=0.5), dict(opt="adam"), dict(keep=False),
]
# learning rates the CSV's 5 significant digits do not reproduce (10**-2.5 is an ordinary tuned value)
OFFGRID_LR = [dict(log10lr=-2.5), dict(lr0=0.123456)]
EXTRA_RESTART = [dict(N=3), dict(N=10), dict(f=0.1), dict(eps=0, lr0=4.0), dict(log10lr=-1, lr0=7.0), dict(log10lr=-3, lr0=1.0, f=0.1),
                 dict(groups=2, opt="adam", lr0=0.5), dict(keep=False), dict(lr0=1.2344)] + OFFGRID_LR  # 1.2344 * .5^k keeps 5 digits for k <= 5
BUSY = [dict(esP=3, esB=1, esT=0.5, rP=1, rB=0, rC=0, rT=1.0), dict(esP=2, esB=0, esT=1.0, rP=1, rB=1, rC=1, rT=0.5),
        dict(esT=0.0, rP=2, rB=0, rC=0, rT=1.0), dict(esT=0.0, rP=1, rB=0, rC=2, rT=0.5)]


def history_configs(ctx):
    if ctx.quick:
        # the two criteria do not interact except through the stop; each one's settings in full
        # against a few settings of the other
        es_side = [dict(rT=0.0), dict(rP=2, rB=1, rC=1, rT=0.5)]
        rl_side = [dict(esT=0.0), dict(esP=3, esB=2, esT=1.0)]
        for a in es_settings():
            for b in es_side:
                yield _merge(a, b)
        for a in rlr_settings():
            for b in rl_side:
                yield _merge(a, b)
    else:
        for a in es_settings():
            for b in rlr_settings():
                yield _merge(a, b)
    for x in EXTRA:
        for b in BUSY:
            yield _merge(b, x)


def cases_history(ctx):
    for cfg in history_configs(ctx):
        special = any(k in cfg for k in ("N", "f", "eps", "lr0", "log10lr", "groups", "opt", "keep"))
        for grid, L in ((GRID3, 5),) if special and ctx.quick else ((GRID3, 5), (GRID4, 4)) if ctx.quick else ((GRID4, 5),):
            for vals in itertools.product(grid, repeat=L):
                yield {"cfg": cfg, "val": list(vals)}
    # signs and zero: the rule is about differences only
    for cfg in BUSY:
        for vals in itertools.product([-1.0, -0.5, 0.0, 0.5], repeat=4 if ctx.quick else 5):
            yield {"cfg": cfg, "val": list(vals)}
    if not ctx.quick:
        for cfg in history_configs(_Quick()):
            for vals in itertools.product(GRID3, repeat=6):
                yield {"cfg": cfg, "val": list(vals)}
        rng = random.Random(ctx.seed)
        for _ in range(60000):
            yield {"cfg": random_cfg(rng), "val": random_vals(rng, rng.randint(1, 14))}


class _Quick:
    quick = True


def random_cfg(rng, pmax=6, files=False):
    ts = [0.0, 0.25, 0.5, 1.0, 1.5]
    cfg = dict(esP=rng.randint(1, pmax), esB=rng.randint(0, 4), esT=rng.choice(ts), rP=rng.randint(1, pmax), rB=rng.randint(0, 4),
               rC=rng.randint(0, 4), rT=rng.choice(ts), f=rng.choice([0.5, 0.25, 0.125, 0.75, 0.1]), N=rng.choice([None, None, 3, 6, 12, 100]),
               eps=rng.choice([-8, -8, -2, 0]), lr0=rng.choice([1.0, 0.5, 2.0, 8.0]), groups=rng.choice([1, 2]),
               opt=rng.choice(["sgd", "adam"]), log10lr=rng.choice([None, None, -1, -2, 0]))
    if files:
        cfg["keep"] = rng.choice([True, False])
    return cfg


def random_vals(rng, n):
    grid = [x * 0.25 for x in range(-4, 17)]
    v = rng.choice(grid)
    out = []
    for _ in range(n):  # a noisy descent with plateaus, which is what makes patience counts run
        v = rng.choice(grid) if rng.random() < 0.3 else max(-1.0, min(4.0, v + rng.choice([-0.5, -0.25, 0.0, 0.0, 0.25, 0.5])))
        out.append(v)
    return out


def restart_configs(ctx):
    pm, bm = (2, 1) if ctx.quick else (3, 2)
    for a in rlr_settings(pm, bm, 2, (0.5, 1.0)):
        yield _merge(dict(esT=0.0), a)
    for a in es_settings(pm, bm, (0.5, 1.0)):
        yield _merge(a, dict(rP=1, rB=0, rC=0, rT=0.5))
    for x in (EXTRA_RESTART if ctx.quick else EXTRA + OFFGRID_LR):
        yield _merge(BUSY[0], x)
        yield _merge(BUSY[3], x)


def cases_restart(ctx):
    L = 4 if ctx.quick else 5
    for cfg in restart_configs(ctx):
        for vals in itertools.product(GRID3, repeat=L):
            yield {"cfg": cfg, "val": list(vals), "subset": None}
    for cfg in BUSY:
        for vals in itertools.product(GRID5, repeat=L):
            yield {"cfg": cfg, "val": list(vals), "subset": None}
    if not ctx.quick:
        rng = random.Random(ctx.seed + 1)
        for _ in range(6000):
            n = rng.randint(2, 9)
            cfg = random_cfg(rng, pmax=4, files=True)
            yield {"cfg": cfg, "val": random_vals(rng, n), "subset": sorted(rng.sample(range(1, n + 1), rng.randint(1, n)))}


INT_POOL = [0, 1, -1, 7, -35, 10 ** 12]
FLOAT_POOL = [0.0, 1.5, -2.25, 0.1, 1e-10, 1e300, "inf", 3.0]
STR_POOL = ["", "a", "a,b", 'q"t', " lead", "trail ", "two\nlines", "1", "None", "x;y\tz", "'", "eé"]
FRAC_POOL = ["3/4", "-1/3", "5", "0"]
POOLS = {"int": (INT_POOL, ["{}", "{:03d}", "{:+d}"]), "float": (FLOAT_POOL, ["{}", "{!r}", "{:.4e}", "{:.2f}"]),
         "str": (STR_POOL, ["{}", "<{}>", "{:>4}"]), "Fraction": (FRAC_POOL, ["{}"])}


def cases_user(ctx):
    # one entry: every type x format x every pair of values, rebuilt after epoch 1 and 2
    for t, (pool, fmts) in POOLS.items():
        for fmt in fmts:
            for a, b in itertools.product(pool, repeat=2):
                for k in (1, 2):
                    yield {"entries": [{"name": "u", "typ": t, "fmt": fmt, "vals": [a, b]}], "restart": k, "states": False}
    # two entries of every pair of types (column order, quoting next to numbers), three epochs
    for t1, t2 in itertools.product(POOLS, repeat=2):
        p1, p2 = POOLS[t1][0], POOLS[t2][0]
        for i in range(max(len(p1), len(p2))):
            v1 = [p1[(i + j) % len(p1)] for j in range(3)]
            v2 = [p2[(2 * i + j + 1) % len(p2)] for j in range(3)]
            for k in (1, 2, 3):
                yield {"entries": [{"name": "first", "typ": t1, "fmt": "{}", "vals": v1}, {"name": "second_one", "typ": t2, "fmt": "{}", "vals": v2}],
                       "restart": k, "states": i % 2 == 0}
    if not ctx.quick:
        rng = random.Random(ctx.seed + 2)
        alphabet = "ab ,\"'\n\t;#=0-" + "é"
        for _ in range(4000):
            n = rng.randint(1, 5)
            ents = []
            for j in range(rng.randint(1, 3)):
                t = rng.choice(list(POOLS))
                if t == "int":
                    vs = [rng.randint(-10 ** 6, 10 ** 6) for _ in range(n)]
                elif t == "float":
                    vs = [rng.choice([rng.uniform(-5, 5), rng.random() * 10 ** rng.randint(-30, 30), float(rng.randint(-3, 3))]) for _ in range(n)]
                elif t == "str":
                    vs = ["".join(rng.choice(alphabet) for _ in range(rng.randint(0, 6))) for _ in range(n)]
                else:
                    vs = ["%d/%d" % (rng.randint(-9, 9), rng.randint(1, 9)) for _ in range(n)]
                ents.append({"name": "e%d" % j, "typ": t, "fmt": rng.choice(POOLS[t][1]), "vals": vs})
            yield {"entries": ents, "restart": rng.randint(1, n), "states": rng.random() < 0.3}


# ----------------------------------------------------------------------------------------------

CHECKERS = {"C15.hist.rules": check_history, "C15.restart.equiv": check_restart, "C15.user.types": check_user}
FINDINGS = [{
    "id": "KF-C15-1", "property": "C15", "clause": "C15.restart.equiv",
    "what": "a controller rebuilt from the CSV computes the next reduced learning rate from the rate as printed (5 significant digits), "
            "so optimizer lr and CSV lr column differ from the uninterrupted run",
    "class": "the learning rate in force when the controller is rebuilt is not reproduced by the CSV's '%.4e' print, a reduction fires afterwards, "
             "and the two products differ in their 5-digit print (first epoch where that happens)",
    "witness": {"cfg": {"esT": 0.0, "rP": 1, "rB": 0, "rC": 0, "rT": 1.0, "log10lr": -2.5}, "val": [1.0, 1.0, 1.0], "subset": [2]},
}]


def _kf1(case, msg):
    import re

    m = re.match(r"restarts after epochs \[([0-9, ]*)\]: epoch (\d+): (lr in the optimizer|recorded row: lr|CSV text differs .* columns \['lr'\])", msg)
    if not m:
        return False
    path = [int(x) for x in m.group(1).split(",") if x.strip()]
    cfg = full(case["cfg"])
    a, b = spec_history(cfg, case["val"]), spec_history(cfg, case["val"], reload_after=path)
    first = next((r["epoch"] for r, q in zip(a, b) if p5(r["lr"]) != p5(q["lr"])), None)
    return first == int(m.group(2))


KNOWN_MATCH = {"KF-C15-1": _kf1}


def _count(gen):
    return sum(1 for _ in gen)


def run_bounded(ctx):
    import torch  # noqa: F401  (imported before the pool forks)
    import pydrobert.torch.training  # noqa: F401

    ctx.known_match.update(KNOWN_MATCH)
    fn = ["training.TrainingStateController.update_for_epoch", "training.TrainingStateController.continue_training",
          "training.TrainingStateController.get_best_epoch", "training.TrainingStateController.get_info"]
    ctx.bounded(
        "C15.hist.rules", check_history, cases_history(ctx),
        bound=("every metric sequence of %s (all prefixes judged epoch by epoch), thresholds {0,.5,1}, patience 1..3, "
               "burn-in 0..2, cool-down 0..2: %s; plus %d other settings (num_epochs 1..4,10; factor .1,.25,.75; epsilon 0,-1,-2 with rates at the "
               "negligibility boundary; log10_learning_rate; two param groups; Adam) x 4 busy settings; a grid with negative and zero metrics%s")
        % ("length 5 over {1,1.5,2.5} and of length 4 over {1,1.5,2,3}" if ctx.quick else "length 5 over {1,1.5,2,3}",
           "each criterion's 27/81 settings in full against 2 settings of the other" if ctx.quick else "full product of both criteria's settings (2187)",
           len(EXTRA), "" if ctx.quick else "; length 6 over {1,1.5,2.5} on the quick tier's settings; 60000 seeded random histories of length <= 14, patience <= 6, burn-in/cool-down <= 4"),
        text="whole histories on the real controller (no files): stop decision, continue_training, lr in every param group, recorded count-downs, "
             "lr and metrics, last and best epoch after every epoch == explicit (wait, ref, stale) state machine written from the property text",
        nontrivial=lambda c: (c["cfg"].get("esT", 0) > 0 or c["cfg"].get("rT", 0) > 0) and len(c["val"]) >= 2,
        chunk=256, functions=fn)
    ctx.bounded(
        "C15.restart.equiv", check_restart, cases_restart(ctx),
        bound=("every metric sequence of length %d over {1,1.5,2.5}, EVERY subset of epochs after which the controller is discarded and rebuilt "
               "(2^%d per sequence, explored as a tree inside one case), patience 1..%d, burn-in 0..%d, cool-down 0..2, thresholds {.5,1} per criterion, "
               "plus %d other settings (budget, factor .1, epsilon boundary, log10_learning_rate, Adam with two groups, keep-all, a 5-digit rate, two rates off the printed grid) x 2, "
               "plus 4 settings on the 5-digit grid {1.0001,1.5001,2.5001}%s")
        % ((4, 4, 2, 1, len(EXTRA_RESTART), "") if ctx.quick else (5, 5, 3, 2, len(EXTRA + OFFGRID_LR), "; 6000 seeded random (setting, history of length <= 9, subset) triples")),
        text="rebuild params/controller/model/optimizer from the same CSV and state directory after any subset of epochs: last/best epoch, "
             "continue_training, all recorded rows, the lr in the optimizer's param groups right after load_model_and_optimizer_for_epoch (bit-identical), "
             "the loaded parameters' epoch tag, then every later decision, lr, row and the CSV text == uninterrupted run (itself == state machine)",
        nontrivial=lambda c: len(c["val"]) >= 2,
        chunk=8, functions=fn + ["training.TrainingStateController.update_cache", "training.TrainingStateController.save_info_to_hist",
                                 "training.TrainingStateController.load_model_and_optimizer_for_epoch"])
    ctx.bounded(
        "C15.user.types", check_user, cases_user(ctx),
        bound="one entry: types int/float/str/Fraction x 1-4 formats x all ordered pairs from pools of 4-12 values (commas, quotes, newline, empty, "
              "inf, 1e300, 10^12) x rebuild after epoch 1|2; two entries: all 16 type pairs x rotating values x rebuild after 1|2|3%s"
              % ("" if ctx.quick else "; 4000 seeded random (1-3 entries, 1-5 epochs)"),
        text="get_info(e)[name] has exactly the declared type: the given value on the live controller, typ(fmt.format(value)) on a rebuilt one; "
             "wrong-typed / missing / undeclared entries are either rejected (recording nothing) or stored with the declared types; a reader without declarations still loads the built-in columns",
        chunk=32, functions=["training.TrainingStateController.add_entry", "training.TrainingStateController.update_cache",
                             "training.TrainingStateController.save_info_to_hist", "training.TrainingStateController.update_for_epoch"])
    ctx.replay_known_witnesses()
    ctx.assume(
        "metrics lie on a grid of binary fractions that the CSV's 5-significant-digit exponent format reproduces exactly (the property's own grid assumption)",
        "the oracle's comparisons (ref - val >= threshold, old - new > 10**eps, lr*factor) are IEEE double operations, as the library's are",
        "learning rates are compared bit for bit when every rate of the run survives the CSV's printed precision, otherwise to that precision (5 significant digits)",
        "a restart is: new TrainingStateParams with the same values, new controller on the same paths, new model, new optimizer built with the original "
        "constructor arguments, load_model_and_optimizer_for_epoch(model, optimizer) -- the sequence of the class documentation's example",
        "user entry values have exactly the declared type (a bool handed to an int entry is outside the domain), fmt/typ satisfy the documented round trip without raising, "
        "strings contain no carriage return (the CSV is read with universal newlines, which turns \\r into \\n: a value change, not a type change)",
        "the run ends at the first stop decision (continuing after a stop is outside 'stops exactly when')")
    ctx.not_applicable.append("C15: metric reduction across distributed workers (all_reduce) and barriers are not executed; single process only")
    ctx.not_applicable.append("C15: metrics off the printed-precision grid (restart then legitimately sees rounded references) are outside the property's quantifier")
