"""C18 - normalisation statistics, deltas and returns equal their defining formulas.

Minimal wrapper: the bounded run-time contracts live in contracts/C18_rt.py (the deductive part, when
it exists, is added here).
"""
from contracts import C18_rt

CHECKERS = dict(C18_rt.CHECKERS)


def run(ctx):
    C18_rt.run_bounded(ctx)
