"""C18 - normalisation statistics, deltas and returns equal their defining formulas."""
from contracts import C18_rt, C18_vc
from vf.pyvc import api

CHECKERS = dict(C18_rt.CHECKERS)


def run(ctx):
    from contracts import wrap_vc

    api.run_vcs(ctx, wrap_vc.wrapper_vcs("C18.P.module_forwards_parameters", ['FeatureDeltas', 'TimeDistributedReturn']), {"C18.P.module_forwards_parameters": wrap_vc.TEXT % "FeatureDeltas, TimeDistributedReturn"})
    from vf.pyvc import crosscheck_sym

    crosscheck_sym.guard(ctx)  # the symbolic-shape tensor layer against real torch, before the clauses that rest on it
    api.run_vcs(ctx, C18_vc.mvn_p_vcs(ctx), {"C18.P.mvn_state_is_additive": "real MeanVarianceNormalization.accumulate source for SYMBOLIC numbers of frames and coefficients: count, sum and sum of squares grow by exactly the frames' count, sum and sum of squares, from zero on the first call - so statistics over any partition, in any order, are the pooled sums",
                                             "C18.P.mvn_store_formula": "real MeanVarianceNormalization.store source for symbolic statistics: raises iff too few frames; mean = sum / count, std = sqrt(max(sumsq / count - mean^2 [Bessel: * count / (count - 1)], 0)); statistics dropped iff asked"})
    api.run_vcs(ctx, C18_vc.p_vcs(ctx), {"C18.P.return_recurrence": "real time_distributed_return source for SYMBOLIC horizon and batch size: R[i] = r[i] + gamma R[i+1] for i < T-1 and R[T-1] = r[T-1] (matrix product = partial sums, pow recurrence; two inductions over the summation index), both layouts, gamma = 0 short-cut"})
    api.run_vcs(ctx, C18_vc.vcs(ctx), {"C18.S.return_recurrence": "real time_distributed_return source: R_t = r_t + gamma R_(t+1), R beyond the horizon 0, gamma = 0 short-cut; all rewards and discount factors (real arithmetic)"},
                bounded="horizons T<=4 (6), batch 1-2, both layouts; ALL rewards and discount factors")
    C18_rt.run_bounded(ctx)
