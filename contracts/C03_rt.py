"""C03 - optimal-completion targets: bounded run-time contracts (engine B) on the real functions

    pydrobert.torch._string._string_matching(return_mask=True)           C03.mask.row_minima
    pydrobert.torch.functional.optimal_completion                         C03.oc.set_semantics
    pydrobert.torch.functional.hard_optimal_completion_distillation_loss  C03.loss.formula

Oracles (written from the property text, nothing shared with the implementation):

* edit distance d(ref, x): the textbook weighted Levenshtein recurrence over exact integers (the
  dyadic costs are scaled to integers, so there is no rounding on the oracle's side);
* "the smallest edit distance any completion of the prefix can still reach":
  best(p) = min over ALL strings s with |s| <= R+1 over the alphabet (distinct reference tokens
  + one token that is not in the reference) of d(ref, p+s) -- brute force, memoised on the
  Levenshtein row of p+s (d(ref, p+s+..) depends on p+s only through that row, so the memo merges
  identical sub-searches and prunes nothing);
* a token t "can be appended without raising it" iff min_{|s|<=R} d(ref, p+[t]+s) == best(p);
* loss: -log_softmax computed with math.fsum/log/exp in float64 from the logits' values.

A case is one library call on a batch: {"ref": N rows of length R, "hyp": N rows of length H,
"eos", "include_eos", "batch_first", "exclude_last", "costs": [ins, del, sub], "padding", ...}.
Batch elements that fall in the property's one excluded combination (no counted hypothesis token
together with exclude_last) stay in the batch (they must not disturb their neighbours) but their
own rows are not judged.
"""
import itertools
import json
import math
import random
import warnings
from fractions import Fraction
from functools import lru_cache

FRESH = -7  # stands for "any token that does not occur in the reference"

# ----------------------------------------------------------------------------------------------
# spec side


def _int_costs(costs):
    fr = [Fraction(c) for c in costs]  # exact for floats
    den = 1
    for f in fr:
        den = den * f.denominator // math.gcd(den, f.denominator)
    return tuple(int(f * den) for f in fr)


def counted(seq, eos, include_eos):
    """the counted tokens of a sequence: up to the first eos (kept iff include_eos), else all"""
    if eos is not None and eos in seq:
        k = seq.index(eos)
        return list(seq[: k + (1 if include_eos else 0)])
    return list(seq)


def _row0(ref, costs):
    return tuple(i * costs[1] for i in range(len(ref) + 1))


def _step(ref, costs, row, tok):
    """row[i] = d(ref[:i], x)  ->  d(ref[:i], x+[tok])"""
    ic, dc, sc = costs
    new = [row[0] + ic]
    for i in range(1, len(ref) + 1):
        new.append(min(row[i] + ic, row[i - 1] + (0 if ref[i - 1] == tok else sc), new[i - 1] + dc))
    return tuple(new)


@lru_cache(maxsize=100000)
def _best(ref, costs, row, depth):
    """min over all strings s, |s| <= depth, over alphabet(ref)+FRESH, of d(ref, x+s) where row is x's row"""
    m = row[-1]
    if depth > 0:
        for t in sorted(set(ref)) + [FRESH]:
            v = _best(ref, costs, _step(ref, costs, row, t), depth - 1)
            if v < m:
                m = v
    return m


def oc_sets(ref, hyp, costs):
    """[OC(j) for j = 0..len(hyp)]: tokens t with min_{|s|<=R} d(ref, hyp[:j]+[t]+s) == min_{|s|<=R+1} d(ref, hyp[:j]+s)"""
    ref = tuple(ref)
    R = len(ref)
    out = []
    row = _row0(ref, costs)
    for j in range(len(hyp) + 1):
        if j:
            row = _step(ref, costs, row, hyp[j - 1])
        b0 = _best(ref, costs, row, R + 1)
        out.append({t for t in sorted(set(ref)) + [FRESH] if _best(ref, costs, _step(ref, costs, row, t), R) == b0})
    return out


def dist_table(ref, hyp, costs):
    """D[j][r] = d(ref[:r], hyp[:j])"""
    rows = [_row0(tuple(ref), costs)]
    for t in hyp:
        rows.append(_step(tuple(ref), costs, rows[-1], t))
    return rows


# ----------------------------------------------------------------------------------------------
# implementation side helpers


def _tensors(case):
    import torch

    N = len(case["ref"])
    R = len(case["ref"][0]) if N else 0
    H = len(case["hyp"][0]) if N else 0
    ref = torch.tensor(case["ref"], dtype=torch.long).view(N, R)
    hyp = torch.tensor(case["hyp"], dtype=torch.long).view(N, H)
    if not case["batch_first"]:
        ref, hyp = ref.t().contiguous(), hyp.t().contiguous()
    return ref, hyp, N, R, H


def _excluded(hl, exclude_last):
    return exclude_last and hl == 0


def check_mask(case):
    """mask[j, r, n] <=> r < ref_len[n] and j <= hyp_len[n] (- 1 with exclude_last) and
    D_n(r, j) = min_{r' <= ref_len[n]} D_n(r', j)"""
    import pydrobert.torch._string as S

    ref, hyp, N, R, H = _tensors(case)
    costs = _int_costs(case["costs"])
    excl = case["exclude_last"]
    with warnings.catch_warnings():
        warnings.simplefilter("ignore")
        mask = S._string_matching(ref, hyp, case["eos"], case["include_eos"], case["batch_first"], *[float(c) for c in case["costs"]],
                                  False, return_mask=True, exclude_last=excl)
    J = H + (0 if excl else 1)
    if tuple(mask.shape) != (J, R, N):
        if not (excl and H == 0):
            return "mask has shape %s, expected %s" % (tuple(mask.shape), (J, R, N))
        return None
    got = mask.tolist()
    for n in range(N):
        r_ = counted(case["ref"][n], case["eos"], case["include_eos"])
        h_ = counted(case["hyp"][n], case["eos"], case["include_eos"])
        if _excluded(len(h_), excl):
            continue
        D = dist_table(r_, h_, costs)
        for j in range(J):
            if j > len(h_) - (1 if excl else 0):
                want = [False] * R
            else:
                m = min(D[j])
                want = [r < len(r_) and D[j][r] == m for r in range(R)]
            g = [bool(got[j][r][n]) for r in range(R)]
            if g != want:
                return "n=%d ref=%s hyp=%s prefix %d: mask over ref positions %s, row minima (restricted to the reference) are at %s" % (n, r_, h_, j, g, want)
    return None


def _oc_call(case, ref, hyp):
    import torch

    fc = [float(c) for c in case["costs"]]
    with warnings.catch_warnings():
        warnings.simplefilter("ignore")
        if case.get("module"):
            from pydrobert.torch.modules import OptimalCompletion

            return OptimalCompletion(case["eos"], case["include_eos"], case["batch_first"], fc[0], fc[1], fc[2], case["padding"], case["exclude_last"], False)(ref, hyp)
        from pydrobert.torch.functional import optimal_completion

        return optimal_completion(ref, hyp, case["eos"], case["include_eos"], case["batch_first"], fc[0], fc[1], fc[2], case["padding"], case["exclude_last"], False)


def check_oc(case):
    """each prefix's row = the distance-preserving next tokens, once each, then only padding; prefixes past the end only padding"""
    ref, hyp, N, R, H = _tensors(case)
    costs = _int_costs(case["costs"])
    excl, pad = case["exclude_last"], case["padding"]
    if excl and H == 0:
        return None  # excluded combination for the whole batch
    out = _oc_call(case, ref, hyp)
    J = H + (0 if excl else 1)
    if out.dim() != 3:
        return "result has %d dimensions" % out.dim()
    if case["batch_first"]:
        out = out.transpose(0, 1)
    if tuple(out.shape[:2]) != (J, N):
        return "result has (prefixes, batch) = %s, expected %s" % (tuple(out.shape[:2]), (J, N))
    if str(out.dtype) != "torch.int64":
        return "result dtype %s" % out.dtype
    got = out.tolist()
    for n in range(N):
        r_ = counted(case["ref"][n], case["eos"], case["include_eos"])
        h_ = counted(case["hyp"][n], case["eos"], case["include_eos"])
        if _excluded(len(h_), excl):
            continue
        sets = oc_sets(r_, h_, costs)
        for j in range(J):
            row = got[j][n]
            toks = [t for t in row if t != pad]
            if row[: len(toks)] != toks:
                return "n=%d ref=%s hyp=%s prefix %d: padding before a token in %s" % (n, r_, h_, j, row)
            if len(set(toks)) != len(toks):
                return "n=%d ref=%s hyp=%s prefix %d: a token is listed twice in %s" % (n, r_, h_, j, row)
            want = sets[j] if j <= len(h_) - (1 if excl else 0) else set()
            if set(toks) != want:
                w = ["<any token not in ref>" if t == FRESH else t for t in sorted(want)]
                return "n=%d ref=%s hyp=%s costs=%s prefix %d (%s): lists %s, distance-preserving next tokens are %s" % (
                    n, r_, h_, case["costs"], j, "within" if j <= len(h_) else "past the end", sorted(toks), w)
    return None


def _logits(case, H, N):
    import torch

    g = torch.Generator().manual_seed(int(case["lseed"]))
    dt = torch.float64 if case.get("dtype", "float64") == "float64" else torch.float32
    x = (torch.randn((N, H, case["V"]), generator=g, dtype=torch.float64) * 3.0).to(dt)
    return x if case["batch_first"] else x.transpose(0, 1).contiguous()


def check_loss(case):
    """loss[j, n] = mean over the oracle's target set of -log softmax(logits[j, n])[t], 0 where the set is empty; reductions"""
    import torch

    ref, hyp, N, R, H = _tensors(case)
    costs = _int_costs(case["costs"])
    V, red, ign = case["V"], case["reduction"], case["ignore_index"]
    logits = _logits(case, H, N)
    fc = [float(c) for c in case["costs"]]
    with warnings.catch_warnings():
        warnings.simplefilter("ignore")
        if case.get("module"):
            from pydrobert.torch.modules import HardOptimalCompletionDistillationLoss

            out = HardOptimalCompletionDistillationLoss(case["eos"], case["include_eos"], case["batch_first"], fc[0], fc[1], fc[2], None, red, ign)(logits, ref, hyp, False)
        else:
            from pydrobert.torch.functional import hard_optimal_completion_distillation_loss

            out = hard_optimal_completion_distillation_loss(logits, ref, hyp, case["eos"], case["include_eos"], case["batch_first"], fc[0], fc[1], fc[2], None, red, ign, False)
    lg = (logits if case["batch_first"] else logits.transpose(0, 1)).to(torch.float64).tolist()  # [n][j][v]
    want = [[0.0] * N for _ in range(H)]
    have = [[False] * N for _ in range(H)]
    for n in range(N):
        r_ = counted(case["ref"][n], case["eos"], case["include_eos"])
        h_ = counted(case["hyp"][n], case["eos"], case["include_eos"])
        if len(h_) == 0:
            return "bad case: empty hypothesis in a loss case (excluded combination)"
        sets = oc_sets(r_, h_, costs)
        for j in range(min(len(h_), H)):  # exclude_last: prefixes 0..len-1
            S_ = sets[j]
            if FRESH in S_ or any(not 0 <= t < V for t in S_):
                return "bad case: target outside the vocabulary"
            if S_:
                x = lg[n][j]
                mx = max(x)
                lse = mx + math.log(math.fsum(math.exp(v - mx) for v in x))
                want[j][n] = math.fsum(lse - x[t] for t in S_) / len(S_)
                have[j][n] = True
    tol = 1e-9 if case.get("dtype", "float64") == "float64" else 2e-5

    def close(a, b):
        return a == a and abs(a - b) <= tol * (1.0 + abs(b))

    if red == "none":
        o = out if not case["batch_first"] else out.transpose(0, 1)
        if tuple(o.shape) != (H, N):
            return "unreduced loss has shape %s, expected %s" % (tuple(out.shape), (N, H) if case["batch_first"] else (H, N))
        g = o.tolist()
        for j in range(H):
            for n in range(N):
                if not close(g[j][n], want[j][n]):
                    return "n=%d prefix %d: loss %.10g, expected %.10g (targets %s)" % (n, j, g[j][n], want[j][n], "present" if have[j][n] else "none -> 0")
        return None
    if out.dim() != 0:
        return "reduced loss is not a scalar: shape %s" % (tuple(out.shape),)
    if red == "sum":
        w = math.fsum(want[j][n] for j in range(H) for n in range(N))
    else:  # mean: per sequence over the prefixes that have targets, then over the batch
        w = math.fsum(math.fsum(want[j][n] for j in range(H)) / max(1, sum(have[j][n] for j in range(H))) for n in range(N)) / N
    if not close(float(out), w):
        return "reduction %s: loss %.10g, expected %.10g" % (red, float(out), w)
    return None


# ----------------------------------------------------------------------------------------------
# case generators

EOS_MODES = [(None, False), (0, False), (0, True)]  # (eos, include_eos); eos = 0 is a member of the alphabet -> ragged batches with garbage after it
COSTS_QUICK = [(1.0, 1.0, 1.0), (1.0, 2.0, 3.0), (2.0, 1.0, 1.0), (1.0, 1.0, 2.5), (1.0, 0.0, 1.0)]
COSTS_MORE = [(0.5, 1.0, 1.0), (1.0, 3.0, 1.0), (2.0, 2.0, 1.0), (3.0, 3.0, 4.0), (2.0, 2.0, 2.0), (1.0, 0.25, 0.5)]
GRID = [0.25, 0.5, 1.0, 1.5, 2.0, 3.0, 4.0]
NRAND = 8000  # seeded random batches per clause in the thorough tier


def _batches(R, H, A, size):
    """all (ref, hyp) in A^R x A^H, dealt round-robin into batches of at most `size` pairs"""
    pairs = list(itertools.product(itertools.product(range(A), repeat=R), itertools.product(range(A), repeat=H)))
    nb = max(1, -(-len(pairs) // size))
    for b in range(nb):
        sel = pairs[b::nb]
        yield [list(p[0]) for p in sel], [list(p[1]) for p in sel]


def _has_counted(hyp_row, eos, inc):
    return len(counted(hyp_row, eos, inc)) > 0


def _exhaustive(L, A, costs_list, size, loss=False, alt_bf=False):
    """alt_bf: alternate batch_first from batch to batch instead of running every batch in both layouts"""
    k = b = 0
    for R in range(0, L + 1):
        for H in range(0, L + 1):
            for refs, hyps in _batches(R, H, A, size):
                b += 1
                for eos, inc in EOS_MODES:
                    for costs in costs_list:
                        for bf in ((b % 2 == 0,) if alt_bf else (False, True)):
                            base = {"ref": refs, "hyp": hyps, "eos": eos, "include_eos": inc, "batch_first": bf, "costs": list(costs)}
                            if loss:
                                keep = [i for i in range(len(hyps)) if _has_counted(hyps[i], eos, inc)]
                                if not keep:
                                    continue
                                c = dict(base, ref=[refs[i] for i in keep], hyp=[hyps[i] for i in keep])
                                for red in ("none", "sum", "mean"):
                                    k += 1
                                    yield dict(c, V=A + (k % 2), reduction=red, ignore_index=(-2, -100, A + 4)[k % 3], lseed=k, dtype="float64")  # (a padding marker above the vocabulary as well: seeded change C03_E)
                            else:
                                for excl in (False, True):
                                    if excl and H == 0:
                                        continue  # the excluded combination
                                    k += 1
                                    yield dict(base, exclude_last=excl, padding=(-100, -1, A + 4)[k % 3])


def _random_case(rng, loss=False):
    A = rng.randint(2, 5)
    R, H, N = rng.randint(1, 6), rng.randint(1, 6), rng.randint(1, 6)
    eos = rng.choice([None, None, rng.randrange(A), A + 1])
    inc = rng.random() < 0.5
    rep = rng.random() < 0.5  # force heavy repetition in the references half of the time
    refs = [[rng.randrange(2 if rep else A) if rng.random() < 0.8 else rng.randrange(A) for _ in range(R)] for _ in range(N)]
    hyps = [[rng.randrange(A) for _ in range(H)] for _ in range(N)]
    costs = [rng.choice(GRID) for _ in range(3)] if rng.random() < 0.8 else [rng.choice(GRID)] * 3
    c = {"ref": refs, "hyp": hyps, "eos": eos, "include_eos": inc, "batch_first": rng.random() < 0.5, "costs": costs, "module": rng.random() < 0.3}
    if loss:
        if eos is not None and eos > A and inc:
            c["eos"] = eos = None  # with include_eos the eos must be a class index
        for h in hyps:
            if not _has_counted(h, eos, inc):
                h[0] = (eos + 1) % A
        c.update(V=A + rng.randint(0, 2), reduction=rng.choice(["none", "sum", "mean"]), ignore_index=rng.choice([-2, -100, -1, 1000]),
                 lseed=rng.randrange(10 ** 6), dtype=rng.choice(["float64", "float32"]))
    else:
        c.update(exclude_last=rng.random() < 0.5, padding=rng.choice([-100, -1, -3, A + 7]))
    return c


def cases_oc(ctx):
    yield from (dict(c) for c in REGRESSIONS["C03.oc.set_semantics"].values())
    if ctx.quick:
        yield from _exhaustive(4, 3, COSTS_QUICK, 81)
    else:
        yield from _exhaustive(4, 3, COSTS_QUICK + COSTS_MORE, 81)
        yield from _exhaustive(5, 3, COSTS_QUICK[1:2], 243, alt_bf=True)
        yield from _exhaustive(3, 4, COSTS_QUICK[1:3], 64)
        rng = random.Random(ctx.seed * 7919 + 1)
        for _ in range(NRAND):
            yield _random_case(rng)


INEXACT = [(1.1, 0.9, 0.9), (1.1, 0.7, 0.7), (0.9, 0.9, 1.1), (0.7, 1.1, 0.7)]
# not representable in binary floating point, but every tie between table entries within the bound is structural (the same multiset of
# operations, or sub == del / ins == sub used once each way): the smallest other relation, 9*1.1 = 11*0.9 resp. 7*1.1 = 11*0.7, needs more
# operations than R + H <= 10 allows on one path pair. So the expected sets do not depend on whether the costs are read as decimals,
# doubles or float32 values.


def cases_inexact(ctx):
    yield from (dict(c) for c in REGRESSIONS["C03.oc.inexact_costs"].values())
    yield from _exhaustive(4 if ctx.quick else 5, 2, INEXACT, 64)
    if not ctx.quick:  # longer references, where KF-C03-3 (lost float ties) lives: anything outside that class is still a violation
        rng = random.Random(ctx.seed * 104729 + 9)
        for _ in range(600):
            yield {"ref": [[rng.randrange(3) for _ in range(rng.randint(5, 7))]], "hyp": [[rng.randrange(3) for _ in range(rng.randint(3, 7))]], "eos": None, "include_eos": False,
                   "batch_first": False, "costs": list(rng.choice(INEXACT + [(1.0, 0.9, 0.9), (0.9, 0.9, 1.0)])), "exclude_last": False, "padding": -100}


def cases_mask(ctx):
    yield from (dict(c) for c in REGRESSIONS["C03.mask.row_minima"].values())
    if ctx.quick:
        yield from _exhaustive(4, 3, COSTS_QUICK, 81)
    else:
        yield from _exhaustive(4, 3, COSTS_QUICK + COSTS_MORE, 81)
        yield from _exhaustive(5, 3, COSTS_QUICK[1:2], 243, alt_bf=True)
        rng = random.Random(ctx.seed * 7919 + 2)
        for _ in range(NRAND):
            c = _random_case(rng)
            c.pop("module")
            yield c


def cases_loss(ctx):
    yield from (dict(c) for c in REGRESSIONS["C03.loss.formula"].values())
    if ctx.quick:
        yield from _exhaustive(3, 3, COSTS_QUICK[:2], 27, loss=True)
    else:
        yield from _exhaustive(4, 3, COSTS_QUICK[:2], 81, loss=True)
        rng = random.Random(ctx.seed * 7919 + 3)
        for _ in range(NRAND):
            yield _random_case(rng, loss=True)


# ----------------------------------------------------------------------------------------------

CHECKERS = {"C03.mask.row_minima": check_mask, "C03.oc.set_semantics": check_oc, "C03.loss.formula": check_loss, "C03.oc.inexact_costs": check_oc}

FINDINGS = []      # KF-C03-1 and KF-C03-2 were repaired in /repo (a01e688, a715bab); their witnesses are kept as named regression cases
def _kf_float_tie(case, msg):
    """KF-C03-3: a cost that is not a dyadic rational, a reference of five or more tokens, and the library lists a proper SUBSET of the
    oracle's tokens (a tie between differently ordered float32 sums is lost); extra or wrong tokens are never this finding"""
    import re

    try:
        costs = [float(c) for c in case["costs"]]
        if all((c * 1024) == int(c * 1024) for c in costs) or max(len(r) for r in case["ref"]) < 5:
            return False
        m = re.search(r"lists (\[[^\]]*\]), distance-preserving next tokens are (\[[^\]]*\])", msg or "")
        if not m:
            return False
        got, want = set(json.loads(m.group(1))), set(json.loads(m.group(2)))
        return got < want
    except Exception:
        return False


KNOWN_MATCH = {"KF-C03-3": _kf_float_tie}

_W1 = {"ref": [[]], "hyp": [[0]], "eos": None, "include_eos": False, "batch_first": False, "costs": [1.0, 1.0, 1.0], "exclude_last": False, "padding": -100}
_W2 = {"ref": [[0, 0, 0, 1]], "hyp": [[0, 0, 1]], "eos": None, "include_eos": False, "batch_first": False, "costs": [1.1, 0.9, 0.9], "exclude_last": False, "padding": -100}
REGRESSIONS = {  # clause -> {name: case}; run first in every tier
    "C03.oc.set_semantics": {
        # was: IndexError at row_mask[0] of a (0, N) mask; expected all-padding rows of width 0
        "KF-C03-1 reference tensor with zero steps": _W1,
        "KF-C03-1 zero steps, eos set, batch_first, exclude_last": dict(_W1, ref=[[], []], hyp=[[0, 1], [1, 1]], eos=0, batch_first=True, exclude_last=True),
    },
    "C03.mask.row_minima": {"KF-C03-1 reference tensor with zero steps": _W1},
    "C03.loss.formula": {
        "KF-C03-1 reference tensor with zero steps -> zero loss": {"ref": [[], []], "hyp": [[0, 1], [1, 1]], "eos": None, "include_eos": False, "batch_first": False,
                                                                   "costs": [1.0, 1.0, 1.0], "V": 3, "reduction": "mean", "ignore_index": -2, "lseed": 1, "dtype": "float64"},
    },
    "C03.oc.inexact_costs": {
        # was: no target listed at prefix 3 although token 1 keeps the distance 0.9 (i*del - k*del != (i-k)*del in float32)
        "KF-C03-2 del == sub == 0.9: tie between one deletion and one substitution": _W2,
        "KF-C03-2 ins == del == 0.9": dict(_W2, costs=[0.9, 0.9, 1.1]),
    },
}


def _repeats(case):
    return any(len(set(r)) < len(r) for r in case["ref"])


def _wanted(ctx, name):
    only = getattr(ctx, "only", None)
    return not only or any(name.startswith(o) for o in only)


def run_bounded(ctx):
    ctx.known_match.update(KNOWN_MATCH)
    q = ctx.quick
    ex = ("EXHAUSTIVE: every (ref, hyp) in {0,1,2}^R x {0,1,2}^H, R,H<=4 (R=4 forces a repeated reference token), in batches of <=81 pairs; "
          "eos in {none, 0 not counted, 0 counted} (0 is in the alphabet: ragged lengths, garbage after eos); "
          "batch_first x exclude_last (not with H=0); zero-size R and H dimensions included; costs (ins,del,sub) in %s" % (COSTS_QUICK if q else COSTS_QUICK + COSTS_MORE))
    more = "" if q else ("; + exhaustive R,H<=5 alphabet 3 (costs (1,2,3), layout alternating per batch) %s+ " + "%d seeded random batches " % NRAND +
                         "(alphabet<=5, R,H,N<=6, eos inside/outside the alphabet, costs from {.25,.5,1,1.5,2,3,4}^3, functional or module entry point)")
    if _wanted(ctx, "C03.mask.row_minima"):
        ctx.bounded("C03.mask.row_minima", check_mask, cases_mask(ctx), bound=ex + (more % "" if more else ""),
                    text="_string_matching(return_mask=True)[j,r,n] <=> r<ref_len and prefix j exists and D(r,j) = min_{r'<=ref_len} D(r',j), D from an exact integer Levenshtein table",
                    nontrivial=_repeats, budget_s=None if q else 400, chunk=8, functions=["_string._string_matching"])
    if _wanted(ctx, "C03.oc.set_semantics"):
        ctx.bounded("C03.oc.set_semantics", check_oc, cases_oc(ctx),
                    bound=ex + (more % "and R,H<=3 alphabet 4 " if more else "") + "; padding in {-100,-1,7}; oracle completions: all strings of length <= R+1 over ref's tokens + one foreign token",
                    text="optimal_completion rows = exactly the tokens t with min_s d(ref, prefix+t+s) = min_s d(ref, prefix+s) (brute force over completions), once each, then padding; prefixes past the end all padding",
                    nontrivial=_repeats, budget_s=None if q else 400, chunk=8, functions=["_string.optimal_completion", "_string._string_matching"])
    if _wanted(ctx, "C03.loss.formula"):
        ctx.bounded("C03.loss.formula", check_loss, cases_loss(ctx),
                    bound=("EXHAUSTIVE: every (ref, hyp) in {0,1,2}^R x {0,1,2}^H, R,H<=%d, every hypothesis with a counted token, batches of <=%d; 3 eos modes x batch_first x reduction {none,sum,mean}; "
                           "costs %s; V in {3,4}; ignore_index in {-2,-100, above the vocabulary}; one seeded float64 logit tensor (3*randn) per case" % ((3, 27, COSTS_QUICK[:2]) if q else (4, 81, COSTS_QUICK[:2])))
                    + ("" if q else "; + %d seeded random batches (as above, float32 and float64 logits, functional or module entry point)" % NRAND),
                    text="hard OCD loss = mean over the brute-force target set of -log_softmax(logits)[t] per prefix (0 where empty); sum; mean = per-sequence average over prefixes with targets, then batch mean",
                    nontrivial=_repeats, budget_s=None if q else 400, chunk=8, functions=["_string.hard_optimal_completion_distillation_loss", "_string.optimal_completion"])
    if _wanted(ctx, "C03.oc.inexact_costs"):
        L = 4 if q else 5
        ctx.bounded("C03.oc.inexact_costs", check_oc, cases_inexact(ctx),
                    bound="EXHAUSTIVE: every (ref, hyp) in {0,1}^R x {0,1}^H, R,H<=%d, batches of <=64; 3 eos modes x batch_first x exclude_last; costs in %s "
                          "(not binary-representable; all table ties within the bound are structural, so the oracle is the same for the decimal, double and float32 reading)" % (L, INEXACT),
                    text="as C03.oc.set_semantics, for cost triples that are not exactly representable; oracle in exact rational arithmetic on the given doubles",
                    nontrivial=_repeats, chunk=8, functions=["_string.optimal_completion", "_string._string_matching"])
    ctx.replay_known_witnesses()
    ctx.assume(
        "costs are positive dyadic rationals (multiples of 1/4), so every float32 sum in the library's table is exact and ties are the ties of exact arithmetic "
        "(except in C03.oc.inexact_costs, which uses four non-representable triples whose ties are reading-independent within its bound)",
        "edit distance is the weighted Levenshtein recurrence (C01); the oracle's completions are bounded by |s| <= R+1 over ref's tokens plus one foreign token "
        "(tokens outside the reference are interchangeable)",
        "counted tokens of a sequence: up to the first eos, eos itself counted iff include_eos and present (C01's convention)",
        "loss compared in float64 with tolerance 1e-9*(1+|x|) (float32 logits: 2e-5*(1+|x|)); weight=None (class weights and gradients are not in the property's wording); 'mean' read as documented in DESIGN.md (per-sequence mean over prefixes with targets, then batch mean)",
        "the order of the listed tokens is not constrained by the property and is not checked",
    )
    ctx.not_applicable.append("C03: cost triples whose ties depend on how an inexact cost is read (e.g. 0.1 + 0.2 against 0.3: a tie in decimals and in float32, "
                              "not in doubles) are outside the bounded space: the property does not say which reading is meant; worker/thread schedules play no role (pure tensor functions)")
