"""C01 - edit distance is the weighted Levenshtein distance, per pair and per prefix."""
from contracts import C01_rt, C01_vc
from vf.pyvc import api

CHECKERS = dict(C01_rt.CHECKERS)


def run(ctx):
    from contracts import wrap_vc

    api.run_vcs(ctx, wrap_vc.wrapper_vcs("C01.P.module_forwards_parameters", ['EditDistance', 'PrefixEditDistances']), {"C01.P.module_forwards_parameters": wrap_vc.TEXT % "EditDistance, PrefixEditDistances"})
    from vf.pyvc import crosscheck_sym

    crosscheck_sym.guard(ctx)  # the symbolic-shape tensor layer against real torch, before the clauses that rest on it
    api.run_vcs(ctx, C01_vc.lens_vcs(), {"C01.P.lens_first_eos": "_lens_from_eos for a symbolic sequence length: result = index of the first eos, or the full length (ghost induction: base, step, use)"})
    api.run_vcs(ctx, C01_vc.dp_vcs(ctx), {"C01.P.dp": "edit_distance / prefix_edit_distances -> _string_matching for SYMBOLIC shapes R, H, N: row[r, n] = D(n, r, min(k, hyp_len)) (and prefix_ers[j, n] = D(n, ref_len, j)) is an inductive invariant of the hypothesis loop (init and preservation by induction over r); result = D(n, ref_len, hyp_len) / every prefix row, padding beyond the hypothesis length, norm convention, equal-cost shortcut = c * unit-cost table; 12 flag configurations"})
    api.run_vcs(ctx, C01_vc.vcs(ctx), {"C01.S.levenshtein": "real edit_distance/prefix_edit_distances source == Wagner-Fischer spec at first-eos lengths, all contents/costs/eos, per shape"},
                bounded="shapes R,H in 0..%d (N=2 when R+H<=2 else 1), every flag combination; ALL token values, eos values, positive real cost triples, padding values" % (2 if ctx.quick else 3))
    C01_rt.run_bounded(ctx)
