"""Shared by several properties: `<Cxx>.P.module_forwards_parameters`.

Every `torch.nn.Module` wrapper of a functional (`EditDistance` for `edit_distance`, `PadVariable` for `pad_variable` ...) is
verified to be exactly that: its real `forward` source is executed with an opaque, pairwise distinct sentinel for every call
argument and for every configured attribute of the module; the functional is replaced by a contract that records the arguments it
receives, bound to the functional's REAL signature (re-read from the source on every run). Postcondition: the functional is called
exactly once; a call argument feeds the parameter of the same name (a differently named leading one: the parameter at its position); every other parameter receives the module attribute of
the same name (one documented alias: `_filters` <- `filters`), or keeps its default when the module has no such attribute; and
the functional's result is returned unchanged. A dropped, swapped or mis-ordered option is a refuted obligation.

No tensors are involved: the statement holds for every argument value and every configuration (unbounded). What `__init__` stores
under those attribute names is exercised by the bounded drivers (it validates its arguments, sentinels would not pass).
"""
import ast

from vf.pyvc import api, interp as ip
from vf.pyvc.api import VC


class Sentinel(ip.Opaque):
    pass


ALIAS = {"_filters": "filters"}
# module class -> (module file of the class, functional's module, functional name)
WRAPPERS = {
    "EditDistance": ("pydrobert.torch._string", "pydrobert.torch._string", "edit_distance"),
    "PrefixEditDistances": ("pydrobert.torch._string", "pydrobert.torch._string", "prefix_edit_distances"),
    "ErrorRate": ("pydrobert.torch._string", "pydrobert.torch._string", "error_rate"),
    "PrefixErrorRates": ("pydrobert.torch._string", "pydrobert.torch._string", "prefix_error_rates"),
    "OptimalCompletion": ("pydrobert.torch._string", "pydrobert.torch._string", "optimal_completion"),
    "HardOptimalCompletionDistillationLoss": ("pydrobert.torch._string", "pydrobert.torch._string", "hard_optimal_completion_distillation_loss"),
    "MinimumErrorRateLoss": ("pydrobert.torch._string", "pydrobert.torch._string", "minimum_error_rate_loss"),
    "CTCGreedySearch": ("pydrobert.torch._decoding", "pydrobert.torch._decoding", "ctc_greedy_search"),
    "PadVariable": ("pydrobert.torch._pad", "pydrobert.torch._pad", "pad_variable"),
    "PadMaskedSequence": ("pydrobert.torch._pad", "pydrobert.torch._pad", "pad_masked_sequence"),
    "ChunkBySlices": ("pydrobert.torch._pad", "pydrobert.torch._pad", "chunk_by_slices"),
    "SliceSpectData": ("pydrobert.torch._feats", "pydrobert.torch._feats", "slice_spect_data"),
    "ChunkTokenSequencesBySlices": ("pydrobert.torch._feats", "pydrobert.torch._feats", "chunk_token_sequences_by_slices"),
    "FeatureDeltas": ("pydrobert.torch._feats", "pydrobert.torch._feats", "feat_deltas"),
    "TimeDistributedReturn": ("pydrobert.torch._rl", "pydrobert.torch._rl", "time_distributed_return"),
}


class _Fields(dict):
    """every attribute the forward reads is a sentinel named after it (created on first access, recorded)"""

    def __missing__(self, key):
        self[key] = Sentinel("attr:" + key)
        return self[key]

    cls = None

    def __contains__(self, key):  # instance attributes only: whatever the class itself defines (methods, constants) is looked up there
        return isinstance(key, str) and not key.startswith("__") and not hasattr(self.cls, key)


# methods that hand the object's buffers / attributes to an internal function: class -> (class module, method, function module,
# function, {function parameter: ("arg", call parameter) | ("attr", attribute)}, how the result comes back)
METHODS = {
    "LookupLanguageModel": ("pydrobert.torch._lm", "calc_idx_log_probs", "pydrobert.torch._lm", "_lookup_calc_idx_log_probs",
                            {"hist": ("arg", "hist"), "hidx": ("arg", "idx"), "offsets": ("attr", "offsets"), "ids": ("attr", "ids"), "logps": ("attr", "logps"), "logbs": ("attr", "logbs"),
                             "sos": ("attr", "sos"), "V": ("attr", "vocab_size"), "N": ("attr", "max_ngram"), "G": ("attr", "max_ngram_nodes"), "S": ("attr", "max_direct_descendants")},
                            "pair_with_argument:prev"),
}


def method_vc(clause, cls_name):
    """like wrapper_vc, for a method with an explicit parameter map (the internal function's parameter names differ from the attributes)"""
    import importlib

    cmod, meth, fmod, fname, pmap, ret = METHODS[cls_name]

    def thunk(I):
        cls = getattr(importlib.import_module(cmod), cls_name)
        fdef, mod = I.get_function(fmod, fname)
        mdef, _ = I.get_function(cmod, cls_name + "." + meth)
        call_params = [a.arg for a in mdef.args.posonlyargs + mdef.args.args][1:]
        fparams = [a.arg for a in fdef.args.posonlyargs + fdef.args.args + fdef.args.kwonlyargs]
        sent = {p: Sentinel("call:" + p) for p in call_params}
        fields = _Fields()
        fields.cls = cls
        result = Sentinel("result")
        calls = []

        def contract(I2, args, kwargs):
            fr = ip.Frame(mod)
            I2.bind_args(fdef, fr, list(args), dict(kwargs))
            calls.append(dict(fr.locals))
            return result

        I.contracts["%s.%s" % (fmod, fname)] = contract
        obj = ip.SObj(cls, {}, cls_name)
        obj.fields = fields
        out = I.call(I.getattr(obj, meth), [sent[p] for p in call_params], {})
        I.ex.ghost.update(calls=calls, sent=sent, fields=dict(fields), fparams=fparams, result=result)
        return out

    def post(p):
        if not api.returns(p):
            return False
        g = p.ghost
        if len(g["calls"]) != 1:
            return [("function_called_exactly_once", False)]
        got = g["calls"][0]
        goals = [("parameter_map_covers_the_function_signature", set(g["fparams"]) == set(pmap))]
        for name in g["fparams"]:
            kind, src = pmap.get(name, (None, None))
            want = g["sent"].get(src) if kind == "arg" else (g["fields"].get(src) if kind == "attr" else None)
            goals.append(("param:%s<-%s" % (name, ("argument:" if kind == "arg" else "self.") + str(src)), want is not None and got.get(name) is want))
        if ret.startswith("pair_with_argument:"):
            a = ret.split(":", 1)[1]
            goals.append(("result_returned_with_the_state_unchanged", isinstance(p.value, tuple) and len(p.value) == 2 and p.value[0] is g["result"] and p.value[1] is g["sent"][a]))
        else:
            goals.append(("result_returned_unchanged", p.value is g["result"]))
        return goals

    return VC(clause, "%s.%s -> %s" % (cls_name, meth, fname), cmod, cls_name + "." + meth, thunk, posts=[("forwards_every_parameter", post)], inputs={},
              assumptions=["the internal function is replaced by a contract that records its bound arguments (its own behaviour: the property's other clauses)",
                           "the object's buffers and attributes are opaque sentinels; the parameter map (which attribute feeds which parameter) is the contract: %s" % {k: v[1] for k, v in pmap.items()}])


def wrapper_vc(clause, cls_name):
    import importlib

    cmod, fmod, fname = WRAPPERS[cls_name]

    def thunk(I):
        cls = getattr(importlib.import_module(cmod), cls_name)
        fdef, mod = I.get_function(fmod, fname)
        fwd, _ = I.get_function(cmod, cls_name + ".forward")
        call_params = [a.arg for a in fwd.args.posonlyargs + fwd.args.args][1:]
        fparams = [a.arg for a in fdef.args.posonlyargs + fdef.args.args + fdef.args.kwonlyargs]
        sent = {p: Sentinel("call:" + p) for p in call_params}
        fields = _Fields()
        fields.cls = cls
        result = Sentinel("result")
        calls = []

        def contract(I2, args, kwargs):
            fr = ip.Frame(mod)
            I2.bind_args(fdef, fr, list(args), dict(kwargs))
            calls.append(dict(fr.locals))
            return result

        I.contracts["%s.%s" % (fmod, fname)] = contract
        obj = ip.SObj(cls, {}, cls_name)
        obj.fields = fields  # (SObj copies its fields into a plain dict; the sentinel-on-demand mapping is installed afterwards)
        out = I.call(I.getattr(obj, "forward"), [sent[p] for p in call_params], {})
        # the functional's own defaults, evaluated in its module (for parameters the module does not configure)
        defaults = {}
        pos = fdef.args.posonlyargs + fdef.args.args
        for a, d in zip(pos[len(pos) - len(fdef.args.defaults):], fdef.args.defaults):
            defaults[a.arg] = d
        for a, d in zip(fdef.args.kwonlyargs, fdef.args.kw_defaults):
            if d is not None:
                defaults[a.arg] = d
        I.ex.ghost.update(calls=calls, sent=sent, fields=dict(fields), call_params=call_params, fparams=fparams, result=result, defaults={k: ast.unparse(v) for k, v in defaults.items()},
                          default_vals={k: I.eval(v, ip.Frame(mod)) for k, v in defaults.items()}, attrs=set(getattr(cls, "__constants__", ()) or ()))
        return out

    def post(p):
        if not api.returns(p):
            return False
        g = p.ghost
        calls = g["calls"]
        if len(calls) != 1:
            return [("functional_called_exactly_once", False)]
        got, fparams, call_params = calls[0], g["fparams"], g["call_params"]
        goals = [("result_returned_unchanged", p.value is g["result"])]
        used = set()
        for i, name in enumerate(fparams):
            # a call argument feeds the parameter of the same name, else (differently named leading arguments: `ref` for `refs`) the
            # parameter at its position
            src = name if name in call_params else (call_params[i] if i < len(call_params) and call_params[i] not in fparams else None)
            if src is not None:
                used.add(src)
                goals.append(("param:%s<-argument:%s" % (name, src), got.get(name) is g["sent"][src]))
                continue
            attr = ALIAS.get(name, name)
            if attr in g["fields"]:
                goals.append(("param:%s<-self.%s" % (name, attr), got.get(name) is g["fields"][attr]))
            elif attr in g["attrs"]:  # a configured option of the module that the forward never read
                goals.append(("param:%s<-self.%s" % (name, attr), False))
            else:
                v, d = got.get(name), g["default_vals"].get(name)
                same = (v is d) or (type(v) is type(d) and not isinstance(v, ip.Opaque) and v == d)
                goals.append(("param:%s keeps its default %s" % (name, g["defaults"].get(name)), bool(same)))
        goals.append(("every_call_argument_reaches_the_functional", used == set(call_params)))
        return goals

    return VC(clause, "%s.forward -> %s" % (cls_name, fname), cmod, cls_name + ".forward", thunk, posts=[("forwards_every_parameter", post)], inputs={},
              assumptions=["the functional is replaced by a contract that records its bound arguments (its own behaviour: the property's other clauses)",
                           "module attributes are opaque sentinels named after the functional's parameters (alias: _filters <- self.filters); what __init__ stores under them: bounded drivers"])


def wrapper_vcs(clause, names):
    return [wrapper_vc(clause, n) for n in names]


TEXT = "real forward source of the module wrappers (%s): the functional is called once with the call arguments in order and every configured attribute under the parameter of the same name, defaults elsewhere, and its result is returned unchanged - for every argument and configuration"
