"""C12 - data-directory validation accepts exactly well-formed directories; fixes stick.

Deductive part (engine A): fragment contracts on the real source of `_info_and_validate`
(reference-boundary loop body, alignment-length block) and a contract on `_utts_in_dir`.
Bounded part (engine B, contracts/C12_rt.py): whole directories with injected defects.
"""
import ast

import z3

from vf.pyvc import api, interp as ip
from vf.pyvc.api import VC
from vf.pyvc.values import OpenObj, ShapeOnly, Vec

M = "pydrobert.torch._datasets"
TOK, R1, R2, T, FIX, TP = z3.Ints("tok r1 r2 T fix Tp")
WB0 = z3.Bool("write_back0")


def frag_ref_loop(fdef):
    loops = [n for n in ast.walk(fdef) if isinstance(n, ast.For) and ast.unparse(n.iter) == "enumerate(ref)"]
    assert len(loops) == 1, "expected exactly one `for idx2, r in enumerate(ref)` loop"
    return loops[0].body


def frag_ali_len(fdef):
    for n in ast.walk(fdef):
        body = getattr(n, "body", None)
        if not isinstance(body, list):
            continue
        for i, s in enumerate(body):
            # `<v> = ali.size(0)` (or ali.shape[0] / len(ali)) followed by `if <v> != T:` - whatever the local is called
            if isinstance(s, ast.Assign) and len(s.targets) == 1 and isinstance(s.targets[0], ast.Name) \
                    and ast.unparse(s.value) in ("ali.size(0)", "ali.shape[0]", "len(ali)") and i + 1 < len(body) and isinstance(body[i + 1], ast.If) \
                    and ast.unparse(body[i + 1].test) in ("%s != T" % s.targets[0].id, "T != %s" % s.targets[0].id, "not %s == T" % s.targets[0].id):
                return body[i:i + 2]
    raise AssertionError("alignment length block not found")


def valid(a, b):
    return z3.Or(z3.And(a < 0, b < 0), z3.And(0 <= a, a <= b, b <= T))


def vcs():
    import pydrobert.torch._datasets as dsm
    out = []
    for fixmode in ("strict", "fix"):
        fixv = None if fixmode == "strict" else FIX

        def thunk(I, fixv=fixv):
            r = Vec([TOK, R1, R2])
            fr = I.run_fragment(dsm, I.fragment, {"r": r, "T": T, "fix": fixv, "write_back": WB0, "prefix_": "p", "idx2": 0}, "_info_and_validate", I.fdef)
            I.ex.ghost.update(r=r, wb=fr.locals["write_back"])
            return None

        unpaired = z3.Or(z3.And(R1 < 0, R2 >= 0), z3.And(R1 >= 0, R2 < 0))
        overshoot = z3.And(0 <= R1, R1 <= R2, R2 > T, R1 <= T, R2 - FIX <= T)  # "boundaries k frames too long", k <= fix
        if fixmode == "strict":
            raise_cond = lambda p: z3.Not(valid(R1, R2))

            def after(p):
                r, wb = p.ghost["r"].items, p.ghost["wb"]
                return z3.And(r[0] == TOK, r[1] == R1, r[2] == R2, wb == WB0)  # strict validation never writes
        else:
            raise_cond = lambda p: z3.And(z3.Not(valid(R1, R2)), z3.Not(unpaired), z3.Not(overshoot))

            def after(p):
                r, wb = p.ghost["r"].items, p.ghost["wb"]
                a, b = r[1], r[2]
                return z3.And(
                    r[0] == TOK,  # the token id is never touched
                    valid(a, b),  # a second, strict pass accepts the row (the fix sticks)
                    z3.Implies(valid(R1, R2), z3.And(a == R1, b == R2, wb == WB0)),  # well-formed rows untouched
                    z3.Implies(z3.And(z3.Not(valid(R1, R2)), unpaired), z3.And(a == -1, b == -1, wb)),  # documented repair 1
                    z3.Implies(z3.And(z3.Not(valid(R1, R2)), z3.Not(unpaired)), z3.And(a == R1, b == T, wb)),  # documented repair 2
                )
        out.append(VC("C12.val.ref_bounds", "ref_loop_body[%s]" % fixmode, M, "_info_and_validate", thunk, fragment=frag_ref_loop,
                      pre=[T >= 0, FIX >= 0], posts=[("raises_iff_not_wellformed_or_not_repairable_and_effect", api.post_raises_iff(raise_cond, "ValueError", after))],
                      twins=[("accepts_end_beyond_T", api.post_raises_iff(lambda p: z3.Not(z3.Or(valid(R1, R2), z3.And(0 <= R1, R1 <= R2))), "ValueError"))],
                      inputs={"r1": R1, "r2": R2, "T": T, "fix": FIX, "tok": TOK, "wb0": WB0},
                      replay=lambda m, fixmode=fixmode: replay_ref(m, fixmode),
                      assumptions=["fragment contract: loop body executed on one symbolic row r=(tok,start,end) of a (R,3) long tensor; row mutation is in place (view semantics of tensor rows)"]))

        def thunk2(I, fixv=fixv):
            ali = ShapeOnly((TP,), "ali")
            fr = I.run_fragment(dsm, I.fragment, {"ali": ali, "T": T, "fix": fixv, "write_back": WB0, "prefix_": "p",
                                                   "data_set": OpenObj(name="data_set")}, "_info_and_validate", I.fdef)
            I.ex.ghost.update(ali=fr.locals["ali"], wb=fr.locals["write_back"])

        if fixmode == "strict":
            rc2 = lambda p: TP != T
            after2 = lambda p: z3.And(p.ghost["ali"].shape[0] == TP, p.ghost["wb"] == WB0)
        else:
            rc2 = lambda p: z3.And(TP != T, z3.Not(z3.And(T < TP, TP <= T + FIX)))
            after2 = lambda p: z3.And(p.ghost["ali"].shape[0] == T, z3.If(TP == T, p.ghost["wb"] == WB0, p.ghost["wb"]))
        out.append(VC("C12.val.ali_len", "ali_len_block[%s]" % fixmode, M, "_info_and_validate", thunk2, fragment=frag_ali_len,
                      pre=[T >= 0, TP >= 0, FIX >= 0], posts=[("raises_iff_length_mismatch_not_croppable_and_effect", api.post_raises_iff(rc2, "ValueError", after2))],
                      twins=[("crops_anything", api.post_raises_iff(lambda p: z3.BoolVal(False), "ValueError"))],
                      inputs={"T": T, "Tp": TP, "fix": FIX}, replay=lambda m, fixmode=fixmode: replay_ali(m, fixmode)))

    # ---- _utts_in_dir: selection by prefix/suffix and id extraction --------------------------------------------------
    X, P, S, U = z3.Strings("x prefix suffix utt")

    def thunk3(I):
        fdef, mod = I.get_function(M, "_utts_in_dir")
        return I.call_def(fdef, mod, ["dir", P, S], {})

    class SetAsList(list):  # set() of the one generic file name: a list (add / update accepted by the interpreter's method table)
        set_abstraction = True

    stubs = {"posix.listdir": lambda I, d: [X], "builtins.set": lambda I, it=(): SetAsList(I.iterate(it))}
    sel = z3.And(z3.PrefixOf(P, X), z3.SuffixOf(S, X))

    def post_sel(p):
        if not api.returns(p):
            return False
        v = p.value
        if len(v) == 0:
            return z3.Not(sel)
        return z3.And(sel, z3.Implies(z3.Length(X) >= z3.Length(P) + z3.Length(S), z3.Concat(P, v[0], S) == X))

    def post_inv(p):  # every file named prefix+utt+suffix is found and yields utt
        if not api.returns(p):
            return False
        v = p.value
        hyp = X == z3.Concat(P, U, S)
        if len(v) == 0:
            return z3.Not(hyp)
        return z3.Implies(hyp, v[0] == U)

    out.append(VC("C12.utts.prefix_suffix", "_utts_in_dir", M, "_utts_in_dir", thunk3, pre=[], stubs=stubs,
                  posts=[("selected_iff_prefix_and_suffix_and_name_reassembles", post_sel), ("prefix_utt_suffix_found_and_inverted", post_inv)],
                  twins=[("suffix_ignored", lambda p: (z3.PrefixOf(P, X) if len(p.value) else z3.Not(z3.PrefixOf(P, X))) if api.returns(p) else False)],
                  inputs={"x": X, "prefix": P, "suffix": S, "utt": U}, replay=replay_utts, timeout_ms=60000,
                  assumptions=["os.listdir abstracted to one generic file name (the comprehension is element-wise); set() abstracted to the list of that element",
                               "domain: file names at least as long as prefix+suffix (names in which prefix and suffix overlap are outside the property's 'prefix+utt+suffix' form)"]))
    return out


# ---- native replays of counter-models ----------------------------------------------------------------------------------

def _mk_dir(tmp, feat_T, ali=None, ref=None):
    import os
    import torch

    os.makedirs(os.path.join(tmp, "feat"))
    torch.save(torch.zeros(feat_T, 2), os.path.join(tmp, "feat", "u.pt"))
    if ali is not None:
        os.makedirs(os.path.join(tmp, "ali"))
        torch.save(ali, os.path.join(tmp, "ali", "u.pt"))
    if ref is not None:
        os.makedirs(os.path.join(tmp, "ref"))
        torch.save(ref, os.path.join(tmp, "ref", "u.pt"))


def _small(*vals, lim=200):
    return all(abs(int(v)) <= lim for v in vals)


def replay_ref(m, fixmode):
    import tempfile
    import warnings
    import torch
    from pydrobert.torch.data import SpectDataSet, validate_spect_data_set

    r1, r2, t, fix, tok = int(m["r1"]), int(m["r2"]), int(m["T"]), int(m["fix"]), max(int(m["tok"]), 0)
    if not _small(r1, r2, t, fix, tok) or t < 0:
        return None
    ok = (r1 < 0 and r2 < 0) or (0 <= r1 <= r2 <= t)
    unpaired = (r1 < 0) != (r2 < 0)
    over = 0 <= r1 <= r2 and r2 > t and r1 <= t and r2 - fix <= t
    with tempfile.TemporaryDirectory() as tmp, warnings.catch_warnings():
        warnings.simplefilter("ignore")
        _mk_dir(tmp, t, ref=torch.tensor([[tok, r1, r2]]))
        ds = SpectDataSet(tmp)
        try:
            validate_spect_data_set(ds, None if fixmode == "strict" else fix)
            raised = False
        except ValueError:
            raised = True
        want_raise = (not ok) if fixmode == "strict" else (not ok and not unpaired and not over)
        if raised != want_raise:
            return "row (%d,%d) T=%d fix=%s: raised=%s expected=%s" % (r1, r2, t, fixmode == "fix" and fix, raised, want_raise)
        if not raised:
            after = torch.load(tmp + "/ref/u.pt").tolist()[0]
            want = [tok, r1, r2] if ok else ([tok, -1, -1] if unpaired else [tok, r1, t])
            if after != want:
                return "row (%d,%d) T=%d fix=%d: on disk %s expected %s" % (r1, r2, t, fix, after, want)
    return None


def replay_ali(m, fixmode):
    import tempfile
    import warnings
    import torch
    from pydrobert.torch.data import SpectDataSet, validate_spect_data_set

    t, tp, fix = int(m["T"]), int(m["Tp"]), int(m["fix"])
    if not _small(t, tp, fix) or t < 0 or tp < 0:
        return None
    with tempfile.TemporaryDirectory() as tmp, warnings.catch_warnings():
        warnings.simplefilter("ignore")
        _mk_dir(tmp, t, ali=torch.zeros(tp, dtype=torch.long))
        ds = SpectDataSet(tmp)
        try:
            validate_spect_data_set(ds, None if fixmode == "strict" else fix)
            raised = False
        except ValueError:
            raised = True
        want = (tp != t) if fixmode == "strict" else (tp != t and not (t < tp <= t + fix))
        if raised != want:
            return "T=%d Tp=%d fix=%s: raised=%s expected=%s" % (t, tp, fixmode == "fix" and fix, raised, want)
        if not raised and torch.load(tmp + "/ali/u.pt").size(0) != t:
            return "T=%d Tp=%d: alignment on disk has length %d" % (t, tp, torch.load(tmp + "/ali/u.pt").size(0))
    return None


def replay_utts(m):
    import os
    import tempfile
    from pydrobert.torch._datasets import _utts_in_dir

    x, p, s = m["x"], m["prefix"], m["suffix"]
    if not x or "/" in x or "\x00" in x or any(ord(c) > 126 or ord(c) < 32 for c in x + p + s) or len(x) > 100:
        return None
    with tempfile.TemporaryDirectory() as tmp:
        open(os.path.join(tmp, x), "w").close()
        got = _utts_in_dir(tmp, p, s)
    sel = x.startswith(p) and x.endswith(s)
    if bool(got) != sel:
        return "file %r prefix %r suffix %r: selected=%s expected=%s" % (x, p, s, bool(got), sel)
    if got and len(x) >= len(p) + len(s) and p + list(got)[0] + s != x:
        return "file %r prefix %r suffix %r: extracted id %r does not reassemble" % (x, p, s, list(got)[0])
    return None


try:
    from contracts import C12_rt
except ImportError:
    C12_rt = None
CHECKERS = dict(C12_rt.CHECKERS) if C12_rt else {}

TEXT = {
    "C12.val.ref_bounds": "reference boundary check/repair: raises iff not well-formed (strict) / not documented-repairable (fix); repaired row passes strict check; only documented field changes",
    "C12.val.ali_len": "alignment length: accepted iff equal to feature length; cropped iff T < Tp <= T+fix, else raises",
    "C12.utts.prefix_suffix": "utterance discovery: selected iff startswith(prefix) and endswith(suffix); prefix+utt+suffix names are found and inverted",
}


def run(ctx):
    api.run_vcs(ctx, vcs(), TEXT)
    from contracts import C12_vc
    api.run_vcs(ctx, C12_vc.validate_vcs(ctx), {"C12.P.validate_iff_wellformed": "real _info_and_validate source in strict mode for a SYMBOLIC number of utterances over descriptors of the stored objects: an utterance is passed iff it meets the documented conditions (relative to the first utterance for dtype / width / reference dimensionality), otherwise ValueError; nothing is written; with and without alignments / references"})
    api.run_vcs(ctx, C12_vc.vcs(ctx), {"C12.S.soseos_inverse": "real _load_ref / _write_hyp source: reading = [sos] + transcript + [eos] (rows (symbol,-1,-1) in 2-D); writing a hypothesis with arbitrary symbols before the sos and after the eos stores exactly the bare transcript; all token, sos and eos values (0 and negatives included)"},
                bounded="stored transcripts of length R <= %d, 1-D / 2-D / 2-D tokens_only, sos and eos each configured or None, 0 or 2 extra symbols before / after" % (2 if ctx.quick else 3))
    if C12_rt:
        C12_rt.run_bounded(ctx)
    else:
        ctx.not_applicable.append("directory-level clauses (C12.val.iff, fix.sticks, info.recount, soseos.inverse): bounded driver not present in this tree")
