"""C05 - CTC prefix search reports true prefix mass, never more, never NaN (engine B, bounded).

Run-time contracts on the real `pydrobert.torch.modules.CTCPrefixSearch.__call__` and
`pydrobert.torch.functional.ctc_prefix_search_advance`, checked against two oracles written from the
property text (plain Python floats, dictionaries keyed by label tuples; no tensors, no beams-as-arrays):

  oracle 1  path summation: enumerate all (V+1)^T alignments of an element's valid frames, collapse
            each (merge repeats, drop blanks) and add up the products.  With a fused language model the
            factor of a label that opens a new token of the collapsed sequence is the fused extension
            score of the class docstring; a repeated label and the blank keep their frame probability.
  oracle 2  the standard prefix-beam recursion of a given width over a dict prefix -> (mass of paths ending
            in a non-blank, mass of paths ending in blank): blank keeps the prefix, the last label repeated
            keeps it, any label extends it (a repeat of the last label only from the blank-ended mass);
            equal prefixes are one dict key; after every frame the `width` heaviest prefixes of positive
            mass survive.  Exact ties at the pruning boundary are explored both ways (set of acceptable
            beams).  Width = infinity gives the exact mass again (and is compared with oracle 1).

Contract of one element n of a search (every clause below checks all of it):
  * no NaN among the reported masses; every mass is positive, 0 or -inf;
  * masses are non-increasing over the slots (so slots without a real prefix sit behind the real ones);
  * slots with positive mass hold pairwise distinct sequences over 0..V-1 (no blank, no garbage) of
    length <= the element's number of valid frames;
  * the positive-mass slots are exactly the beam of oracle 2 for that width, with its masses;
  * every reported mass <= the exact mass of that prefix, and when the width never forced a prune the
    positive-mass slots are exactly the prefixes of positive path mass with the masses of oracle 1.
"""
import itertools
import math
import random
import warnings

INF = float("inf")
M_ADV = "_decoding.ctc_prefix_search_advance"
M_FWD = "_decoding.CTCPrefixSearch.forward"

# ------------------------------------------------------------------------------------------------------
# oracles (pure python)


def softmax(row):
    m = max(row)
    e = [math.exp(x - m) for x in row]
    s = sum(e)
    return [x / s for x in e]


def lm_logit(seed, h, v):
    """the table language model of the fusion clauses: logit of label v in LM state h (exact integer recipe)"""
    x = (h * 7919 + v * 104729 + seed * 31337) % 1000003
    return ((x * x + 12345 * x) % 1009) / 1009.0 * 4.0 - 2.0  # non-linear in (h, v, seed); fits int64


LM_MOD = 1000003


def lm_state(prefix, V):
    """state the table LM is in after it has produced the distribution that follows `prefix`"""
    h = 1
    for tok in prefix:
        h = (h * (V + 2) + tok + 2) % LM_MOD
    return h


def make_ext(V, fusion):
    """fusion: None or {beta, mixture, seed}.  Returns ext(prefix, frame_probs) -> V extension scores,
    transcribed from the formulas of the CTCPrefixSearch docstring."""
    if fusion is None or not fusion["beta"]:
        return lambda prefix, row: row[:V]
    beta, seed = fusion["beta"], fusion["seed"] + 97 * fusion.get("c", 1)  # c: the element's static LM context

    def ext(prefix, row):
        h = lm_state(prefix, V)
        plm = softmax([lm_logit(seed, h, v) for v in range(V)])
        if fusion["mixture"]:
            nonblank = sum(row[:V])
            return [(1.0 - beta) * row[v] + beta * plm[v] * nonblank for v in range(V)]
        return [row[v] * plm[v] ** beta for v in range(V)]

    return ext


def oracle_paths(rows, V, ext):
    """oracle 1: rows = per-frame probabilities over V labels + blank (index V) -> {collapsed: mass}"""
    out = {}
    for path in itertools.product(range(V + 1), repeat=len(rows)):
        p, prefix, prev = 1.0, (), V
        for t, lab in enumerate(path):
            if lab == V:
                p *= rows[t][V]
            elif lab == prev:
                p *= rows[t][lab]
            else:
                p *= ext(prefix, rows[t])[lab]
                prefix = prefix + (lab,)
            prev = lab
        out[prefix] = out.get(prefix, 0.0) + p
    return out


def beam_step(state, row, V, ext_of):
    """one frame of the prefix recursion; state: {prefix: (nb, b)}; ext_of(prefix) -> V extension scores"""
    new = {}

    def add(p, dnb, db):
        nb, b = new.get(p, (0.0, 0.0))
        new[p] = (nb + dnb, b + db)

    for p, (nb, b) in state.items():
        add(p, 0.0, (nb + b) * row[V])
        if p:
            add(p, nb * row[p[-1]], 0.0)
        e = ext_of(p)
        for v in range(V):
            add(p + (v,), (b if (p and p[-1] == v) else nb + b) * e[v], 0.0)
    return new


def prune_choices(cands, width, tie):
    """all acceptable sets of survivors: the `width` heaviest of positive mass; ties (relative gap <= tie)
    across the boundary may be broken either way.  Returns (list of dicts, pruned?)"""
    items = sorted(((nb + b, p) for p, (nb, b) in cands.items() if nb + b > 0.0), reverse=True)
    if width is None or len(items) <= width:
        return [{p: cands[p] for _, p in items}], False
    edge = items[width - 1][0]
    lo, hi = edge * (1.0 - tie), edge * (1.0 + tie)
    sure = [p for m, p in items if m > hi]
    tied = [p for m, p in items if lo <= m <= hi]
    need = width - len(sure)
    if need >= len(tied):  # no tie straddles the boundary
        keep = [p for _, p in items[:width]]
        return [{p: cands[p] for p in keep}], True
    outs = []
    for comb in itertools.combinations(tied, need):
        outs.append({p: cands[p] for p in list(sure) + list(comb)})
    return outs, True


class OracleBlowUp(Exception):
    pass


def oracle_beam(rows, V, ext, width, tie, cap=4000):
    """oracle 2: -> (list of acceptable final states {prefix: (nb, b)}, pruned?)"""
    states, pruned = [{(): (0.0, 1.0)}], False
    for row in rows:
        nxt, seen = [], set()
        for st in states:
            cands = beam_step(st, row, V, lambda p: ext(p, row))
            outs, pr = prune_choices(cands, width, tie)
            pruned = pruned or pr
            for o in outs:
                key = tuple(sorted(o.items()))
                if key not in seen:
                    seen.add(key)
                    nxt.append(o)
        if len(nxt) > cap:
            raise OracleBlowUp("more than %d tie-broken beams" % cap)
        states = nxt
    return states, pruned


_REACH = {}


def reachable(T, V):
    """number of distinct collapsed sequences of T frames over V labels (= live prefixes when all
    frame probabilities are positive, as they are after a softmax of finite scores)"""
    if (T, V) not in _REACH:
        rows = [[1.0 / (V + 1)] * (V + 1)] * T
        st, _ = oracle_beam(rows, V, lambda p, r: r[:V], None, 0.0)
        _REACH[(T, V)] = len(st[0])
    return _REACH[(T, V)]


# ------------------------------------------------------------------------------------------------------
# the element contract


def _close(a, b, tol):
    return abs(a - b) <= tol * (abs(a) + abs(b)) + tol * 1e-3


def elem_contract(slots, width, V, L, rows, fusion, tol, tie):
    """slots: [(prefix as list, reported length, mass)] in slot order for one element with L valid frames
    whose frame probabilities (oracle softmax) are rows[:L].  Returns None or a message.
    float32 cases (tol > 1e-6): prefixes whose mass is below 1e-30 may be present or absent (underflow)."""
    floor = 1e-30 if tol > 1e-6 else 0.0
    if len(slots) != width:
        return "returned %d slots for width %d" % (len(slots), width)
    ext = make_ext(V, fusion)
    rows = rows[:L]
    nan = [k for k, s in enumerate(slots) if math.isnan(s[2])]
    msgs = []
    for k, (_, _, m) in enumerate(slots):
        if m == INF or (not math.isnan(m) and not (m >= 0.0 or m == -INF)):
            msgs.append("slot %d has mass %r (neither positive, 0 nor -inf)" % (k, m))
    pos = [(k, tuple(s[0]), s[2]) for k, s in enumerate(slots) if s[2] > 0.0 and s[2] < INF]
    seen = {}
    for k, pref, m in pos:
        if len(pref) != slots[k][1] or len(pref) > L:
            msgs.append("slot %d: prefix of length %d for %d valid frames" % (k, slots[k][1], L))
        if any(not (0 <= x < V) for x in pref):
            msgs.append("slot %d: prefix %s is not a sequence over 0..%d" % (k, list(pref), V - 1))
        if pref in seen:
            msgs.append("prefix %s has positive mass in slots %d and %d" % (list(pref), seen[pref], k))
        seen.setdefault(pref, k)
    exact_states, _ = oracle_beam(rows, V, ext, None, tie)
    exact = {p: nb + b for p, (nb, b) in exact_states[0].items()}
    paths = {p: m for p, m in oracle_paths(rows, V, ext).items() if m > 0.0}
    if set(paths) != set(exact) or any(not _close(paths[p], exact[p], 1e-12) for p in paths):
        return "ORACLES DISAGREE (driver bug): paths %r vs recursion %r" % (paths, exact)
    for k, pref, m in pos:
        if m > exact.get(pref, 0.0) * (1.0 + 4 * tol) + tol * 1e-3:
            msgs.append("slot %d: prefix %s reported with mass %.10g > exact mass %.10g" % (k, list(pref), m, exact.get(pref, 0.0)))
    if nan:
        head = "NaN mass in slot(s) %s (width %d, V %d, %d frames)" % (nan, width, V, L)
        return head + ("; additionally: " + "; ".join(msgs[:4]) if msgs else "")
    for k in range(width - 1):
        if not slots[k][2] >= slots[k + 1][2]:
            msgs.append("masses not non-increasing at slots %d,%d: %r < %r" % (k, k + 1, slots[k][2], slots[k + 1][2]))
            break
    if msgs:
        return "; ".join(msgs[:4])
    try:
        beams, pruned = oracle_beam(rows, V, ext, width, tie)
    except OracleBlowUp as e:
        return "ORACLE: %s" % e
    got = {pref: m for _, pref, m in pos if m >= floor}
    paths = {p: m for p, m in paths.items() if m >= floor}
    best = None
    for bm in beams:
        want = {p: nb + b for p, (nb, b) in bm.items() if nb + b >= floor}
        if set(want) == set(got) and all(_close(want[p], got[p], tol) for p in want):
            return None if pruned else _cmp_exact(got, paths, tol)
        if best is None:
            best = want
    lost = sorted(list(p) for p in best if p not in got)
    if not pruned and all(p in best and (m <= best[p] or _close(best[p], m, tol)) for p, m in got.items()):
        under = sorted(list(p) for p, m in got.items() if not _close(best[p], m, tol))
        return "nothing was pruned but mass is lost (none gained): prefix(es) %s of positive mass are missing, %s under-weighted: reported %s, path summation gives %s" % (
            lost, under, _fmt(got), _fmt(best))
    return "reported %s but the width-%d recursion gives %s%s" % (
        _fmt(got), width, _fmt(best), " (or %d tie-broken alternatives)" % (len(beams) - 1) if len(beams) > 1 else "")


def _cmp_exact(got, paths, tol):
    if set(got) != set(paths):
        return "nothing was pruned but reported prefixes %s != prefixes of positive path mass %s" % (sorted(got), sorted(paths))
    for p in got:
        if not _close(got[p], paths[p], tol):
            return "nothing was pruned but prefix %s has mass %.10g, path summation gives %.10g" % (list(p), got[p], paths[p])
    return None


def _fmt(d):
    return "{" + ", ".join("%s: %.6g" % (list(p), m) for p, m in sorted(d.items(), key=lambda kv: -kv[1])) + "}"


# ------------------------------------------------------------------------------------------------------
# calling the real search


def _dtype(case):
    import torch

    return torch.float32 if case.get("dtype") == "f32" else torch.float64


def _tols(case):
    return (3e-5, 1e-4) if case.get("dtype") == "f32" else (1e-9, 1e-9)


def _table_lm(V, seed0):
    import torch
    from pydrobert.torch.modules import MixableSequentialLanguageModel

    class TableLM(MixableSequentialLanguageModel):
        """stateful: the distribution is read off the threaded state only (h: fold of the tokens consumed,
        advanced with the single token hist[idx - 1]; c: a static per-element context handed in as the
        initial state, like an encoder output).  Any mistake in extract_by_src / mix_by_mask bookkeeping
        of the search therefore changes the distribution a prefix sees."""

        def update_input(self, prev, hist):
            if "h" in prev:
                return prev
            return {"h": torch.zeros(hist.size(1), dtype=torch.long), "c": prev["c"]}

        def calc_idx_log_probs(self, hist, prev, idx):
            B = hist.size(1)
            idx = idx.expand(B) if idx.dim() == 0 else idx
            if hist.size(0):
                tok = hist.gather(0, (idx - 1).clamp(min=0).unsqueeze(0)).squeeze(0)
            else:
                tok = torch.zeros(B, dtype=torch.long)
            h = torch.where(idx == 0, torch.ones_like(prev["h"]), (prev["h"] * (V + 2) + tok + 2) % LM_MOD)
            v = torch.arange(V)
            seed = (seed0 + 97 * prev["c"]).unsqueeze(1)
            x = (h.unsqueeze(1) * 7919 + v * 104729 + seed * 31337) % 1000003
            logits = ((x * x + 12345 * x) % 1009).double() / 1009.0 * 4.0 - 2.0
            return logits, {"h": h, "c": prev["c"]}

        def extract_by_src(self, prev, src):
            return {k: x.index_select(0, src) for k, x in prev.items()}

        def mix_by_mask(self, prev_true, prev_false, mask):
            return {k: torch.where(mask, prev_true[k], prev_false[k]) for k in prev_true}

    return TableLM(V)


def _search(case, logits_list, lens, give_lens=True, ctx_ids=None):
    """logits_list: [T][N][V+1] python floats -> per element list of slots.  ctx_ids: the static LM context
    of each element (default 1, 2, ..)"""
    import torch
    from pydrobert.torch.modules import CTCPrefixSearch

    V, W = case["V"], case["width"]
    N = len(lens)
    T = len(logits_list)
    logits = torch.tensor(logits_list, dtype=_dtype(case)).reshape(T, N, V + 1)
    fusion = case.get("fusion")
    if fusion is None:
        mod = CTCPrefixSearch(W)
    else:
        mod = CTCPrefixSearch(W, beta=fusion["beta"], lm=_table_lm(V, fusion["seed"]), valid_mixture=bool(fusion["mixture"]))
    with warnings.catch_warnings():
        warnings.simplefilter("ignore")
        with torch.no_grad():
            args = [logits, torch.tensor(lens, dtype=torch.long) if give_lens else None]
            if fusion is not None:
                args.append({"c": torch.tensor(ctx_ids or list(range(1, N + 1)), dtype=torch.long)})
            y, y_lens, p = mod(*args)
    if tuple(p.shape) != (N, W) or tuple(y_lens.shape) != (N, W) or y.dim() != 3 or tuple(y.shape[1:]) != (N, W):
        raise AssertionError("shapes y %s y_lens %s probs %s for N=%d width=%d" % (tuple(y.shape), tuple(y_lens.shape), tuple(p.shape), N, W))
    out = []
    S = y.size(0)
    for n in range(N):
        slots = []
        for k in range(W):
            ln = int(y_lens[n, k])
            m = float(p[n, k])
            pref = y[: max(min(ln, S), 0), n, k].tolist() if (m > 0.0) else []
            if m > 0.0 and not (0 <= ln <= S):
                pref = [-1] * max(ln, 0)  # reported length exceeds the returned tensor: flagged by the contract
            slots.append((pref, ln, m))
        out.append(slots)
    return out, logits


def _rows_of(logits, n, L):
    """oracle-side frame probabilities of element n from the very numbers handed to the library"""
    return [softmax([float(x) for x in logits[t, n].tolist()]) for t in range(L)]


GRID = [-2.0, 0.0, 1.5]


def _jit(t, v):
    """generic offsets so that distinct prefixes do not tie by construction"""
    return 0.05 * math.modf(math.sqrt(2.0 + 3 * t + 7 * v) * 10.0)[0]


def table_logits(case):
    """case['table']: [T][V] grid indices (blank logit fixed to 0: softmax is shift invariant per frame),
    or case['rand'] = seed for Gaussian scores over all V+1 entries.  -> [T][V+1]"""
    V, T = case["V"], case["T"]
    if "table" in case:
        jit = case.get("jitter", True)
        return [[GRID[case["table"][t][v]] + (_jit(t, v) if jit else 0.0) for v in range(V)] + [0.0] for t in range(T)]
    rng = random.Random(case["rand"])
    sc = case.get("scale", 1.5)
    out = [[rng.gauss(0.0, sc) for _ in range(V + 1)] for _ in range(T)]
    for t, v in case.get("zero", []):  # labels (or the blank, v = V) of probability exactly 0 in a frame: logit -inf
        out[t][v] = -INF
    return out


def check_search_single(case):
    """one element: {V, T, width, table|rand, jitter?, lens: bool (pass lens or None), dtype?, fusion?}"""
    V, T = case["V"], case["T"]
    tab = table_logits(case)
    res, logits = _search(case, [[row] for row in tab], [T], give_lens=case.get("lens", True))
    tol, tie = _tols(case)
    return elem_contract(res[0], case["width"], V, T, _rows_of(logits, 0, T), case.get("fusion"), tol, tie)


def batch_logits(case):
    V, T, N = case["V"], case["T"], len(case["lens"])
    rng = random.Random(case["rand"])
    return [[[rng.gauss(0.0, 1.5) for _ in range(V + 1)] for _ in range(N)] for _ in range(T)]


def check_search_batch(case):
    """{V, T, width, lens: [..], rand, fusion?}: every element obeys the element contract on its own valid
    frames, and equals (positive-mass slots, in order, prefixes and masses) the search of those frames alone."""
    V, T, lens, W = case["V"], case["T"], case["lens"], case["width"]
    full = batch_logits(case)
    res, logits = _search(case, full, lens)
    tol, tie = _tols(case)
    msgs = []
    for n, L in enumerate(lens):
        fus = dict(case["fusion"], c=n + 1) if case.get("fusion") else None
        m = elem_contract(res[n], W, V, L, _rows_of(logits, n, L), fus, tol, tie)
        if m:
            msgs.append("element %d (of %d, lens %s): %s" % (n, len(lens), lens, m))
            continue
        solo, _ = _search(case, [[full[t][n]] for t in range(L)], [L], ctx_ids=[n + 1])
        a = [(tuple(s[0]), s[2]) for s in res[n] if s[2] > 0.0]
        b = [(tuple(s[0]), s[2]) for s in solo[0] if s[2] > 0.0]
        if [x[0] for x in a] != [x[0] for x in b] or any(not _close(x[1], y[1], tol) for x, y in zip(a, b)):
            msgs.append("element %d (lens %s) in the batch gives %s, searched alone gives %s" % (n, lens, a, b))
        if any(math.isnan(s[2]) or not (s[2] >= 0.0 or s[2] == -INF) for s in solo[0]):
            msgs.append("element %d searched alone has a NaN/negative mass" % n)
    if not msgs:
        return None
    nan = [m for m in msgs if "NaN mass" in m and "additionally" not in m]
    if len(nan) == len(msgs):
        return msgs[0]
    return " || ".join(m for m in msgs if m not in nan)[:1500] + ("; additionally NaN in %d element(s)" % len(nan) if nan else "")


# ------------------------------------------------------------------------------------------------------
# the step function


def _is_prefix(a, b):
    return len(a) <= len(b) and tuple(b[: len(a)]) == tuple(a)


def adv_state(case, n):
    """beam handed to the step function for element n: list of slots (prefix|None for an invalid slot, nb, b)
    produced by oracle 2 (width case['wprev'] or unbounded) on case['t0'] frames, zero-mass candidates kept,
    invalid slots appended, then shuffled."""
    V, t0 = case["V"], case["t0"]
    rng = random.Random(case["rand"] * 7 + n)
    rows = [softmax([rng.gauss(0.0, 1.5) for _ in range(V + 1)]) for _ in range(t0 + 1)]
    ext = _slot_ext(case, n)
    st = {(): (0.0, 1.0)}
    for row in rows[:t0]:
        cands = beam_step(st, row, V, lambda p: ext(p, row))
        items = sorted(cands.items(), key=lambda kv: -(kv[1][0] + kv[1][1]))
        if case.get("wprev"):
            items = items[: case["wprev"]]
        st = dict(items)
    slots = [(p, nb, b) for p, (nb, b) in st.items()]
    return slots, rows[t0], rng


def _slot_ext(case, n):
    """extension scores may differ per prefix (that is what the (N, old_width, V) argument is for)"""
    V = case["V"]
    if not case.get("perslot"):
        return lambda p, row: row[:V]
    seed = case["rand"] + 13 * n
    return lambda p, row: [row[v] * (0.25 + ((lm_state(p, V) * 31 + v * 17 + seed) % 7) / 4.0) for v in range(V)]


def check_advance(case):
    """{V, t0, wprev, rand, N, n_invalid, inv_b (0|-inf as 'z'|'i'), width, perslot, steps}: `steps` chained
    calls of ctc_prefix_search_advance, the first on beams built by the oracle, each later one on the
    previous call's own outputs ("the *next* tensors are analogous to the *prev* arguments"); every call
    is compared with one frame of oracle 2 over the live slots."""
    import torch
    from pydrobert.torch.functional import ctc_prefix_search_advance

    V, t0, N, W = case["V"], case["t0"], case["N"], case["width"]
    tol, tie = 1e-9, 1e-9
    per = []
    for n in range(N):
        slots, row, rng = adv_state(case, n)
        per.append([slots, row, rng])
    Kp = max(len(s[0]) for s in per) + case["n_invalid"]
    inv_b = 0.0 if case.get("inv_b") == "z" else -INF
    tm1 = t0
    y = torch.zeros(tm1, N, Kp, dtype=torch.long)
    last = torch.zeros(N, Kp, dtype=torch.long)
    lens = torch.zeros(N, Kp, dtype=torch.long)
    nb = torch.zeros(N, Kp, dtype=torch.float64)
    b = torch.zeros(N, Kp, dtype=torch.float64)
    isp = torch.zeros(N, Kp, Kp, dtype=torch.bool)
    for n in range(N):
        slots, row, rng = per[n]
        slots = slots + [(None, -INF, inv_b)] * (Kp - len(slots))
        rng.shuffle(slots)
        per[n][0] = slots
        for k, (p, a_nb, a_b) in enumerate(slots):
            garbage = rng.choice([0, V - 1, V, V + 3, -1])
            y[:, n, k] = garbage
            nb[n, k], b[n, k] = a_nb, a_b
            if p is None:
                last[n, k] = rng.choice([0, V - 1])
                continue
            for i, tok in enumerate(p):
                y[i, n, k] = tok
            lens[n, k] = len(p)
            last[n, k] = p[-1] if p else garbage
            for k2, (p2, _, _) in enumerate(slots):
                isp[n, k, k2] = p2 is not None and _is_prefix(p, p2)
    for step in range(case.get("steps", 1)):
        extp = torch.zeros(N, Kp, V, dtype=torch.float64)
        nonext = torch.zeros(N, V, dtype=torch.float64)
        blank = torch.zeros(N, dtype=torch.float64)
        for n in range(N):
            slots, row, rng = per[n]
            if step:
                row = per[n][1] = softmax([rng.gauss(0.0, 1.5) for _ in range(V + 1)])
            ext = _slot_ext(case, n)
            for k, (p, _, _) in enumerate(slots):
                extp[n, k] = torch.tensor(row[:V] if p is None else ext(p, row), dtype=torch.float64)
            nonext[n] = torch.tensor(row[:V], dtype=torch.float64)
            blank[n] = row[V]
        with warnings.catch_warnings():
            warnings.simplefilter("ignore")
            out = ctc_prefix_search_advance((extp, nonext, blank), W, (nb, b), y, last, lens, isp)
        y2, last2, lens2, (nb2, b2), isp2, src2, nonext2 = out
        want_shapes = [(tm1 + 1, N, W), (N, W), (N, W), (N, W), (N, W), (N, W, W), (N, W), (N, W)]
        got_shapes = [tuple(x.shape) for x in (y2, last2, lens2, nb2, b2, isp2, src2, nonext2)]
        if got_shapes != want_shapes:
            return "call %d: output shapes %s, expected %s" % (step + 1, got_shapes, want_shapes)
        msgs = []
        for n in range(N):
            m, new_slots = _advance_elem(per[n][0], per[n][1], _slot_ext(case, n), V, W, Kp, tm1, n,
                                         y2, last2, lens2, nb2, b2, isp2, src2, nonext2, tol, tie)
            if m:
                msgs.append("element %d: %s" % (n, m))
            per[n][0] = new_slots
        if msgs:
            return ("call %d of the chain: " % (step + 1) if case.get("steps", 1) > 1 else "") + " || ".join(msgs)[:1800]
        y, last, lens, nb, b, isp = y2, last2, lens2, nb2, b2, isp2
        Kp, tm1 = W, tm1 + 1
    return None


def _advance_elem(slots, row, ext, V, W, Kp, tm1, n, y2, last2, lens2, nb2, b2, isp2, src2, nonext2, tol, tie):
    st = {}
    for p, a_nb, a_b in slots:
        if p is not None:
            o = st.get(p, (0.0, 0.0))
            st[p] = (o[0] + a_nb, o[1] + a_b)
    cands = beam_step(st, row, V, lambda p: ext(p, row))
    tot = [float(nb2[n, k] + b2[n, k]) for k in range(W)]
    nan = [k for k in range(W) if math.isnan(tot[k])]
    em = []
    got, prefs = {}, {}
    for k in range(W):
        if not tot[k] >= 0.0:
            if not math.isnan(tot[k]) and tot[k] != -INF:
                em.append("slot %d has total mass %r" % (k, tot[k]))
            continue
        s = int(src2[n, k])
        if not (0 <= s < Kp) or slots[s][0] is None:
            if tot[k] > 0.0:
                em.append("slot %d (mass %.6g) has source %d which is not a live slot" % (k, tot[k], s))
            continue
        ln = int(lens2[n, k])
        pref = tuple(y2[:ln, n, k].tolist()) if 0 <= ln <= tm1 + 1 else None
        src_p = slots[s][0]
        if bool(nonext2[n, k]):
            ok = pref == src_p
        else:
            ok = pref is not None and len(pref) == len(src_p) + 1 and pref[:-1] == src_p and 0 <= pref[-1] < V
        if not ok:
            em.append("slot %d: prefix %s is not its source %s %s" % (k, pref, list(src_p), "unchanged" if bool(nonext2[n, k]) else "plus one label"))
            continue
        prefs[k] = pref
        if pref and int(last2[n, k]) != pref[-1]:
            em.append("slot %d: last label reported %d for prefix %s" % (k, int(last2[n, k]), list(pref)))
        c = cands.get(pref)
        if c is None:
            em.append("slot %d: prefix %s is no candidate of the recursion" % (k, list(pref)))
            continue
        if tot[k] > 0.0:
            if pref in got:
                em.append("prefix %s has positive mass in two slots" % (list(pref),))
            got[pref] = tot[k]
            if not (_close(float(nb2[n, k]), c[0], tol) and _close(float(b2[n, k]), c[1], tol)):
                em.append("slot %d: prefix %s has (non-blank, blank) mass (%.9g, %.9g), one frame of the recursion gives (%.9g, %.9g)" % (
                    k, list(pref), float(nb2[n, k]), float(b2[n, k]), c[0], c[1]))
    # the selected set: the width heaviest candidates of positive mass
    items = sorted((x + z for x, z in cands.values() if x + z > 0.0), reverse=True)
    if len(got) != min(W, len(items)) and not nan:
        lost = sorted(list(p) for p, (x, z) in cands.items() if x + z > 0.0 and p not in got)
        em.append("%d slots of positive mass, expected %d%s" % (len(got), min(W, len(items)), " (candidates lost: %s)" % lost if len(items) <= W else ""))
    elif len(items) > W and not nan:
        edge = items[W - 1]
        for p, (x, z) in cands.items():
            if x + z > edge * (1 + tie) and p not in got:
                em.append("candidate %s of mass %.9g was dropped although the %d-th heaviest is %.9g" % (list(p), x + z, W, edge))
    if not nan:
        for k in range(W - 1):
            if not tot[k] >= tot[k + 1]:
                em.append("total masses not non-increasing at slots %d,%d" % (k, k + 1))
                break
    # prefix relation among the real slots
    for k in prefs:
        for k2 in prefs:
            if bool(isp2[n, k, k2]) != _is_prefix(prefs[k], prefs[k2]):
                em.append("is_prefix[%d,%d]=%s for prefixes %s, %s" % (k, k2, bool(isp2[n, k, k2]), list(prefs[k]), list(prefs[k2])))
    new_slots = [(prefs.get(k), float(nb2[n, k]), float(b2[n, k])) for k in range(W)]
    if nan:
        return "NaN total mass in slot(s) %s (old width %d of which %d invalid, width %d)%s" % (
            nan, Kp, sum(1 for x in slots if x[0] is None), W, "; additionally: " + "; ".join(em[:3]) if em else ""), new_slots
    return ("; ".join(em[:4]) if em else None), new_slots


# ------------------------------------------------------------------------------------------------------
# case spaces


def _tables(T, V):
    for flat in itertools.product(range(len(GRID)), repeat=T * V):
        yield [list(flat[t * V:(t + 1) * V]) for t in range(T)]


def _tv(ctx):
    if ctx.quick:
        return [(T, 1) for T in range(0, 6)] + [(T, 2) for T in range(0, 4)]
    return [(T, 1) for T in range(0, 7)] + [(T, 2) for T in range(0, 5)] + [(T, 3) for T in range(0, 4)]


def _grid_ok(ctx, T, V):
    """the exhaustive part of the table space: all grid tables with T*V <= 6 entries (quick) / 8 (thorough)"""
    return T * V <= (6 if ctx.quick else 8) and not (V == 1 and T > (5 if ctx.quick else 6))


def cases_exact(ctx):
    """widths that never force a prune: reachable(T,V) .. +2, 14, 25 (far beyond); V=1: every width R..16"""
    for T, V in _tv(ctx):
        R = reachable(T, V)
        widths = set([R, R + 1, R + 2, 14, 25, 60] if not ctx.quick else [R, R + 1, R + 2, 14, 25])
        if V == 1:
            widths |= set(range(R, 17))
        widths = sorted(w for w in widths if w >= R)
        if _grid_ok(ctx, T, V):
            for tab in _tables(T, V):
                for w in widths:
                    yield {"V": V, "T": T, "width": w, "table": tab}
        for tab in itertools.islice(_tables(T, V), 0, None, 7):  # exact ties: un-jittered grid, every 7th table
            if T * V <= 6:
                yield {"V": V, "T": T, "width": R, "table": tab, "jitter": False}
        for w in widths:
            yield {"V": V, "T": T, "width": w, "rand": 11 + T + 10 * V, "lens": False}  # lens=None call form
            yield {"V": V, "T": T, "width": w, "rand": 12 + T + 10 * V, "dtype": "f32"}
    # probabilities of exactly 0 (a -inf logit) under beams wider than the live candidates: -inf fillers times 0 must not turn into NaN
    for T, V, zero in ((3, 2, [(1, 1)]), (3, 2, [(1, 2)]), (3, 2, [(0, 0), (2, 1)]), (2, 2, [(1, 0)]), (3, 1, [(1, 0)]), (4, 1, [(2, 1)])):
        R = reachable(T, V)
        for w in (R, R + 1, V + 2, V + 3, 14):
            yield {"V": V, "T": T, "width": w, "rand": 70 + T + 10 * V + len(zero), "zero": zero}
    if not ctx.quick:
        rng = random.Random(ctx.seed * 1000003 + 51)
        for _ in range(6000):
            V = rng.choice([1, 2, 3, 4])
            T = rng.randint(0, 5 if V <= 2 else (4 if V == 3 else 3))
            R = reachable(T, V)
            yield {"V": V, "T": T, "width": R + rng.choice([0, 0, 1, 2, 7, 40]), "rand": rng.randrange(1 << 30), "scale": rng.choice([0.5, 1.5, 4.0]),
                   "dtype": rng.choice(["f64", "f64", "f32"]), "lens": rng.random() < 0.8}


def cases_pruned(ctx):
    """every width below the number of reachable prefixes"""
    for T, V in _tv(ctx):
        R = reachable(T, V)
        if R <= 1:
            continue
        widths = list(range(1, R)) if R <= 12 else sorted(set(list(range(1, 10)) + [12, 16, R // 2, R - 1]))
        if _grid_ok(ctx, T, V):
            for tab in _tables(T, V):
                for w in widths:
                    yield {"V": V, "T": T, "width": w, "table": tab}
        for i, tab in enumerate(_tables(T, V)):  # exact ties at the pruning boundary: un-jittered, every 5th table
            if T * V <= 6 and i % 5 == 0:
                for w in widths[:6]:
                    yield {"V": V, "T": T, "width": w, "table": tab, "jitter": False}
        for w in widths:
            yield {"V": V, "T": T, "width": w, "rand": 21 + T + 10 * V, "lens": False}
            yield {"V": V, "T": T, "width": w, "rand": 22 + T + 10 * V, "dtype": "f32"}
    if not ctx.quick:
        rng = random.Random(ctx.seed * 1000003 + 52)
        for _ in range(8000):
            V = rng.choice([1, 2, 3, 4])
            T = rng.randint(1, 6 if V <= 2 else (5 if V == 3 else 4))
            R = reachable(T, V)
            if R <= 1:
                continue
            yield {"V": V, "T": T, "width": rng.randint(1, min(R - 1, 30)), "rand": rng.randrange(1 << 30), "scale": rng.choice([0.5, 1.5, 4.0]),
                   "dtype": rng.choice(["f64", "f64", "f32"]), "lens": rng.random() < 0.8}


def _widths_mixed(T, V, quick):
    R = reachable(T, V)
    ws = {1, 2, 3, 5, R, R + 1, 25}
    if not quick:
        ws |= {4, 9}
    return sorted(w for w in ws if w >= 1)


def cases_batch(ctx):
    """all lens vectors in {0..T}^N, N in 2..3 (at least one element of full length T so that T is the
    time dimension that matters; shorter maxima are included by T' < T), widths below/at/above reachable"""
    tmax = 3 if ctx.quick else 4
    seeds = 2 if ctx.quick else 3
    for V in (1, 2):
        for T in range(0, tmax + 1):
            for N in (2, 3):
                for lens in itertools.product(range(T + 1), repeat=N):
                    if T > 3 and N == 3 and len(set(lens)) == 1 and lens[0] not in (0, T):
                        continue
                    for w in _widths_mixed(T, V, ctx.quick):
                        for s in range(seeds):
                            yield {"V": V, "T": T, "width": w, "lens": list(lens), "rand": 100 * s + 7 * T + V}
    if not ctx.quick:
        rng = random.Random(ctx.seed * 1000003 + 53)
        for _ in range(4000):
            V = rng.choice([1, 2, 3])
            T = rng.randint(0, 5 if V <= 2 else 4)
            N = rng.randint(2, 5)
            yield {"V": V, "T": T, "width": rng.choice([1, 2, 3, 4, 6, 9, 15, 30]), "lens": [rng.randint(0, T) for _ in range(N)], "rand": rng.randrange(1 << 30),
                   "dtype": rng.choice(["f64", "f64", "f32"])}


FUSIONS = [(b, m) for b in (0.0, 0.3, 1.0) for m in (False, True)]


def cases_fusion(ctx):
    """beta in {0,.3,1} x {shallow fusion, valid mixture}, stateful table LM, single elements over the
    grid of tables with T*V <= 4 entries and batches of 2 with mixed lens, widths below/at/above reachable"""
    tmax = 3 if ctx.quick else 4
    for V in (1, 2):
        for T in range(0, tmax + 1):
            for beta, mix in FUSIONS:
                fus = {"beta": beta, "mixture": mix, "seed": 3 + T}
                for w in _widths_mixed(T, V, ctx.quick):
                    if T * V <= (4 if ctx.quick else 6):
                        for tab in _tables(T, V):
                            yield {"V": V, "T": T, "width": w, "table": tab, "fusion": fus}
                    for s in range(2 if ctx.quick else 4):
                        yield {"V": V, "T": T, "width": w, "rand": 31 + s, "fusion": dict(fus, seed=s)}
                    for lens in itertools.product(range(T + 1), repeat=2):
                        for s in range(2 if ctx.quick else 3):
                            yield {"V": V, "T": T, "width": w, "lens": list(lens), "rand": 41 + T + 100 * s, "fusion": fus}
    if not ctx.quick:
        rng = random.Random(ctx.seed * 1000003 + 54)
        for _ in range(4000):
            V = rng.choice([1, 2, 3])
            T = rng.randint(0, 5 if V <= 2 else 4)
            fus = {"beta": rng.choice([0.0, 0.1, 0.3, 0.5, 0.9, 1.0]), "mixture": rng.random() < 0.5, "seed": rng.randrange(1000)}
            c = {"V": V, "T": T, "width": rng.choice([1, 2, 3, 4, 6, 9, 15, 30]), "rand": rng.randrange(1 << 30), "fusion": fus}
            if rng.random() < 0.5:
                c["lens"] = [rng.randint(0, T) for _ in range(rng.randint(2, 4))]
            yield c


def check_fusion(case):
    return check_search_batch(case) if isinstance(case.get("lens"), list) else check_search_single(case)


def cases_advance(ctx):
    t0max = 2 if ctx.quick else 3
    seeds = 2 if ctx.quick else 4
    for V in (1, 2, 3):
        for t0 in range(0, t0max + 1):
            if V == 3 and t0 > 2:
                continue
            for wprev in (None, 2, 3):
                if t0 == 0 and wprev:
                    continue
                for N in (1, 2):
                    for n_inv, inv_b in ((0, "i"), (2, "i"), (2, "z")):
                        for perslot in (False, True):
                            for s in range(seeds):
                                base = {"V": V, "t0": t0, "wprev": wprev, "N": N, "n_invalid": n_inv, "inv_b": inv_b, "perslot": perslot, "rand": 50 * s + 3 * t0 + V}
                                kp = max(len(adv_state(dict(base, width=1), n)[0]) for n in range(N)) + n_inv
                                live = kp - n_inv
                                for w in sorted({1, 2, 3, live, kp, kp + 1, live * (V + 1) - 1, kp * (V + 1), kp * (V + 1) + 3}):
                                    if w >= 1:
                                        yield dict(base, width=w)
    # chains from the initial beam (what CTCPrefixSearch.forward does), the step function fed its own outputs
    for V in (1, 2, 3):
        for steps in range(2, (5 if ctx.quick else 7) + (1 if V == 1 else 0)):
            for N in (1, 2):
                for perslot in (False, True):
                    for w in (1, 2, 3, 5, 7, 8, 9, 14, 25):
                        for s in range(seeds):
                            yield {"V": V, "t0": 0, "wprev": None, "N": N, "n_invalid": 0, "inv_b": "i", "perslot": perslot, "rand": 50 * s + V, "width": w, "steps": steps}


# ------------------------------------------------------------------------------------------------------
# known defect of the unchanged tree (see final report / FINDINGS)


def _wide(case, min_frames):
    V, W = case["V"], case["width"]
    lens = case["lens"] if isinstance(case.get("lens"), list) else [case["T"]]
    return W > V * V + V + 1 and max(lens) >= min_frames


def _nan_class_search(case, msg):
    """width exceeds the V*V+V+1 finite candidates of the second frame (so -inf filler slots created in the
    first frame survive into a further step) for an element with >= 2 valid frames; the only symptom
    reported is NaN mass"""
    return "NaN mass" in msg and "additionally" not in msg and _wide(case, 2)


def _nan_class_advance(case, msg):
    """the beam handed in holds invalid (-inf) slots (given, or produced by an earlier call of a chain) and
    the width exceeds the number of finite candidates; the only symptom is NaN total mass"""
    return "NaN total mass" in msg and "additionally" not in msg and (case["n_invalid"] > 0 or case.get("steps", 1) > 1)


def _lost_class_search(case, msg):
    """same widths, an element with >= 4 valid frames; the only symptom is that prefixes of positive mass are
    missing from an unpruned result (and their extensions under-weighted) while no reported mass is too large"""
    if "NaN" in msg and "additionally NaN in" not in msg:
        return False
    parts = msg.split("; additionally NaN in")[0].split(" || ")
    return _wide(case, 4) and all("mass is lost (none gained)" in p for p in parts)


def _lost_class_advance(case, msg):
    """chain of >= 4 calls with such a width; the only symptom is a positive-mass candidate missing from an unpruned step"""
    if case.get("steps", 1) < 4 or case["width"] <= case["V"] ** 2 + case["V"] + 1 or "NaN" in msg:
        return False
    return all("candidates lost" in p and "; " not in p for p in msg.split(" || "))


_WHAT1 = ("beam wider than the live candidates: -inf filler slots turn into NaN one step after they are created "
          "(b_nonext_probs_cand.gather(1, next_src) * next_is_nonext computes -inf * 0 for a filler re-selected as an extension), "
          "and NaN then sorts first in topk: NaN masses are returned and displace real prefixes")
_WHAT2 = ("beam wider than the live candidates: an extension candidate that was merged into an identical prefix (mass set to -inf) is "
          "picked to fill the beam, keeps its place in the prefix relation, and two frames later its -inf is merged into a real "
          "longer prefix, whose mass is lost (prefix missing from the result or under-weighted, and its extensions with it)")
_CLASS1 = "width > V*V+V+1 and the element has >= 2 valid frames"
_CLASS2 = "width > V*V+V+1 and the element has >= 4 valid frames (which widths lose a prefix depends on how topk orders equal -inf candidates)"
FINDINGS = [
    {"id": "KF-C05-1", "property": "C05", "clause": "C05.search.exact", "what": _WHAT1, "class": _CLASS1,
     "witness": {"V": 2, "T": 2, "width": 8, "table": [[1, 1], [1, 1]]}},
    {"id": "KF-C05-1b", "property": "C05", "clause": "C05.search.pruned", "what": _WHAT1, "class": _CLASS1,
     "witness": {"V": 2, "T": 4, "width": 8, "table": [[1, 1], [1, 1], [1, 1], [1, 1]]}},
    {"id": "KF-C05-1c", "property": "C05", "clause": "C05.search.batch", "what": _WHAT1, "class": _CLASS1,
     "witness": {"V": 2, "T": 2, "width": 25, "lens": [0, 2], "rand": 16}},
    {"id": "KF-C05-1d", "property": "C05", "clause": "C05.search.fusion", "what": _WHAT1, "class": _CLASS1,
     "witness": {"V": 2, "T": 2, "width": 25, "rand": 31, "fusion": {"beta": 0.3, "mixture": False, "seed": 0}}},
    {"id": "KF-C05-1e", "property": "C05", "clause": "C05.advance.step", "what": _WHAT1,
     "class": "the beam handed to the step holds invalid (-inf) slots (given, or made by an earlier call of the chain) and width exceeds the number of finite candidates",
     "witness": {"V": 2, "t0": 0, "wprev": None, "N": 1, "n_invalid": 0, "inv_b": "i", "perslot": True, "rand": 2, "width": 8, "steps": 2}},
    {"id": "KF-C05-2", "property": "C05", "clause": "C05.search.exact", "what": _WHAT2, "class": _CLASS2,
     "witness": {"V": 1, "T": 5, "width": 7, "table": [[0], [0], [0], [0], [0]]}},
    {"id": "KF-C05-2c", "property": "C05", "clause": "C05.search.batch", "what": _WHAT2, "class": _CLASS2,
     "witness": {"V": 1, "T": 4, "width": 25, "lens": [4, 0], "rand": 29}},
    {"id": "KF-C05-2d", "property": "C05", "clause": "C05.search.fusion", "what": _WHAT2, "class": _CLASS2,
     "witness": {"V": 1, "T": 4, "width": 25, "rand": 33, "fusion": {"beta": 0.3, "mixture": True, "seed": 2}}},
    {"id": "KF-C05-2e", "property": "C05", "clause": "C05.advance.step", "what": _WHAT2,
     "class": "chain of >= 4 calls from the initial beam with width > V*V+V+1",
     "witness": {"V": 1, "t0": 0, "wprev": None, "N": 1, "n_invalid": 0, "inv_b": "i", "perslot": True, "rand": 1, "width": 7, "steps": 5}},
]
KNOWN_MATCH = {
    "KF-C05-1": _nan_class_search,
    "KF-C05-1b": _nan_class_search,
    "KF-C05-1c": _nan_class_search,
    "KF-C05-1d": _nan_class_search,
    "KF-C05-1e": _nan_class_advance,
    "KF-C05-2": _lost_class_search,
    "KF-C05-2c": _lost_class_search,
    "KF-C05-2d": _lost_class_search,
    "KF-C05-2e": _lost_class_advance,
}

CHECKERS = {
    "C05.search.exact": check_search_single,
    "C05.search.pruned": check_search_single,
    "C05.search.batch": check_search_batch,
    "C05.search.fusion": check_fusion,
    "C05.advance.step": check_advance,
}


def _wanted(ctx, name):
    only = getattr(ctx, "only", None)
    return not only or any(name.startswith(o) for o in only)


def run_bounded(ctx):
    import torch  # noqa: F401  (imported before the worker pools fork, so that workers do not re-import)
    import pydrobert.torch.functional  # noqa: F401
    import pydrobert.torch.modules  # noqa: F401

    ctx.known_match.update(KNOWN_MATCH)
    q = ctx.quick
    tv = "V=1,T<=5 and V=2,T<=3" if q else "V=1,T<=6, V=2,T<=4 and V=3,T<=3"
    grid = "every table over the score grid {-2,0,1.5}+generic offsets (blank score 0) with T*V<=%d entries" % (6 if q else 8)
    rnd = "" if q else "; plus seeded random cases V<=4, T<=6, float32/float64, score scale .5/1.5/4"
    if _wanted(ctx, "C05.search.exact"):
        ctx.bounded("C05.search.exact", check_search_single, cases_exact(ctx),
                    bound="%s; %s; widths R, R+1, R+2, 14, 25%s (V=1: every width R..16) where R = number of reachable prefixes; un-jittered (tied) tables at width R; one lens=None and one float32 Gaussian table per (T,V,width)%s" % (
                        tv, grid, "" if q else ", 60", rnd),
                    text="nothing pruned: positive-mass slots = all prefixes of positive path mass with the masses of brute-force path summation; order, distinctness, blank-free, length, fillers 0/-inf behind, no NaN",
                    nontrivial=lambda c: c["T"] >= 2, chunk=32, functions=[M_FWD, M_ADV])
    if _wanted(ctx, "C05.search.pruned"):
        ctx.bounded("C05.search.pruned", check_search_single, cases_pruned(ctx),
                    bound="%s; %s; every width 1..R-1 (R<=12, else 1..9,12,16,R/2,R-1); tied (un-jittered) tables with tie-tolerant oracle; one lens=None and one float32 Gaussian table per (T,V,width)%s" % (tv, grid, rnd),
                    text="pruning happens: positive-mass slots and masses equal an independent dict-based prefix-beam recursion of the same width; every mass <= exact path mass; order, distinctness, no NaN",
                    nontrivial=lambda c: c["T"] >= 2, chunk=32, functions=[M_FWD, M_ADV])
    if _wanted(ctx, "C05.search.batch"):
        ctx.bounded("C05.search.batch", check_search_batch, cases_batch(ctx),
                    bound="V<=2, T<=%d, N in {2,3}, every lens vector in {0..T}^N, widths {1,2,3,5,R,R+1,25%s}, %d seeded Gaussian score tensors each%s" % (
                        3 if q else 4, "" if q else ",4,9", 2 if q else 3, "" if q else "; plus seeded random N<=5, V<=3, T<=5, float32/float64"),
                    text="each element of a ragged batch obeys the element contract on its own valid frames and equals the search of logits[:lens[n], n] alone",
                    nontrivial=lambda c: len(set(c["lens"])) > 1, chunk=16, functions=[M_FWD, M_ADV])
    if _wanted(ctx, "C05.search.fusion"):
        ctx.bounded("C05.search.fusion", check_fusion, cases_fusion(ctx),
                    bound="V<=2, T<=%d, beta in {0,.3,1} x {shallow fusion, valid mixture}, stateful table LM with a per-element context; grid tables with T*V<=%d, seeded tables, batches of 2 with every lens pair; widths {1,2,3,5,R,R+1,25%s}%s" % (
                        3 if q else 4, 4 if q else 6, "" if q else ",4,9", "" if q else "; plus seeded random beta, V<=3, T<=5, N<=4"),
                    text="fused search: masses equal the recursion/path summation with the docstring's fused extension score; LM state threaded per prefix and per batch element (a state-only LM sees the right history and context)",
                    nontrivial=lambda c: c["fusion"]["beta"] > 0 and c["T"] >= 2, chunk=16, functions=[M_FWD, M_ADV])
    if _wanted(ctx, "C05.advance.step"):
        ctx.bounded("C05.advance.step", check_advance, cases_advance(ctx),
                    bound="single calls: V<=3, beams after t0<=%d frames (unpruned or pruned to 2/3, zero-mass candidates kept, shuffled slots, garbage beyond lengths), N<=2, 0 or 2 invalid slots (blank mass 0 or -inf), plain/per-slot extension scores, widths {1,2,3,live,K',K'+1,live(V+1)-1,K'(V+1),K'(V+1)+3}, %d seeds; chains of 2..%d calls (V=1: %d) from the initial beam fed their own outputs, widths {1,2,3,5,7,8,9,14,25}" % (
                        2 if q else 3, 2 if q else 4, 4 if q else 6, 5 if q else 7),
                    text="a call of ctc_prefix_search_advance = one frame of the dict recursion: (non-blank, blank) mass per prefix, merge of an extension into an identical prefix, top-width selection, source/last/length bookkeeping, prefix relation, no NaN; its outputs are valid inputs of the next call",
                    nontrivial=lambda c: c["t0"] >= 1 or c.get("steps", 1) > 1, chunk=16, functions=[M_ADV])
    ctx.replay_known_witnesses()
    ctx.assume("float64 masses compared with relative tolerance 1e-9 (float32 cases: 3e-5); candidates within that relative gap of the pruning boundary count as tied and may be kept or dropped",
               "the oracle computes the frame probabilities as softmax of the same scores in Python floats",
               "the table LM used for fusion is a fixture of the driver (state = fold of the tokens consumed, logits = integer hash of the state)")
    ctx.not_applicable.append("C05: unbounded T/V/width and arbitrary language models (bounded enumeration only); TorchScript-compiled variants of the two functions")
