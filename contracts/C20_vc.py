"""C20, engine A part (S rung): single-head soft attention is a masked convex combination, blind to masked positions.

The real `DotProductSoftAttention.forward` / `GeneralizedDotProductSoftAttention.forward` source
(check_input, score, masked_fill(~mask, -inf), softmax over the sequence dimension, weighted sum) is executed over
symbolic queries, keys, values and masks of concrete small shape. softmax has an assumed contract (non-negative weights
summing to one, zero at -inf scores, a function of the finite scores and the -inf pattern). Proved for all contents:
  convex : every output coordinate lies between the smallest and largest KEPT value of that coordinate;
  blind  : two runs whose keys and values agree at kept positions give the same output (relational).
"""
import z3

from vf.pyvc import api, ctensor as ct, interp as ip
from vf.pyvc.api import VC

M = "pydrobert.torch._attn"


def attn_vc(kind, T, D, Dv):
    import pydrobert.torch._attn as A

    name = "%s[T=%d,D=%d,Dv=%d]" % (kind, T, D, Dv)

    def mk(I):
        if kind == "dot":
            return ip.SObj(A.DotProductSoftAttention, {"query_size": D, "key_size": D, "dim": 0, "scale_factor": z3.Real("scale")}, "attn")
        W = ct.CT.symbolic("W", (D, D), "float")
        return ip.SObj(A.GeneralizedDotProductSoftAttention, {"query_size": D, "key_size": D, "dim": 0, "weight": W, "bias": ct.CT.symbolic("bias", (D,), "float")}, "attn")

    def thunk(I):
        q = ct.CT.symbolic("q", (D,), "float")
        k1, v1 = ct.CT.symbolic("k", (T, D), "float"), ct.CT.symbolic("v", (T, Dv), "float")
        mask = ct.CT.symbolic("keep", (T,), "bool")
        # the second run's keys/values agree with the first at kept positions BY CONSTRUCTION and are arbitrary elsewhere
        ka, va = ct.CT.symbolic("k'", (T, D), "float"), ct.CT.symbolic("v'", (T, Dv), "float")
        k2 = ct.CT.ew(ct.sc_where, ct.CT(mask.a.reshape(T, 1), "bool"), k1, ka, dtype="float")
        v2 = ct.CT.ew(ct.sc_where, ct.CT(mask.a.reshape(T, 1), "bool"), v1, va, dtype="float")
        obj = mk(I)
        def bshapes(I2, a, k):
            import torch

            try:
                return tuple(torch.broadcast_shapes(*[tuple(x) for x in a]))
            except RuntimeError:
                raise ip.PyRaise("RuntimeError", "shapes do not broadcast")

        I.contracts["pydrobert.torch._compat.broadcast_shapes"] = bshapes
        I.stubs["torch.functional.broadcast_shapes"] = lambda I2, *shapes: bshapes(I2, shapes, {})
        def linear(I2, x, w, b=None):
            # assumed contract of F.linear: x @ w.T + b along the last dimension
            rows = ct.METHODS["matmul"](I2, ct.CT(x.a.reshape(-1, x.shape[-1]), "float"), ct.CT(w.a.T, "float"))
            out = ct.CT(rows.a.reshape(x.shape[:-1] + (w.shape[0],)), "float")
            return out if b is None else out.binop(__import__("ast").Add(), b)

        I.stubs["torch.nn.functional.linear"] = I.stubs["torch._C._nn.linear"] = linear
        out1 = I.call(I.getattr(obj, "forward"), [q, k1, v1, mask], {})
        out2 = I.call(I.getattr(obj, "forward"), [q, k2, v2, mask], {})
        I.ex.ghost.update(v1=v1, k1=k1, k2=k2, v2=v2, mask=mask, out2=out2)
        return out1

    def post(p):
        if not api.returns(p) or not isinstance(p.value, ct.CT) or p.value.shape != (Dv,):
            return False
        g, out = p.ghost, p.value
        keep = [g["mask"].a[t] for t in range(T)]
        some = z3.Or(keep)
        goals = []
        for d in range(Dv):
            o = ip.to_z3(out.a[d])
            lo = z3.And([z3.Or([z3.And(keep[t], g["v1"].a[t, d] <= o) for t in range(T)])])   # some kept value <= out
            hi = z3.And([z3.Or([z3.And(keep[t], g["v1"].a[t, d] >= o) for t in range(T)])])   # some kept value >= out
            goals.append(("convex.coord%d" % d, z3.Implies(some, z3.And(lo, hi))))
        goals.append(("blind", z3.Implies(some, z3.And([ip.to_z3(out.a[d]) == ip.to_z3(g["out2"].a[d]) for d in range(Dv)]))))
        return goals

    return VC("C20.S.convex_blind", name, M, "GlobalSoftAttention.forward", thunk, posts=[("masked_convex_combination", post)],
              twins=[("output_is_first_value", lambda p: ip.to_z3(p.value.a[0]) == p.ghost["v1"].a[0, 0] if api.returns(p) else None)] if T > 1 else [],
              inputs={}, timeout_ms=60000,
              assumptions=["softmax contract (vf/pyvc/ctensor.py::f_softmax): weights >= 0, sum to 1 when some score is finite, 0 at -inf scores, a function of finite scores and the -inf pattern",
                           "float arithmetic treated as real arithmetic (0 * finite = 0; inf/NaN replacement values are outside the claim)", "sequence dimension 0, un-batched query (shapes bounded)"])


def attn_p_vc(flavour=None):
    """`flavour` = None: DotProductSoftAttention with its own score function. Otherwise the named subclass of GlobalSoftAttention with
    `score` under CONTRACT (called on the query and key given, returns ANY real scores of the key's shape without its last
    dimension): the inherited forward is then verified for every score function, i.e. for every flavour that inherits it.
    P rung: sequence length T, key size D and value size Dv SYMBOLIC (dot-product attention, sequence dimension 0, un-batched).
    The weighted sum and the softmax have the assumed partial-sum contracts of vf/pyvc/symtensor.py. For a skolem coordinate d0 and
    ANY bounds lo <= every kept value <= hi at that coordinate:  lo <= out[d0] <= hi  - by the induction
    lo * W(j) <= S(j) <= hi * W(j) over the sequence index (base / step obligations), W(T) = 1 because a position is kept."""
    import pydrobert.torch._attn as A
    from vf.pyvc import symtensor as stn

    T, D, DV, D0, J0, T0 = z3.Ints("T D Dv d0 j0 t_kept")
    LO, HI, SCALE = z3.Reals("lo hi scale")
    Q = z3.Function("q", z3.IntSort(), z3.RealSort())
    K = z3.Function("k", z3.IntSort(), z3.IntSort(), z3.RealSort())
    V = z3.Function("v", z3.IntSort(), z3.IntSort(), z3.RealSort())
    KEEP = z3.Function("keep", z3.IntSort(), z3.BoolSort())
    t_ = z3.Int("t_q")
    bounded_at = lambda t: z3.Implies(z3.And(0 <= t, t < T, KEEP(t)), z3.And(LO <= V(t, D0), V(t, D0) <= HI))

    def thunk(I):
        I.stubs.update(stn.stubs())

        def bshapes(I2, a, k):  # broadcast_shapes over symbolic extents: right-aligned, extents equal or 1
            shapes = [tuple(x) for x in a]
            rank = max(len(x) for x in shapes)
            out = []
            for i in range(rank):
                dims = [x[i - (rank - len(x))] for x in shapes if i - (rank - len(x)) >= 0]
                big = [x for x in dims if not (isinstance(x, int) and x == 1)]
                pick = big[0] if big else 1
                for x in big[1:]:
                    if not stn.dim_eq(x, pick):
                        raise ip.PyRaise("RuntimeError", "shapes do not broadcast")
                out.append(pick)
            return tuple(out)

        I.contracts["pydrobert.torch._compat.broadcast_shapes"] = bshapes
        I.stubs["torch.functional.broadcast_shapes"] = lambda I2, *shapes: bshapes(I2, shapes, {})
        obj = ip.SObj(getattr(A, flavour or "DotProductSoftAttention"), {"query_size": D, "key_size": D, "dim": 0, "scale_factor": SCALE}, "attn")
        q = stn.ST((D,), lambda d: Q(ip.to_z3(d)), "float")
        k = stn.ST((T, D), lambda t, d: K(ip.to_z3(t), ip.to_z3(d)), "float")
        v = stn.ST((T, DV), lambda t, d: V(ip.to_z3(t), ip.to_z3(d)), "float")
        mask = stn.ST((T,), lambda t: KEEP(ip.to_z3(t)), "bool")
        if flavour is not None:
            SC = z3.Function("score", z3.IntSort(), z3.RealSort())

            def score_contract(I2, a, kw):
                I2.ex.oblige("structure.score.called_on_the_query_and_key", z3.BoolVal(len(a) == 3 and a[1] is q and a[2] is k and not kw))
                return stn.ST((T,), lambda t: SC(ip.to_z3(t)), "float")

            I.contracts["%s.score" % flavour] = score_contract
        out = I.call(I.getattr(obj, "forward"), [q, k, v, mask], {})
        sm = I.ex.ghost["softmaxes"][-1]
        ws = [x for x in I.ex.ghost["sums"] if x.get("kind") == "sum"][-1]  # the weighted sum over the sequence
        S = lambda j: ws["S"](D0, j)
        W = sm["W"]
        I.ex.oblige("attention.sums_over_the_sequence", z3.And(ws["T"] == T, sm["n"] == T))
        # the weights are zero exactly at masked positions' -inf scores: instance at j0; kept position t_kept makes the weights sum to one
        inv = lambda j: z3.Implies(z3.And(0 <= j, j <= T), z3.And(LO * W(j) <= S(j), S(j) <= HI * W(j)))
        for x in (ws["base"](D0), ws["step"](D0, J0), sm["weight"](J0), sm["wstep"](J0), sm["total_if_finite_at"](T0), bounded_at(J0)):
            I.ex.instance(x)
        I.ex.oblige("softmax.masked_scores_are_minus_infinity", z3.Implies(z3.And(0 <= J0, J0 < T), sm["ninf"](J0) == z3.Not(KEEP(J0))))
        I.ex.oblige("convex.base", inv(z3.IntVal(0)))
        I.ex.oblige("convex.step", z3.Implies(z3.And(0 <= J0, J0 < T, inv(J0)), inv(J0 + 1)))
        I.ex.assume(z3.ForAll([t_], inv(t_)))
        I.ex.instance(inv(T))
        I.ex.oblige("softmax.weights_sum_to_one", W(T) == 1)
        return out

    def post(p):
        if not api.returns(p) or not hasattr(p.value, "elem"):
            return False
        o = ip.to_z3(p.value.elem(D0))
        return [("result_shape", z3.And(z3.BoolVal(len(p.value.shape) == 1), ip.to_z3(p.value.shape[0]) == DV)),
                ("output_between_the_bounds_of_the_kept_values", z3.And(LO <= o, o <= HI))]

    pre = [T >= 1, D >= 0, DV >= 1, 0 <= D0, D0 < DV, 0 <= T0, T0 < T, KEEP(T0), z3.ForAll([t_], bounded_at(t_))]
    return VC("C20.P.convex", "%s.forward[symbolic T, D, Dv%s]" % (flavour or "DotProductSoftAttention", "; ANY score function" if flavour else ""), M, "GlobalSoftAttention.forward", thunk, pre=pre, posts=[("masked_convex_combination", post)],
              inputs={"T": T, "D": D, "Dv": DV}, timeout_ms=30000,
              assumptions=["sum over a symbolic extent = partial sums (assumed contract); softmax over a symbolic extent: weights >= 0, 0 at -inf scores, partial sums reaching 1 when some score is finite (assumed contract)",
                           "the induction over the sequence index is applied outside the solver (base and step are obligations)",
                           "dot-product attention, sequence dimension 0, un-batched query; float arithmetic treated as real arithmetic; tensors as index functions (vf/pyvc/symtensor.py)",
                           "lo / hi: ANY lower / upper bound of the kept values of the coordinate (hence also their minimum / maximum)"])


def blind_p_vc():
    """P rung (relational): two runs of dot-product attention on the same query and mask whose keys and values agree at the KEPT
    positions and are arbitrary elsewhere give the same output - for SYMBOLIC T, D, Dv. Three steps, each with base / step obligations:
      (1) scores agree at every position: at a masked one both are -inf; at a kept one the dot products agree by induction over the
          key dimension (partial sums of q * k and q * k');
      (2) softmax is a function of the score vector (assumed: equal score vectors give equal weights - congruence of an
          uninterpreted function, with its premise (1) proved);
      (3) the weighted sums agree by induction over the sequence: a masked position contributes weight 0, a kept one the same value."""
    import pydrobert.torch._attn as A
    from vf.pyvc import symtensor as stn

    T, D, DV, D0, J0, T1, E0 = z3.Ints("T D Dv d0 j0 t1 e0")
    SCALE = z3.Real("scale")
    Q = z3.Function("q", z3.IntSort(), z3.RealSort())
    K1 = z3.Function("k", z3.IntSort(), z3.IntSort(), z3.RealSort())
    V1 = z3.Function("v", z3.IntSort(), z3.IntSort(), z3.RealSort())
    KA = z3.Function("k_other", z3.IntSort(), z3.IntSort(), z3.RealSort())
    VA = z3.Function("v_other", z3.IntSort(), z3.IntSort(), z3.RealSort())
    KEEP = z3.Function("keep", z3.IntSort(), z3.BoolSort())
    t_ = z3.Int("t_q")
    K2 = lambda t, d: z3.If(KEEP(t), K1(t, d), KA(t, d))  # agrees with the first run where kept, arbitrary elsewhere
    V2 = lambda t, d: z3.If(KEEP(t), V1(t, d), VA(t, d))

    def thunk(I):
        I.stubs.update(stn.stubs())

        def bshapes(I2, a, k):
            shapes = [tuple(x) for x in a]
            rank = max(len(x) for x in shapes)
            out = []
            for i in range(rank):
                dims = [x[i - (rank - len(x))] for x in shapes if i - (rank - len(x)) >= 0]
                big = [x for x in dims if not (isinstance(x, int) and x == 1)]
                pick = big[0] if big else 1
                for x in big[1:]:
                    if not stn.dim_eq(x, pick):
                        raise ip.PyRaise("RuntimeError", "shapes do not broadcast")
                out.append(pick)
            return tuple(out)

        I.contracts["pydrobert.torch._compat.broadcast_shapes"] = bshapes
        I.stubs["torch.functional.broadcast_shapes"] = lambda I2, *shapes: bshapes(I2, shapes, {})
        obj = ip.SObj(A.DotProductSoftAttention, {"query_size": D, "key_size": D, "dim": 0, "scale_factor": SCALE}, "attn")
        q = stn.ST((D,), lambda d: Q(ip.to_z3(d)), "float")
        mask = stn.ST((T,), lambda t: KEEP(ip.to_z3(t)), "bool")
        runs = []
        for KF, VF in ((K1, V1), (K2, V2)):
            k = stn.ST((T, D), lambda t, d, KF=KF: KF(ip.to_z3(t), ip.to_z3(d)), "float")
            v = stn.ST((T, DV), lambda t, d, VF=VF: VF(ip.to_z3(t), ip.to_z3(d)), "float")
            n_s, n_m = len(I.ex.ghost.get("sums", [])), len(I.ex.ghost.get("softmaxes", []))
            out = I.call(I.getattr(obj, "forward"), [q, k, v, mask], {})
            sums = [x for x in I.ex.ghost["sums"][n_s:] if x.get("kind") == "sum"]
            if len(sums) != 2 or len(I.ex.ghost["softmaxes"][n_m:]) != 1:
                raise ip.Unsupported("one score reduction, one softmax and one weighted sum per run expected")
            runs.append({"out": out, "score": sums[0], "wsum": sums[1], "sm": I.ex.ghost["softmaxes"][-1]})
        a, b = runs
        I.ex.oblige("blind.extents", z3.And(a["score"]["T"] == D, b["score"]["T"] == D, a["wsum"]["T"] == T, b["wsum"]["T"] == T, a["sm"]["n"] == T, b["sm"]["n"] == T))
        # (1) dot products agree at a kept position t1: induction over the key dimension
        SA, SB = (lambda j: a["score"]["S"](T1, j)), (lambda j: b["score"]["S"](T1, j))
        dot = lambda j: z3.Implies(z3.And(0 <= T1, T1 < T, KEEP(T1), 0 <= j, j <= D), SA(j) == SB(j))
        for x in (a["score"]["base"](T1), b["score"]["base"](T1), a["score"]["step"](T1, E0), b["score"]["step"](T1, E0)):
            I.ex.instance(x)
        I.ex.oblige("blind.dot.base", dot(z3.IntVal(0)))
        I.ex.oblige("blind.dot.step", z3.Implies(z3.And(0 <= E0, E0 < D, dot(E0)), dot(E0 + 1)))
        I.ex.assume(z3.ForAll([t_], dot(t_)))
        I.ex.instance(dot(D))
        # scores (after scaling and masking) agree at EVERY position t1: -inf pattern and finite value
        fa, va = ct.ng_split(a["sm"]["score"](T1))
        fb, vb = ct.ng_split(b["sm"]["score"](T1))
        B_ = lambda x: z3.BoolVal(x) if isinstance(x, bool) else x
        same_score = lambda: z3.Implies(z3.And(0 <= T1, T1 < T), z3.And(B_(fa) == B_(fb), z3.Implies(z3.Not(B_(fa)), ip.to_z3(va) == ip.to_z3(vb))))
        I.ex.oblige("blind.scores_agree_everywhere", same_score())
        # (2) softmax congruence (assumed): equal score vectors -> equal weights
        AW, BW = a["sm"]["A"], b["sm"]["A"]
        I.ex.assume(z3.ForAll([t_], z3.Implies(z3.And(0 <= t_, t_ < T), AW(t_) == BW(t_))))
        I.ex.instance(z3.Implies(z3.And(0 <= J0, J0 < T), AW(J0) == BW(J0)))
        # (3) weighted sums agree: induction over the sequence
        PA, PB = (lambda j: a["wsum"]["S"](D0, j)), (lambda j: b["wsum"]["S"](D0, j))
        eq = lambda j: z3.Implies(z3.And(0 <= j, j <= T), PA(j) == PB(j))
        for x in (a["wsum"]["base"](D0), b["wsum"]["base"](D0), a["wsum"]["step"](D0, J0), b["wsum"]["step"](D0, J0), a["sm"]["weight"](J0), b["sm"]["weight"](J0)):
            I.ex.instance(x)
        I.ex.oblige("blind.masked_scores_are_minus_infinity", z3.Implies(z3.And(0 <= J0, J0 < T), z3.And(a["sm"]["ninf"](J0) == z3.Not(KEEP(J0)), b["sm"]["ninf"](J0) == z3.Not(KEEP(J0)))))
        I.ex.oblige("blind.sum.base", eq(z3.IntVal(0)))
        I.ex.oblige("blind.sum.step", z3.Implies(z3.And(0 <= J0, J0 < T, eq(J0)), eq(J0 + 1)))
        I.ex.assume(z3.ForAll([t_], eq(t_)))
        I.ex.instance(eq(T))
        I.ex.ghost["runs"] = runs
        return a["out"]

    def post(p):
        if not api.returns(p) or "runs" not in p.ghost:
            return False
        o1, o2 = p.ghost["runs"][0]["out"], p.ghost["runs"][1]["out"]
        if not (hasattr(o1, "elem") and hasattr(o2, "elem")):
            return False
        return [("same_output_when_masked_keys_and_values_are_replaced", ip.to_z3(o1.elem(D0)) == ip.to_z3(o2.elem(D0)))]

    return VC("C20.P.blind", "DotProductSoftAttention.forward x 2 [symbolic T, D, Dv]", M, "GlobalSoftAttention.forward", thunk, pre=[T >= 1, D >= 0, DV >= 1, 0 <= D0, D0 < DV],
              posts=[("blind_to_masked_positions", post)], inputs={"T": T, "D": D, "Dv": DV}, timeout_ms=30000,
              assumptions=["sum over a symbolic extent = partial sums; softmax over a symbolic extent: weights >= 0 and 0 at -inf scores (assumed contracts)",
                           "softmax is a function of its score vector: two calls whose scores agree at every position (-inf pattern and finite values, proved as an obligation) return the same weights (assumed: congruence)",
                           "inductions over the key dimension and over the sequence applied outside the solver (base and step are obligations)",
                           "dot-product attention, sequence dimension 0, un-batched query; float arithmetic treated as real arithmetic"])


def p_vcs(ctx):
    return [attn_p_vc(), attn_p_vc("GeneralizedDotProductSoftAttention"), attn_p_vc("ConcatSoftAttention"), blind_p_vc()]


def vcs(ctx):
    out = []
    for kind in ("dot", "general"):
        for (T, D, Dv) in ([(1, 1, 1), (2, 1, 1), (2, 2, 1), (3, 1, 2)] if ctx.quick else [(1, 1, 1), (2, 1, 1), (2, 2, 2), (3, 2, 2), (4, 1, 1)]):
            out.append(attn_vc(kind, T, D, Dv))
    return out
