"""C20, engine A part (S rung): single-head soft attention is a masked convex combination, blind to masked positions.

The real `DotProductSoftAttention.forward` / `GeneralizedDotProductSoftAttention.forward` source
(check_input, score, masked_fill(~mask, -inf), softmax over the sequence dimension, weighted sum) is executed over
symbolic queries, keys, values and masks of concrete small shape. softmax has an assumed contract (non-negative weights
summing to one, zero at -inf scores, a function of the finite scores and the -inf pattern). Proved for all contents:
  convex : every output coordinate lies between the smallest and largest KEPT value of that coordinate;
  blind  : two runs whose keys and values agree at kept positions give the same output (relational).
"""
import z3

from vf.pyvc import api, ctensor as ct, interp as ip
from vf.pyvc.api import VC

M = "pydrobert.torch._attn"


def attn_vc(kind, T, D, Dv):
    import pydrobert.torch._attn as A

    name = "%s[T=%d,D=%d,Dv=%d]" % (kind, T, D, Dv)

    def mk(I):
        if kind == "dot":
            return ip.SObj(A.DotProductSoftAttention, {"query_size": D, "key_size": D, "dim": 0, "scale_factor": z3.Real("scale")}, "attn")
        W = ct.CT.symbolic("W", (D, D), "float")
        return ip.SObj(A.GeneralizedDotProductSoftAttention, {"query_size": D, "key_size": D, "dim": 0, "weight": W, "bias": ct.CT.symbolic("bias", (D,), "float")}, "attn")

    def thunk(I):
        q = ct.CT.symbolic("q", (D,), "float")
        k1, v1 = ct.CT.symbolic("k", (T, D), "float"), ct.CT.symbolic("v", (T, Dv), "float")
        mask = ct.CT.symbolic("keep", (T,), "bool")
        # the second run's keys/values agree with the first at kept positions BY CONSTRUCTION and are arbitrary elsewhere
        ka, va = ct.CT.symbolic("k'", (T, D), "float"), ct.CT.symbolic("v'", (T, Dv), "float")
        k2 = ct.CT.ew(ct.sc_where, ct.CT(mask.a.reshape(T, 1), "bool"), k1, ka, dtype="float")
        v2 = ct.CT.ew(ct.sc_where, ct.CT(mask.a.reshape(T, 1), "bool"), v1, va, dtype="float")
        obj = mk(I)
        def bshapes(I2, a, k):
            import torch

            try:
                return tuple(torch.broadcast_shapes(*[tuple(x) for x in a]))
            except RuntimeError:
                raise ip.PyRaise("RuntimeError", "shapes do not broadcast")

        I.contracts["pydrobert.torch._compat.broadcast_shapes"] = bshapes
        I.stubs["torch.functional.broadcast_shapes"] = lambda I2, *shapes: bshapes(I2, shapes, {})
        def linear(I2, x, w, b=None):
            # assumed contract of F.linear: x @ w.T + b along the last dimension
            rows = ct.METHODS["matmul"](I2, ct.CT(x.a.reshape(-1, x.shape[-1]), "float"), ct.CT(w.a.T, "float"))
            out = ct.CT(rows.a.reshape(x.shape[:-1] + (w.shape[0],)), "float")
            return out if b is None else out.binop(__import__("ast").Add(), b)

        I.stubs["torch.nn.functional.linear"] = I.stubs["torch._C._nn.linear"] = linear
        out1 = I.call(I.getattr(obj, "forward"), [q, k1, v1, mask], {})
        out2 = I.call(I.getattr(obj, "forward"), [q, k2, v2, mask], {})
        I.ex.ghost.update(v1=v1, k1=k1, k2=k2, v2=v2, mask=mask, out2=out2)
        return out1

    def post(p):
        if not api.returns(p) or not isinstance(p.value, ct.CT) or p.value.shape != (Dv,):
            return False
        g, out = p.ghost, p.value
        keep = [g["mask"].a[t] for t in range(T)]
        some = z3.Or(keep)
        goals = []
        for d in range(Dv):
            o = ip.to_z3(out.a[d])
            lo = z3.And([z3.Or([z3.And(keep[t], g["v1"].a[t, d] <= o) for t in range(T)])])   # some kept value <= out
            hi = z3.And([z3.Or([z3.And(keep[t], g["v1"].a[t, d] >= o) for t in range(T)])])   # some kept value >= out
            goals.append(("convex.coord%d" % d, z3.Implies(some, z3.And(lo, hi))))
        goals.append(("blind", z3.Implies(some, z3.And([ip.to_z3(out.a[d]) == ip.to_z3(g["out2"].a[d]) for d in range(Dv)]))))
        return goals

    return VC("C20.S.convex_blind", name, M, "GlobalSoftAttention.forward", thunk, posts=[("masked_convex_combination", post)],
              twins=[("output_is_first_value", lambda p: ip.to_z3(p.value.a[0]) == p.ghost["v1"].a[0, 0] if api.returns(p) else None)] if T > 1 else [],
              inputs={}, timeout_ms=60000,
              assumptions=["softmax contract (vf/pyvc/ctensor.py::f_softmax): weights >= 0, sum to 1 when some score is finite, 0 at -inf scores, a function of finite scores and the -inf pattern",
                           "float arithmetic treated as real arithmetic (0 * finite = 0; inf/NaN replacement values are outside the claim)", "sequence dimension 0, un-batched query (shapes bounded)"])


def vcs(ctx):
    out = []
    for kind in ("dot", "general"):
        for (T, D, Dv) in ([(1, 1, 1), (2, 1, 1), (2, 2, 1), (3, 1, 2)] if ctx.quick else [(1, 1, 1), (2, 1, 1), (2, 2, 2), (3, 2, 2), (4, 1, 1)]):
            out.append(attn_vc(kind, T, D, Dv))
    return out
