"""C07 - bounded run-time contracts (engine B) for sequence log-probs, the random walk, the
distribution wrapper and greedy CTC decoding.

Every checker calls the REAL pydrobert.torch function/class on a tensor built from a small JSON case
and compares with an oracle written from the property text in plain Python (lists, math.*, no torch in
the oracle apart from reading the real function's result back with .tolist()).

Readings of the property text (author's reading, see DESIGN.md par. 5.8):
  * "sequence log-probability": for one token sequence w_0..w_{T-1} and its score rows l_0..l_{T-1},
    sum over t <= (index of the first w_t == eos, or T-1 when there is none / eos is unset) of
    log_softmax(l_t)[w_t], where positions with w_t outside [0, V) contribute nothing (an
    out-of-vocabulary eos still ends the sequence).
  * "identically for padded and packed input": a packed score sequence of lengths L_b gives, for
    element b, the same definition applied to w_{b,0..L_b-1} (whatever the hyp tensor holds beyond
    L_b), for either layout of hyp and any legal (also negative) sequence dimension.
  * "ends at its first end-of-sequence or at the step limit": y[:y_lens[n], n] has no eos before its
    last position, and either its last token is eos or y_lens[n] == max_iters; the walk's first
    dimension is max_n y_lens[n] (the walk stops when every path has ended).
  * "that definition applied to the model's outputs": the real sequence_log_probs applied to
    lm(y[:-1]) and y; additionally compared with the plain-Python definition applied to the test
    model's table.
  * greedy CTC: labels = frame-wise argmax over the first in_lens[n] frames, consecutive repeats
    merged, then blanks removed; score = sum of log_softmax maxima (product of the given
    probabilities when is_probs) over those frames.
Test language model ("table LM"): a stateful SequentialLanguageModel whose scores are a
pseudo-random integer-hash function of (seed, conditioning id of the batch element, rolling hash of
the whole history). The rolling hash is threaded through `prev` like an RNN state, the conditioning
id comes in through `initial_state`, so a walk/wrapper that drops the state, mixes batch elements
or re-scores with the wrong history changes the numbers. The oracle evaluates the same table
function from the path alone in Python.
Forced-choice sampler: torch.multinomial is replaced (inside the worker process, restored
afterwards) by a sampler that returns a prescribed token stream, falling back to the first token of
positive probability when the prescribed one has probability zero (so it is a legal sampler). That
visits every walk of the bounded tree instead of a random subset; seeded runs of the real sampler
are added on top.
"""
import itertools
import math
import random

NINF = float("-inf")
_P = 2147483647


# ---------------------------------------------------------------------------------------------
# plain-Python helpers (oracle side)


def _mix(seed, a, b, c):
    x = (seed * 1000003 + a * 7919 + b * 104729 + c * 1299709 + 12345) % _P
    x = (x * x + 1013904223) % _P
    x = (x * 48271 + a + 3 * b + 7 * c) % _P
    return x


def _val(seed, a, b, c):
    """pseudo-random float in [-2, 2)"""
    return _mix(seed, a, b, c) / _P * 4.0 - 2.0


def _log_softmax(row):
    fin = [x for x in row if x != NINF]
    if not fin:
        return [float("nan")] * len(row)
    m = max(fin)
    lse = m + math.log(sum(math.exp(x - m) for x in fin))
    return [x - lse if x != NINF else NINF for x in row]


def _close(a, b, tol=1e-4):
    if isinstance(a, (list, tuple)):
        return isinstance(b, (list, tuple)) and len(a) == len(b) and all(_close(x, y, tol) for x, y in zip(a, b))
    if a != a or b != b:
        return False
    if a in (NINF, -NINF) or b in (NINF, -NINF):
        return a == b
    return abs(a - b) <= tol * (1.0 + abs(b))


def _seq_lp(rows, toks, eos):
    """the property's definition for one sequence. rows[t]: list of V raw scores; toks[t]: int"""
    s = 0.0
    for row, w in zip(rows, toks):
        if 0 <= w < len(row):
            s += _log_softmax(row)[w]
        if eos is not None and w == eos:
            break
    return s


def _digits(i, base, n):
    out = []
    for _ in range(n):
        out.append(i % base)
        i //= base
    return out[::-1]


def _prod(xs):
    p = 1
    for x in xs:
        p *= x
    return p


def _torch():
    import warnings

    warnings.simplefilter("ignore")
    import torch

    return torch


# ---------------------------------------------------------------------------------------------
# C07.slp.tensor


def _slp_scores(case, j, t, V):
    """raw score row of sequence j at step t"""
    row = [_val(case["seed"], j, t, v) for v in range(V)]
    if case.get("ninf") and V > 1:
        k = _mix(case["seed"] + 17, j, t, 0) % (V + 1)  # which class (if any) gets -inf
        if k < V:
            row[k] = NINF
    return row


def check_slp_tensor(case):
    """case: {T, V, eos, lead: sizes of the non-time dims, dim, start, seed, ninf, f64}
    hyp holds prod(lead) sequences over the alphabet {-1, 0..V} (-1 and V are out of vocabulary):
    sequence j is number (start + j) mod (V+2)^T in base-(V+2) order; the time axis is inserted at
    position `dim` (mod rank)."""
    torch = _torch()
    from pydrobert.torch.functional import sequence_log_probs
    from pydrobert.torch.modules import SequenceLogProbabilities

    T, V, eos, lead, dim = case["T"], case["V"], case["eos"], list(case["lead"]), case["dim"]
    K = V + 2
    rank = len(lead) + 1
    pdim = dim % rank
    count = _prod(lead)
    seqs = [[d - 1 for d in _digits((case["start"] + j) % (K ** T), K, T)] for j in range(count)]
    rows = [[_slp_scores(case, j, t, V) for t in range(T)] for j in range(count)]
    dt = torch.float64 if case.get("f64") else torch.float32
    # canonical layout (lead..., T[, V]) then move the time axis to pdim
    hyp = torch.tensor([w for s in seqs for w in s], dtype=torch.long).view(*(lead + [T]))
    logits = torch.tensor([x for r in rows for rt in r for x in rt], dtype=dt).view(*(lead + [T, V]))
    hyp = hyp.movedim(rank - 1, pdim).contiguous()
    logits = logits.movedim(rank - 1, pdim).contiguous()
    if case.get("module"):
        got = SequenceLogProbabilities(dim, eos)(logits, hyp)
    else:
        got = sequence_log_probs(logits, hyp, dim, eos)
    if list(got.shape) != lead:
        return "result shape %s, expected %s" % (list(got.shape), lead)
    got = got.reshape(-1).tolist()
    for j in range(count):
        want = _seq_lp(rows[j], seqs[j], eos)
        if not _close(got[j], want):
            return "sequence %d tokens %s eos %s: got %r, definition gives %r" % (j, seqs[j], eos, got[j], want)
    return None


def _leads(rank, quick):
    if rank == 1:
        return [[]]
    if rank == 2:
        return [[4]]
    if rank == 3:
        return [[2, 3]]
    return [[2, 1, 2]]


def cases_slp_tensor(ctx):
    vmax, tmax = (2, 3) if ctx.quick else (3, 4)
    sd = 0
    for V in range(1, vmax + 1):
        K = V + 2
        for T in range(0, tmax + 1):
            nseq = K ** T
            for eos in [None, -1] + list(range(V + 1)):
                if T == 0 and eos is not None:
                    continue  # C01.lens.empty_dim (known defect of _lens_from_eos, recorded under C01)
                for rank in (1, 2, 3, 4):
                    for lead in _leads(rank, ctx.quick):
                        cnt = _prod(lead)
                        for dim in range(-rank, rank):
                            for start in range(0, nseq, cnt):
                                sd += 1
                                yield {"T": T, "V": V, "eos": eos, "lead": lead, "dim": dim, "start": start,
                                       "seed": ctx.seed * 7919 + sd, "ninf": sd % 3 == 0, "f64": sd % 2 == 0,
                                       "module": sd % 5 == 0}
    if not ctx.quick:
        rng = random.Random(ctx.seed + 707)
        for i in range(4000):
            V = rng.randint(1, 6)
            T = rng.randint(1, 9)
            rank = rng.randint(1, 4)
            lead = [rng.randint(1, 3) for _ in range(rank - 1)]
            yield {"T": T, "V": V, "eos": rng.choice([None, -1, V] + list(range(V))), "lead": lead,
                   "dim": rng.randint(-rank, rank - 1), "start": rng.randrange((V + 2) ** T), "seed": ctx.seed * 31 + i,
                   "ninf": rng.random() < 0.3, "f64": rng.random() < 0.5, "module": rng.random() < 0.2}


# ---------------------------------------------------------------------------------------------
# C07.slp.packed / C07.slp.packed_eos


def check_slp_packed(case):
    """case: {lens: valid length per batch element (>=1), V, dim in {0,1,-1,-2}, enforce_sorted, extra: padding
    steps of hyp beyond max(lens), start, seed, eos}. Element b's valid tokens are sequence number
    (start + b) mod (V+2)^lens[b] over {-1..V}; beyond lens[b] hyp holds in-vocabulary filler that must not count."""
    torch = _torch()
    from torch.nn.utils.rnn import pack_padded_sequence
    from pydrobert.torch.functional import sequence_log_probs

    lens, V, dim, eos = list(case["lens"]), case["V"], case["dim"], case.get("eos")
    K, B = V + 2, len(lens)
    Tl, Th = max(lens), max(lens) + case.get("extra", 0)
    seqs = [[d - 1 for d in _digits((case["start"] + b) % (K ** lens[b]), K, lens[b])] for b in range(B)]
    rows = [[[_val(case["seed"], b, t, v) for v in range(V)] for t in range(Tl)] for b in range(B)]
    hyp = [[seqs[b][t] if t < lens[b] else _mix(case["seed"], b, t, 99) % V for t in range(Th)] for b in range(B)]
    logits = torch.tensor(rows, dtype=torch.float32)  # (B, Tl, V)
    hyp = torch.tensor(hyp, dtype=torch.long)  # (B, Th)
    batch_first = dim % 2 == 1
    if not batch_first:
        logits, hyp = logits.transpose(0, 1).contiguous(), hyp.t().contiguous()
    ps = pack_padded_sequence(logits, torch.tensor(lens), batch_first=batch_first, enforce_sorted=case["enforce_sorted"])
    got = sequence_log_probs(ps, hyp, dim, eos)
    if list(got.shape) != [B]:
        return "result shape %s, expected [%d]" % (list(got.shape), B)
    got = got.tolist()
    for b in range(B):
        want = _seq_lp(rows[b][: lens[b]], seqs[b], eos)
        if not _close(got[b], want):
            return "element %d valid tokens %s (len %d) eos %s: packed input gives %r, definition gives %r" % (
                b, seqs[b], lens[b], eos, got[b], want)
    # "identically": the padded call on the same data with the invalid tail marked out-of-vocabulary
    pad = torch.tensor([[seqs[b][t] if t < lens[b] else -1 for t in range(Tl)] for b in range(B)], dtype=torch.long)
    padded = sequence_log_probs(torch.tensor(rows, dtype=torch.float32), pad, 1, eos).tolist()
    if not _close(got, padded):
        return "packed %r differs from padded %r" % (got, padded)
    return None


def _len_patterns(bmax, tmax):
    for B in range(1, bmax + 1):
        for lens in itertools.product(range(1, tmax + 1), repeat=B):
            yield list(lens)


def _cases_packed(ctx, with_eos):
    vmax, bmax, tmax = (2, 3, 3) if ctx.quick else (2, 3, 4)
    sd = 0
    for V in range(1, vmax + 1):
        K = V + 2
        for lens in _len_patterns(bmax, tmax):
            is_sorted = all(a >= b for a, b in zip(lens, lens[1:]))
            nchunk = K ** max(lens)
            for start in range(nchunk):
                for dim in ((0, 1) if with_eos else (0, 1, -1, -2)):
                    for es in ((sd % 2 == 0,) if with_eos else (False, True)):
                        if es and not is_sorted:
                            continue
                        for eos in (([-1] + list(range(V + 1))) if with_eos else [None]):
                            sd += 1
                            yield {"lens": lens, "V": V, "dim": dim, "enforce_sorted": es, "extra": sd % 2, "start": start,
                                   "seed": ctx.seed * 7919 + sd, "eos": eos}
    if not ctx.quick:
        rng = random.Random(ctx.seed + (909 if with_eos else 808))
        for i in range(3000):
            V = rng.randint(1, 5)
            B = rng.randint(1, 6)
            lens = [rng.randint(1, 7) for _ in range(B)]
            es = rng.random() < 0.3
            if es:
                lens.sort(reverse=True)
            yield {"lens": lens, "V": V, "dim": rng.choice((0, 1) if with_eos else (0, 1, -1, -2)), "enforce_sorted": es,
                   "extra": rng.randint(0, 2), "start": rng.randrange((V + 2) ** max(lens)), "seed": ctx.seed * 31 + i,
                   "eos": rng.choice([-1] + list(range(V + 1))) if with_eos else None}


def _eos_inside(case):
    """some element has its first eos before its last valid position (where 'eos ignored' is visible)"""
    K, eos = case["V"] + 2, case.get("eos")
    if eos is None:
        return False
    for b, L in enumerate(case["lens"]):
        s = [d - 1 for d in _digits((case["start"] + b) % (K ** L), K, L)]
        if eos in s[:-1]:
            return True
    return False


# ---------------------------------------------------------------------------------------------
# C07.greedy.post


def check_greedy(case):
    """case: {T, V (classes incl. blank), blank, batch_first, is_probs, paths: per element the frame-wise best
    label of every frame (length T), lens: per element valid length or None (in_lens not passed), seed, module}"""
    torch = _torch()
    from pydrobert.torch.functional import ctc_greedy_search
    from pydrobert.torch.modules import CTCGreedySearch

    T, V, blank = case["T"], case["V"], case["blank"]
    paths, lens = case["paths"], case["lens"]
    N = len(paths)
    raw = [[[_val(case["seed"], n, t, v) * 0.5 + (3.0 if v == paths[n][t] else 0.0) for v in range(V)] for t in range(T)] for n in range(N)]
    norm = [[_log_softmax(r) for r in e] for e in raw]
    if case["is_probs"]:
        inp = [[[math.exp(x) for x in r] for r in e] for e in norm]
    else:
        inp = raw
    x = torch.tensor(inp, dtype=torch.float32).view(N, T, V)
    if not case["batch_first"]:
        x = x.transpose(0, 1).contiguous()
    in_lens = None if lens is None else torch.tensor(lens, dtype=torch.long)
    if case.get("module"):
        mx, out, out_lens = CTCGreedySearch(blank, case["batch_first"], case["is_probs"])(x, in_lens)
    else:
        mx, out, out_lens = ctc_greedy_search(x, in_lens, blank, case["batch_first"], case["is_probs"])
    if list(mx.shape) != [N] or list(out_lens.shape) != [N]:
        return "score/length shapes %s %s, expected [%d]" % (list(mx.shape), list(out_lens.shape), N)
    want_shape = [N, T] if case["batch_first"] else [T, N]
    if list(out.shape) != want_shape:
        return "paths shape %s, expected %s" % (list(out.shape), want_shape)
    if not case["batch_first"]:
        out = out.t()
    out, mx, out_lens = out.tolist(), mx.tolist(), out_lens.tolist()
    b = blank % V
    for n in range(N):
        L = T if lens is None else lens[n]
        best = []
        score = 1.0 if case["is_probs"] else 0.0
        for t in range(L):
            r = norm[n][t]
            a = max(range(V), key=lambda v: r[v])
            best.append(a)
            if case["is_probs"]:
                score *= math.exp(r[a])
            else:
                score += r[a]
        red = [a for i, a in enumerate(best) if (i == 0 or a != best[i - 1]) and a != b]
        if out_lens[n] != len(red):
            return "element %d best %s blank %d: out_lens %d, expected %d" % (n, best, b, out_lens[n], len(red))
        if out[n][: len(red)] != red:
            return "element %d best %s blank %d: labels %s, expected %s" % (n, best, b, out[n][: len(red)], red)
        if not _close(mx[n], score):
            return "element %d best %s valid %d: score %r, expected %r" % (n, best, L, mx[n], score)
    return None


def cases_greedy(ctx):
    vmax, tmax, nb = (3, 3, 4) if ctx.quick else (4, 4, 4)
    sd = 0
    for V in range(1, vmax + 1):
        for T in range(0, tmax + 1):
            pairs = [(list(p), L) for p in itertools.product(range(V), repeat=T) for L in range(T + 1)]
            for blank in range(-V, V):
                for bf in (False, True):
                    for ip in (False, True):
                        for i in range(0, len(pairs), nb):
                            grp = pairs[i:i + nb]
                            sd += 1
                            yield {"T": T, "V": V, "blank": blank, "batch_first": bf, "is_probs": ip, "paths": [g[0] for g in grp],
                                   "lens": [g[1] for g in grp], "seed": ctx.seed * 7919 + sd, "module": sd % 4 == 0}
                        # in_lens not given: every frame valid
                        allp = [list(p) for p in itertools.product(range(V), repeat=T)]
                        for i in range(0, len(allp), nb):
                            sd += 1
                            yield {"T": T, "V": V, "blank": blank, "batch_first": bf, "is_probs": ip, "paths": allp[i:i + nb], "lens": None,
                                   "seed": ctx.seed * 7919 + sd, "module": sd % 4 == 0}
    if not ctx.quick:
        rng = random.Random(ctx.seed + 1001)
        for i in range(4000):
            V, T, N = rng.randint(1, 6), rng.randint(0, 10), rng.randint(1, 5)
            yield {"T": T, "V": V, "blank": rng.randint(-V, V - 1), "batch_first": rng.random() < 0.5, "is_probs": rng.random() < 0.5,
                   "paths": [[rng.randrange(V) for _ in range(T)] for _ in range(N)],
                   "lens": None if rng.random() < 0.2 else [rng.randint(0, T) for _ in range(N)], "seed": ctx.seed * 31 + i, "module": rng.random() < 0.25}


# ---------------------------------------------------------------------------------------------
# table LM (test input), forced sampler, walk oracle

_HMOD = 8191


def _lm_row(spec, cond, h):
    """raw scores of the table LM for conditioning id `cond` and history hash `h` (plain Python)"""
    V = spec["V"]
    row = []
    for v in range(V):
        x = _mix(spec["seed"], cond, h, v)
        if spec.get("ninf") and x % 3 == 0 and v != (h + cond) % V:
            row.append(NINF)
        else:
            row.append(x / _P * 4.0 - 2.0)
    return row


def _hash_step(h, tok, V):
    return (h * (V + 1) + tok + 1) % _HMOD


def _path_rows(spec, cond, toks):
    """score rows the model assigns before each token of the path"""
    rows, h = [], 0
    for w in toks:
        rows.append(_lm_row(spec, cond, h))
        h = _hash_step(h, w, spec["V"])
    return rows


def _path_lp(spec, cond, toks, eos):
    return _seq_lp(_path_rows(spec, cond, toks), toks, eos)


def _make_lm(spec):
    torch = _torch()
    from pydrobert.torch.modules import SequentialLanguageModel

    V, seed, ninf = spec["V"], spec["seed"], bool(spec.get("ninf"))

    class TableLM(SequentialLanguageModel):
        def update_input(self, prev, hist):
            if "h" in prev:
                return prev
            prev = dict(prev)
            prev["h"] = torch.zeros(hist.size(1), dtype=torch.long)
            if "cond" not in prev:
                prev["cond"] = torch.zeros(1, dtype=torch.long)
            return prev

        def calc_idx_log_probs(self, hist, prev, idx):
            h, i = prev["h"], int(idx)
            if i > 0:
                h = (h * (V + 1) + hist[i - 1].long() + 1) % _HMOD
            c = prev["cond"].expand_as(h).unsqueeze(1)
            hh = h.unsqueeze(1)
            v = torch.arange(V).unsqueeze(0)
            x = (seed * 1000003 + c * 7919 + hh * 104729 + v * 1299709 + 12345) % _P
            x = (x * x + 1013904223) % _P
            x = (x * 48271 + c + 3 * hh + 7 * v) % _P
            out = (x.double() / _P * 4.0 - 2.0).float()
            if ninf:
                out = out.masked_fill((x % 3 == 0) & (v != (hh + c) % V), NINF)
            return out, {"h": h, "cond": prev["cond"]}

    return TableLM(V)


class _Forced:
    """legal sampler following a prescribed token stream (see module docstring)"""

    def __init__(self, stream, tail):
        self.stream, self.tail, self.k = stream, tail, 0
        self.bad = None

    def __call__(self, probs, num_samples, replacement=False, **kw):
        torch = _torch()
        N = probs.size(0)
        row = self.stream[self.k] if self.k < len(self.stream) else [self.tail]
        self.k += 1
        pl = probs.tolist()
        out = []
        for n in range(N):
            p = pl[n]
            if self.bad is None and (any(not (q >= 0.0) for q in p) or not (sum(p) > 0.0)):
                self.bad = "sampler was handed an invalid weight row %r" % (p,)
            tok = row[n % len(row)]
            if not (p[tok] > 0.0):
                tok = next((v for v, q in enumerate(p) if q > 0.0), 0)
            out.append([tok])
        return torch.tensor(out, dtype=torch.long)


class _patched_multinomial:
    def __init__(self, forced):
        self.forced = forced

    def __enter__(self):
        torch = _torch()
        self.saved = torch.multinomial
        if self.forced is not None:
            torch.multinomial = self.forced
        return self

    def __exit__(self, *a):
        _torch().multinomial = self.saved
        return False


def _sim_walk(spec, conds, eos, limit, forced_state):
    """oracle: the paths a walk must produce for the forced stream. forced_state = [stream, tail, k]; consumes one
    stream row per step like the real walk (one sampler call per step while some path is alive)."""
    stream, tail, _ = forced_state
    N = len(conds)
    paths = [[] for _ in range(N)]
    hs = [0] * N
    done = [False] * N
    t = 0
    while (limit is None or t < limit) and not all(done):
        k = forced_state[2]
        row = stream[k] if k < len(stream) else [tail]
        forced_state[2] = k + 1
        for n in range(N):
            if done[n]:
                continue
            tok = row[n % len(row)]
            r = _lm_row(spec, conds[n], hs[n])
            if r[tok] == NINF:
                tok = next(v for v, q in enumerate(r) if q != NINF)
            paths[n].append(tok)
            hs[n] = _hash_step(hs[n], tok, spec["V"])
            if eos is not None and tok == eos:
                done[n] = True
        t += 1
    return paths


def _walk_run(case):
    """runs the real walk once; returns (error message or None, dict of observations)
    case: {V, eos (as given to RandomWalk, may be negative), max_iters (None = unset), N (None = no batch dim),
           lm: {seed, ninf}, stream: rows of forced tokens or None (real sampler, torch seed = case seed), tail, seed, dist: flat|batch}"""
    torch = _torch()
    from pydrobert.torch.modules import RandomWalk

    V, eos_arg, m, N = case["V"], case["eos"], case["max_iters"], case["N"]
    spec = {"V": V, "seed": case["lm"]["seed"], "ninf": case["lm"].get("ninf", False)}
    eos = None if eos_arg is None else eos_arg % V
    Nn = 1 if N is None else N
    conds = list(range(Nn))
    lm = _make_lm(spec)
    walk = RandomWalk(lm, eos_arg)
    init = {"cond": torch.tensor(conds, dtype=torch.long)}
    forced = None if case["stream"] is None else _Forced(case["stream"], case["tail"])
    torch.manual_seed(case["seed"])
    with _patched_multinomial(forced):
        y, y_lens, lp = walk(dict(init), N, m)
    obs = {"spec": spec, "eos": eos, "conds": conds, "walk": walk, "init": init, "lm": lm, "forced": forced}
    want_dims = (1, 0, 0) if N is None else (2, 1, 1)
    if (y.dim(), y_lens.dim(), lp.dim()) != want_dims:
        return "result ranks %s, expected %s" % ((y.dim(), y_lens.dim(), lp.dim()), want_dims), obs
    if N is None:
        y, y_lens, lp = y.unsqueeze(1), y_lens.unsqueeze(0), lp.unsqueeze(0)
    if y.size(1) != Nn or y_lens.size(0) != Nn or lp.size(0) != Nn:
        return "batch sizes %s/%s/%s, expected %d" % (y.size(1), y_lens.size(0), lp.size(0), Nn), obs
    obs.update(y=y, lens=y_lens.tolist(), lp=lp.tolist(), cols=y.t().tolist())
    return None, obs


def check_walk_ends(case):
    err, o = _walk_run(case)
    if err:
        return err
    eos, m, S = o["eos"], case["max_iters"], o["y"].size(0)
    if o["forced"] is not None and o["forced"].bad:
        return o["forced"].bad
    if m is not None and S > m:
        return "walk took %d steps, limit %d" % (S, m)
    for n, (col, L) in enumerate(zip(o["cols"], o["lens"])):
        if not 0 <= L <= S:
            return "path %d: y_lens %d outside [0, %d]" % (n, L, S)
        p = col[:L]
        if any(not 0 <= w < case["V"] for w in p):
            return "path %d: out-of-vocabulary token in %s" % (n, p)
        if eos is not None and eos in p[:-1]:
            return "path %d = %s continues past its first eos %d" % (n, p, eos)
        ended = eos is not None and L > 0 and p[-1] == eos
        if not ended and L != m:
            return "path %d = %s (y_lens %d) ends neither at an eos (%s) nor at the step limit %s" % (n, p, L, eos, m)
    if S != max(o["lens"]):
        return "walk has %d steps but the longest path has %d" % (S, max(o["lens"]))
    if case["stream"] is not None:
        want = _sim_walk(o["spec"], o["conds"], eos, m, [case["stream"], case["tail"], 0])
        got = [col[:L] for col, L in zip(o["cols"], o["lens"])]
        if got != want:
            return "forced stream %s: paths %s, expected %s" % (case["stream"], got, want)
    return None


def check_walk_logprob(case):
    torch = _torch()
    from pydrobert.torch.functional import sequence_log_probs
    from pydrobert.torch.distributions import SequentialLanguageModelDistribution

    err, o = _walk_run(case)
    if err:
        return err
    eos, m = o["eos"], case["max_iters"]
    paths = [col[:L] for col, L in zip(o["cols"], o["lens"])]
    want = [_path_lp(o["spec"], c, p, eos) for c, p in zip(o["conds"], paths)]
    if not _close(o["lp"], want):
        return "paths %s: reported log-probs %r, definition on the table gives %r" % (paths, o["lp"], want)
    y = o["y"]
    if y.size(0) == 0:
        return None
    # the definition (real sequence_log_probs) applied to the model's outputs
    logits = o["lm"](y[:-1], dict(o["init"]))
    slp = sequence_log_probs(logits, y, 0, eos).tolist()
    if not _close(slp, o["lp"]):
        return "paths %s: reported %r, sequence_log_probs of the model's outputs %r" % (paths, o["lp"], slp)
    # the wrapper's log-probability of the same paths (2-D value: one sample dimension; validate off, see C07.dist.rescore)
    Nn = len(paths)
    if case.get("dist") == "batch":
        d = SequentialLanguageModelDistribution(o["walk"], Nn, dict(o["init"]), m, validate_args=False)
        dl = d.log_prob(y.t().unsqueeze(0))
        if list(dl.shape) != [1, Nn]:
            return "wrapper log_prob shape %s, expected [1, %d]" % (list(dl.shape), Nn)
        dl = dl[0].tolist()
    else:
        d = SequentialLanguageModelDistribution(o["walk"], None, dict(o["init"]), m, validate_args=False)
        dl = d.log_prob(y.t())
        if list(dl.shape) != [Nn]:
            return "wrapper log_prob shape %s, expected [%d]" % (list(dl.shape), Nn)
        dl = dl.tolist()
    if not _close(dl, o["lp"]):
        return "paths %s: reported %r, wrapper log_prob %r" % (paths, o["lp"], dl)
    return None


def _eos_opts(V):
    return [None] + list(range(V)) + [-1]


def cases_walk(ctx):
    vmax, mmax = (3, 3) if ctx.quick else (3, 4)
    sd = 0

    def mk(V, eos, m, N, stream, ninf=False):
        nonlocal sd
        sd += 1
        return {"V": V, "eos": eos, "max_iters": m, "N": N, "lm": {"seed": ctx.seed * 101 + sd % 7, "ninf": ninf}, "stream": stream,
                "tail": 0 if eos is None else eos % V, "seed": ctx.seed * 7919 + sd, "dist": "batch" if sd % 2 else "flat"}

    for V in range(1, vmax + 1):
        for m in range(1, mmax + 1):
            plans = [list(p) for p in itertools.product(range(V), repeat=m)]
            for eos in _eos_opts(V):
                # one path (with and without a batch dimension): every forced walk of the tree
                for p in plans:
                    for N in (None, 1):
                        yield mk(V, eos, m, N, [[w] for w in p])
                    if V > 1:
                        yield mk(V, eos, m, 1, [[w] for w in p], ninf=True)
                # two paths: every pair of forced walks (trees up to 9 leaves quick / 27 thorough; beyond that three partners per walk)
                if len(plans) <= (9 if ctx.quick else 27):
                    pairs = itertools.product(plans, plans)
                else:
                    pairs = ((plans[i], plans[(i * 7 + j) % len(plans)]) for i in range(len(plans)) for j in (0, 1, 5))
                for p, q in pairs:
                    yield mk(V, eos, m, 2, [[a, b] for a, b in zip(p, q)])
                # three paths: consecutive triples in two rotations
                for i in range(len(plans)):
                    for r in (1, 4):
                        tri = [plans[i], plans[(i + r) % len(plans)], plans[(i + 2 * r + 1) % len(plans)]]
                        yield mk(V, eos, m, 3, [list(ws) for ws in zip(*tri)], ninf=(i + r) % 3 == 0 and V > 1)
                # step limit unset (eos must be set): forced prefix then eos
                if eos is not None:
                    for p in plans:
                        for N in (None, 2):
                            yield mk(V, eos, None, N, [[w, (w + 1) % V] for w in p])
                # the real sampler
                for s in range(4 if ctx.quick else 16):
                    for N in (None, 1, 3):
                        yield mk(V, eos, m, N, None, ninf=s % 4 == 3 and V > 1)
                    if eos is not None:
                        yield mk(V, eos, None, 2, None)
    if not ctx.quick:
        rng = random.Random(ctx.seed + 1203)
        for i in range(3000):
            V, m, N = rng.randint(1, 5), rng.randint(1, 8), rng.choice([None, 1, 2, 3, 5])
            eos = rng.choice(_eos_opts(V))
            stream = None if rng.random() < 0.3 else [[rng.randrange(V) for _ in range(N or 1)] for _ in range(m)]
            yield mk(V, eos, m if (eos is None or rng.random() < 0.8) else None, N, stream, ninf=V > 1 and rng.random() < 0.2 and True)


def _fix_ninf(c):
    # -inf scores only with a step limit (termination of the forced walk needs eos to be reachable)
    if c["max_iters"] is None:
        c["lm"]["ninf"] = False
    return c


# ---------------------------------------------------------------------------------------------
# C07.dist.*


def _support_set(V, m, eos):
    out = set()
    for p in itertools.product(range(V), repeat=m):
        p = list(p)
        if eos is not None and eos in p:
            i = p.index(eos)
            p = p[: i + 1] + [eos] * (m - i - 1)
        out.add(tuple(p))
    return out


def _mk_dist(case, validate=False, cache=False):
    torch = _torch()
    from pydrobert.torch.modules import RandomWalk
    from pydrobert.torch.distributions import SequentialLanguageModelDistribution

    V, B = case["V"], case["batch"]
    spec = {"V": V, "seed": case["lm"]["seed"], "ninf": case["lm"].get("ninf", False)}
    walk = RandomWalk(_make_lm(spec), case["eos"])
    init = None if B is None else {"cond": torch.arange(B)}
    d = SequentialLanguageModelDistribution(walk, B, init, case["max_iters"], cache_samples=cache, validate_args=validate)
    return d, spec, (None if case["eos"] is None else case["eos"] % V)


def check_dist_support(case):
    """case: {V, eos, max_iters >= 1, batch (None or N: conditioning ids 0..N-1), lm: {seed, ninf}, validate}"""
    torch = _torch()
    d, spec, eos = _mk_dist(case, validate=case.get("validate"))
    V, m, B = case["V"], case["max_iters"], case["batch"]
    if not d.has_enumerate_support:
        return "has_enumerate_support is False with max_iters=%d" % m
    sup = d.enumerate_support()
    want = _support_set(V, m, eos)
    wshape = [len(want)] + ([] if B is None else [B]) + [m]
    if list(sup.shape) != wshape:
        return "support shape %s, expected %s" % (list(sup.shape), wshape)
    cols = [sup] if B is None else [sup[:, b] for b in range(B)]
    for b, col in enumerate(cols):
        rows = [tuple(int(w) for w in r) for r in col.tolist()]
        if len(set(rows)) != len(rows):
            return "support lists a sequence twice (batch column %d)" % b
        if set(rows) != want:
            return "support differs from the set of completed sequences: extra %s missing %s" % (sorted(set(rows) - want)[:3], sorted(want - set(rows))[:3])
    lp = d.log_prob(sup)
    if list(lp.shape) != wshape[:-1]:
        return "log_prob(support) shape %s, expected %s" % (list(lp.shape), wshape[:-1])
    lps = [lp.tolist()] if B is None else [lp[:, b].tolist() for b in range(B)]
    for b, (col, l) in enumerate(zip(cols, lps)):
        tot = sum(math.exp(x) for x in l)
        if not abs(tot - 1.0) <= 1e-4:
            return "probabilities over the support sum to %r (batch column %d)" % (tot, b)
        for r, x in zip(col.tolist(), l):
            w = _path_lp(spec, b, [int(t) for t in r], eos)
            if not _close(x, w):
                return "log_prob(%s) = %r for conditioning %d, definition gives %r" % (r, x, b, w)
    if B is not None:
        ne = d.enumerate_support(expand=False)
        if list(ne.shape) != [len(want), 1, m] or not bool((ne == sup[:, :1]).all()):
            return "enumerate_support(expand=False) is not the unexpanded support"
    return None


def cases_dist_support(ctx):
    vmax, mmax = (3, 4) if ctx.quick else (4, 5)
    sd = 0
    for V in range(1, vmax + 1):
        for m in range(1, mmax + 1):
            if V ** m > 1100:
                continue
            for eos in _eos_opts(V):
                for B in (None, 1, 2, 3):
                    for s in range(3 if ctx.quick else 8):
                        sd += 1
                        yield {"V": V, "eos": eos, "max_iters": m, "batch": B, "lm": {"seed": ctx.seed * 101 + s, "ninf": V > 1 and s % 3 == 2},
                               "validate": [False, True, None][sd % 3]}


def _sample_run(case, validate, cache):
    """draw one sample tensor of case['shape'] from the wrapper; returns (error, dist, spec, eos, sample, rows)
    rows: per flattened sample the (conditioning id, tokens) pair"""
    torch = _torch()
    d, spec, eos = _mk_dist(case, validate=validate, cache=cache)
    forced = None if case["stream"] is None else _Forced(case["stream"], case["tail"])
    torch.manual_seed(case["seed"])
    with _patched_multinomial(forced):
        smp = d.sample(torch.Size(case["shape"]))
    B = case["batch"]
    lead = list(case["shape"]) + ([] if B is None else [B])
    if list(smp.shape[:-1]) != lead or smp.dim() != len(lead) + 1:
        return "sample shape %s, expected %s + [S]" % (list(smp.shape), lead), d, spec, eos, smp, None
    flat = smp.reshape(-1, smp.size(-1)).tolist()
    rows = [((i % B) if B is not None else 0, [int(w) for w in r]) for i, r in enumerate(flat)]
    return None, d, spec, eos, smp, rows


def check_dist_sample(case):
    """case: {V, eos, max_iters (None = unset), batch, shape: sample shape, stream/tail/seed as for the walk, lm}"""
    err, d, spec, eos, smp, rows = _sample_run(case, False, False)
    if err:
        return err
    V, m, S = case["V"], case["max_iters"], smp.size(-1)
    if m is not None:
        if S > m or (eos is None and S != m):
            return "samples have %d steps with step limit %d, eos %s" % (S, m, eos)
        want = _support_set(V, m, eos)
        real = set(tuple(int(w) for w in r) for r in d.enumerate_support(expand=False).reshape(-1, m).tolist())
    for c, r in rows:
        if m is not None:
            full = tuple(r + [eos] * (m - S))
            if full not in want:
                return "sample %s (completed to %s) is not a completed sequence of the support" % (r, list(full))
            if full not in real:
                return "sample %s (completed to %s) is not in enumerate_support()" % (r, list(full))
        else:
            if eos not in r or any(w != eos for w in r[r.index(eos):]) or any(not 0 <= w < V for w in r):
                return "sample %s is not an eos-terminated (eos-padded) sequence" % (r,)
    if S > 0 and not bool(d.support.check(smp).all()):
        return "support.check rejects the wrapper's own sample %s" % (smp.tolist(),)
    if S > 0 and rows and eos is not None and all(eos in r[:-1] for _, r in rows):
        return "every sample ended before step %d yet the sample tensor has %d steps" % (S, S)
    if case["stream"] is not None:
        # forced stream: the samples are exactly the oracle's walks
        B = case["batch"]
        n = _prod(case["shape"])
        st = [case["stream"], case["tail"], 0]
        if B is None:
            paths = _sim_walk(spec, [0] * n, eos, m, st) if n else []
        else:
            paths = [p for _ in range(n) for p in _sim_walk(spec, list(range(B)), eos, m, st)]
        got = [r for _, r in rows]
        wantp = [p + [eos] * (S - len(p)) for p in paths]
        if got != wantp:
            return "forced stream: samples %s, expected %s" % (got, wantp)
    return None


def check_dist_rescore(case):
    """log_prob(sample(shape)) for the sample just drawn, default construction options unless the case says otherwise.
    case as for check_dist_sample plus {validate: None|True|False, cache: bool}"""
    err, d, spec, eos, smp, rows = _sample_run(case, case.get("validate"), case.get("cache", False))
    if err:
        return err
    if smp.size(-1) == 0:
        return None
    lp = d.log_prob(smp)
    if list(lp.shape) != list(smp.shape[:-1]):
        return "log_prob shape %s for a sample of shape %s" % (list(lp.shape), list(smp.shape))
    got = lp.reshape(-1).tolist()
    for (c, r), x in zip(rows, got):
        w = _path_lp(spec, c, r, eos)
        if not _close(x, w):
            return "log_prob of sample %s (conditioning %d) = %r, definition gives %r" % (r, c, x, w)
    if case.get("cache"):
        d.clear_cache()
        again = d.log_prob(smp).reshape(-1).tolist()
        if not _close(again, got):
            return "log_prob changes after clear_cache: %r vs %r" % (again, got)
    return None


_SHAPES = [[], [1], [2], [3], [2, 2], [1, 3], [2, 1, 2], [0], [2, 0]]


def cases_dist_sample(ctx, rescore=False):
    vmax, mmax = (3, 3) if ctx.quick else (3, 4)
    sd = 0

    def mk(V, eos, m, B, shape, stream, **kw):
        nonlocal sd
        sd += 1
        c = {"V": V, "eos": eos, "max_iters": m, "batch": B, "shape": shape, "stream": stream, "tail": 0 if eos is None else eos % V,
             "lm": {"seed": ctx.seed * 101 + sd % 5, "ninf": V > 1 and m is not None and sd % 4 == 0}, "seed": ctx.seed * 7919 + sd}
        if rescore:
            c["validate"] = [None, False, True][sd % 3]
            c["cache"] = sd % 2 == 0
        c.update(kw)
        return c

    for V in range(1, vmax + 1):
        for m in list(range(1, mmax + 1)) + [None]:
            for eos in _eos_opts(V):
                if m is None and eos is None:
                    continue
                mm = m or 3
                plans = [list(p) for p in itertools.product(range(V), repeat=mm)]
                for B in (None, 1, 2):
                    # a single draw: every forced walk
                    for p in plans:
                        yield mk(V, eos, m, B, [], [[w, (w + 1) % V] for w in p])
                    for shape in _SHAPES:
                        if rescore and _prod(shape) == 0:
                            continue
                        n = _prod(shape)
                        width = (B or 1) * (1 if B is not None else max(n, 1))
                        # forced pseudo-random streams and the real sampler
                        for s in range(2 if ctx.quick else 10):
                            rng = random.Random("%d/%d/%s/%d" % (ctx.seed, sd, shape, s))
                            rows = [[rng.randrange(V) for _ in range(width)] for _ in range(mm * max(n, 1) if B is not None else mm)]
                            yield mk(V, eos, m, B, shape, rows)
                        for s in range(1 if ctx.quick else 6):
                            yield mk(V, eos, m, B, shape, None)


# ---------------------------------------------------------------------------------------------

CHECKERS = {
    "C07.slp.tensor": check_slp_tensor,
    "C07.slp.packed": check_slp_packed,
    "C07.slp.packed_eos": check_slp_packed,
    "C07.greedy.post": check_greedy,
    "C07.walk.ends": check_walk_ends,
    "C07.walk.logprob": check_walk_logprob,
    "C07.dist.support": check_dist_support,
    "C07.dist.sample": check_dist_sample,
    "C07.dist.rescore": check_dist_rescore,
}



def _eos_visible(case):
    """some element has an in-vocabulary token after its first eos inside its valid length (only then does
    ignoring eos change the sum)"""
    K, V, eos = case["V"] + 2, case["V"], case.get("eos")
    if eos is None or V < 2:  # with one class every log-softmax value is 0
        return False
    for b, L in enumerate(case["lens"]):
        s = [d - 1 for d in _digits((case["start"] + b) % (K ** L), K, L)]
        if eos in s and any(0 <= w < V for w in s[s.index(eos) + 1:]):
            return True
    return False


def _rank_class(case):
    n = len(case["shape"])
    return n != 1 if case["batch"] is None else n == 0


def _short_sample(case, msg):
    import re

    mt = re.search(r"value of shape \(([^)]*)\) cannot broadcast", msg)
    if not mt or case.get("validate") is False or case["eos"] is None or case["max_iters"] is None:
        return False
    S = int([x for x in mt.group(1).replace(" ", "").split(",") if x][-1])
    return 1 < S < case["max_iters"]


FINDINGS = [
    {"id": "KF-C07-1", "property": "C07", "clause": "C07.slp.packed",
     "what": "sequence_log_probs with packed logits accepts a negative dim in its range check but never normalises it: 1 - dim indexes a non-existent axis (IndexError)",
     "class": "logits is a PackedSequence and dim < 0",
     "witness": {"lens": [1], "V": 1, "dim": -2, "enforce_sorted": False, "extra": 0, "start": 0, "seed": 1, "eos": None}},
    {"id": "KF-C07-2", "property": "C07", "clause": "C07.slp.packed_eos",
     "what": "sequence_log_probs ignores eos for packed logits (documented): tokens after the first eos inside the packed length are still summed, unlike the padded call",
     "class": "logits is a PackedSequence, eos is set, V >= 2 and some element has an in-vocabulary token after its first eos within its packed length",
     "witness": {"lens": [2], "V": 2, "dim": 0, "enforce_sorted": False, "extra": 0, "start": 6, "seed": 1, "eos": 0}},
    {"id": "KF-C07-3", "property": "C07", "clause": "C07.dist.rescore",
     "what": "SequentialLanguageModelDistribution.log_prob only handles values with exactly one sample dimension (flat) / at least one (batched): "
             "log_prob(sample()) and log_prob(sample([2, 2])) raise (value.T / flatten(end_dim=-3) on the wrong rank)",
     "class": "batch_size unset and len(sample_shape) != 1, or batch_size set and len(sample_shape) == 0",
     "witness": {"V": 1, "eos": None, "max_iters": 1, "batch": None, "shape": [], "stream": [[0]], "tail": 0, "lm": {"seed": 0, "ninf": False}, "seed": 1,
                 "validate": False, "cache": False}},
    {"id": "KF-C07-4", "property": "C07", "clause": "C07.dist.rescore",
     "what": "with argument validation on (the default) log_prob rejects the wrapper's own samples when every walk ended early: _validate_sample broadcasts the value "
             "against event_shape [max_iters], so a sample of 1 < S < max_iters steps raises ValueError",
     "class": "validate_args is not False, eos set, max_iters >= 3 and the sample tensor has 1 < S < max_iters steps",
     "witness": {"V": 2, "eos": 0, "max_iters": 3, "batch": None, "shape": [1], "stream": [[1], [0], [0]], "tail": 0, "lm": {"seed": 0, "ninf": False}, "seed": 1,
                 "validate": None, "cache": False}},
]
KNOWN_MATCH = {
    "KF-C07-1": lambda case, msg: case["dim"] < 0 and "IndexError: Dimension out of range" in msg,
    "KF-C07-2": lambda case, msg: _eos_visible(case) and "packed input gives" in msg,
    "KF-C07-3": lambda case, msg: _rank_class(case) and ("hist must be 2 dimensional" in msg or "IndexError: Dimension out of range" in msg),
    "KF-C07-4": _short_sample,
}


def run_bounded(ctx):
    ctx.known_match.update(KNOWN_MATCH)
    _torch()  # import torch and the library once, before the worker pools fork
    import pydrobert.torch.functional, pydrobert.torch.modules, pydrobert.torch.distributions  # noqa: F401,E401
    q = ctx.quick
    only = getattr(ctx, "only", None)

    def want(name):
        return not only or any(name.startswith(p) for p in only)

    if want("C07.slp.tensor"):
        ctx.bounded("C07.slp.tensor", check_slp_tensor, cases_slp_tensor(ctx),
                    bound="V<=%d classes, T<=%d steps (T=0 only with eos unset: C01.lens.empty_dim), EVERY token sequence over {-1,0..V} (-1, V out of vocabulary), "
                          "eos in {unset,-1,0..V}, hyp rank 1..4 (non-time dims [],[4],[2,3],[2,1,2]) with the time axis at every legal dim -rank..rank-1; "
                          "seeded scores (1/3 with -inf entries, float32/float64), functional and module%s" % (
                              (2, 3) + ("",) if q else (3, 4) + ("; plus 4000 seeded random cases V<=6, T<=9, rank<=4",)),
                    text="sequence_log_probs(tensor) == sum of log-softmax of in-vocabulary tokens up to and including the first eos (plain-Python definition), result shape = non-time dims",
                    nontrivial=lambda c: c["T"] >= 2 and c["eos"] is not None, chunk=128,
                    functions=["_decoding._sequence_log_probs_tensor", "_decoding.sequence_log_probs", "_string._lens_from_eos"])
    if want("C07.slp.packed"):
        ctx.bounded("C07.slp.packed", check_slp_packed, _cases_packed(ctx, False),
                    bound="eos unset; V<=2; EVERY length pattern lens in {1..%d}^B, B<=3; every valid token sequence over {-1..V} per element (elements cycle jointly); "
                          "dim in {0,1,-1,-2}; enforce_sorted both (sorted patterns); hyp 0/1 steps longer than the longest sequence, in-vocabulary filler beyond each length%s" % (
                              (3, "") if q else (4, "; plus 3000 seeded random cases V<=5, B<=6, lens<=7")),
                    text="sequence_log_probs(PackedSequence) == the definition on each element's valid tokens == the padded call with the tail marked out-of-vocabulary",
                    nontrivial=lambda c: len(set(c["lens"])) > 1, chunk=128,
                    functions=["_decoding._sequence_log_probs_ps", "_decoding.sequence_log_probs"])
    if want("C07.slp.packed_eos"):
        ctx.bounded("C07.slp.packed_eos", check_slp_packed, _cases_packed(ctx, True),
                    bound="as C07.slp.packed with eos in {-1,0..V}, dim in {0,1}, enforce_sorted alternating",
                    text="packed input with eos set: the sum stops at the first eos inside the valid length, as for padded input",
                    nontrivial=_eos_inside, chunk=128,
                    functions=["_decoding._sequence_log_probs_ps", "_decoding.sequence_log_probs"])
    if want("C07.greedy.post"):
        ctx.bounded("C07.greedy.post", check_greedy, cases_greedy(ctx),
                    bound="V<=%d classes incl. blank, T<=%d frames (incl. 0): EVERY frame-wise-best label sequence x EVERY valid length 0..T (and in_lens omitted), "
                          "every blank index -V..V-1, both layouts, log-scores and probabilities, batches of 4, functional and module; scores seeded, best label unique per frame%s" % (
                              (3, 3, "") if q else (4, 4, "; plus 4000 seeded random cases V<=6, T<=10, N<=5")),
                    text="ctc_greedy_search == argmax per valid frame, repeats merged then blanks dropped, out_lens = count, score = sum (product) of frame maxima in the valid length",
                    nontrivial=lambda c: c["T"] >= 2 and c["V"] >= 2, chunk=128,
                    functions=["_decoding.ctc_greedy_search", "_decoding.CTCGreedySearch.forward"])
    wb = ("V<=3, max_iters 1..%d (and unset with eos set), eos in {unset, every token, -1}, table LM (stateful hash, per-element conditioning, some with zero-probability tokens); "
          "forced sampler: EVERY walk of the tree for one path (with/without batch dim), every pair of walks for two paths (trees <= %d leaves, else 3 partners per walk), triples in two rotations; "
          "plus %d seeds of the real sampler per configuration%s" % ((3, 9, 4, "") if q else (4, 27, 16, "; plus 3000 seeded random cases V<=5, max_iters<=8, N<=5")))
    if want("C07.walk.ends"):
        ctx.bounded("C07.walk.ends", check_walk_ends, (_fix_ninf(c) for c in cases_walk(ctx)), bound=wb,
                    text="every path is in-vocabulary, ends at its first eos or at the step limit, y_lens counts the eos, the walk is as long as its longest path, "
                         "and under the forced sampler the paths are exactly the prescribed ones",
                    nontrivial=lambda c: c["N"] not in (None, 1) and c["eos"] is not None,
                    functions=["_decoding.RandomWalk.forward", "_decoding.random_walk_advance"])
    if want("C07.walk.logprob"):
        ctx.bounded("C07.walk.logprob", check_walk_logprob, (_fix_ninf(c) for c in cases_walk(ctx)), bound=wb,
                    text="reported log-prob == plain-Python definition on the table == sequence_log_probs(lm(y[:-1]), y, eos) == wrapper.log_prob(y) (flat and batched wrapper)",
                    nontrivial=lambda c: c["N"] not in (None, 1) and c["eos"] is not None,
                    functions=["_decoding.RandomWalk.forward", "_decoding.random_walk_advance", "_decoding.SequentialLanguageModelDistribution.log_prob"])
    if want("C07.dist.support"):
        ctx.bounded("C07.dist.support", check_dist_support, cases_dist_support(ctx),
                    bound="V<=%d, max_iters 1..%d (|V^m| <= 1100), eos in {unset, every token, -1}, batch in {none,1,2,3} with per-element conditioning, %d table seeds, validate_args off/on/default" % (
                        (3, 4, 3) if q else (4, 5, 8)),
                    text="enumerate_support == the set of completed sequences (no duplicates), exp(log_prob) sums to 1 per batch element, each log_prob == definition; expand=False",
                    nontrivial=lambda c: c["eos"] is not None and c["max_iters"] >= 2, chunk=8,
                    functions=["_decoding.SequentialLanguageModelDistribution.enumerate_support", "_decoding.SequentialLanguageModelDistribution.log_prob"])
    db = ("V<=3, max_iters 1..%d and unset, eos in {unset, every token, -1}, batch in {none,1,2}, sample shapes %s; forced sampler: every single draw of the tree, "
          "%d pseudo-random forced streams and %d real-sampler seeds per shape" % ((3, _SHAPES, 2, 1) if q else (4, _SHAPES, 10, 6)))
    if want("C07.dist.sample"):
        ctx.bounded("C07.dist.sample", check_dist_sample, cases_dist_sample(ctx), bound=db,
                    text="sample(shape) has shape shape+batch+[S]; every sample completed with eos is in the support (oracle set and enumerate_support); support.check accepts it; "
                         "forced sampler: samples are exactly the oracle's walks, stacked in order",
                    nontrivial=lambda c: _prod(c["shape"]) > 1 and c["eos"] is not None,
                    functions=["_decoding.SequentialLanguageModelDistribution.sample", "_decoding.TokenSequenceConstraint.check"])
    if want("C07.dist.rescore"):
        ctx.bounded("C07.dist.rescore", check_dist_rescore, cases_dist_sample(ctx, rescore=True), bound=db + " (non-empty shapes); validate_args default/off/on, cache_samples off/on",
                    text="log_prob(sample(shape)) has shape shape+batch and equals the definition on the table for every sample, with and without the sample cache",
                    nontrivial=lambda c: _prod(c["shape"]) > 1 and c["eos"] is not None,
                    functions=["_decoding.SequentialLanguageModelDistribution.sample", "_decoding.SequentialLanguageModelDistribution.log_prob",
                               "_decoding.SequentialLanguageModelDistribution._validate_sample"])
    ctx.replay_known_witnesses()
    ctx.not_applicable.append("C07: 'all language models' is reached only through the seeded table models (stateful, conditioned, with zero-probability tokens); "
                              "'all random seeds' through the forced-choice sampler (every walk of the bounded tree) plus a few real seeds")
    ctx.not_applicable.append("C07: ties between frame scores in greedy CTC (the property does not say which label wins); TorchScript/traced variants; CUDA")
    ctx.assume("floats compared with tolerance 1e-4*(1+|x|); +-inf compared exactly; NaN never accepted",
               "sequence_log_probs with a zero-length time dimension and eos set is C01.lens.empty_dim (same call site, _lens_from_eos) and is not enumerated here",
               "RandomWalk reaches torch.multinomial through the module attribute (plain Python at run time), so the forced-choice sampler sees every draw",
               "the table LM is test input: logits = integer hash of (seed, conditioning id, rolling history hash), evaluated identically by the torch module and the Python oracle")
