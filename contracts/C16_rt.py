"""C16 - bounded run-time contracts (engine B): a crash during an epoch update never loses the
last or best checkpoint.

Real functions under contract (pydrobert.torch.training.TrainingStateController), always reached
through the public calls a training script makes:
  update_for_epoch (persistence part), save_model_and_optimizer_with_info, save_info_to_hist,
  _clean_up_files, load_model_and_optimizer_for_epoch, load_model_for_epoch, update_cache,
  get_last_epoch, get_best_epoch, continue_training

How a process death is produced (nothing in /repo is edited).  While `update_for_epoch` runs, the
file-system mutators the controller can reach are replaced FROM OUTSIDE by counting wrappers:
  torch.save                       event "save"     (atomic: torn writes are out of scope)
  tempfile.NamedTemporaryFile      event "tmp"      (creates an empty temporary file)
  os.replace / os.rename           event "replace"  (atomic)
  os.remove / os.unlink            event "remove"
  os.makedirs                      event "mkdir"    (only when the directory does not exist yet)
  open(.., 'a'/'w'/'x') seen from the training module (module-global `open` injected):
                                   event "open"     (only when it creates or truncates a file)
                                   event "write"    one per write() of a text file (csv header / csv
                                                    row), flushed at once so that the disk holds
                                                    exactly the executed events
Cut (k, "before") raises `Crash` (a BaseException, so no library handler swallows it) instead of
executing the k-th event; cut (k, "after") executes it and raises on its return.  After the first
raise every further mutating call raises too (a dead process writes nothing).  The abandoned
controller, model and optimizer are dropped; everything afterwards is done by a fresh controller
on the same files.

Independent spec (from the property text, not from the implementation):
  * the training script is deterministic: after epoch e the model holds weight = (e(e+1)/2, -e) and
    the SGD momentum buffer holds b(e) = b(e-1)/2 + e, b(1) = 1; both depend on the state of
    epoch e-1, so resuming from a wrong checkpoint is visible in every later checkpoint.  Epoch 0 is
    the initial state (weight 0, no optimizer state).
  * last(n) = n; best(n) = the earliest epoch among 1..n with the smallest validation metric
    (metrics come from a grid the history file prints without loss).
  * file names are the format strings applied to the epoch.
  * "uninterrupted run" = the same script on the real controller with no injected fault (the
    property is relational); its history file text is the reference.
Checked after a crash: the history the fresh controller loads is a line-prefix of the reference
holding the crashed epoch or not; model+optimizer of the last recorded epoch and of the best epoch
load without error and are bit-identical to what the reference run held at those epochs and to the
closed form; with everything kept every recorded epoch loads that way; the resumed script ends with
the reference history text and the closed-form final parameters; when only last and best are kept
and the resumed script completed at least one update, the state directory lists exactly the files
of last(n) and best(n).

Readings of the statement where it is silent (also listed as assumptions in the evidence):
  * a file-name format without the epoch field cannot keep more than one epoch; the library says so
    (warning "only the state of the last epoch will persist").  For such a format the best epoch
    is required only where the library promises it: with keep_last_and_best_only (it refuses -
    ValueError - to overwrite the best checkpoint, which is a legitimate outcome that must leave
    the disk untouched) or when best == last.  "Every recorded epoch stays loadable" is required
    for epoch-unique formats only.
  * "after every completed update the directory holds exactly ..." is required after updates that
    ran to completion; the interrupted update itself is not a completed update.
"""
import builtins
import contextlib
import itertools
import os
import random
import re
import tempfile
import warnings

KMAX = 14  # upper bound on file-system mutating calls of one update (checked: a larger count is reported)
GRID = (1.0, 2.0, 3.0)
FMTS = {
    "epoch": ("model_{epoch:03d}.pt", "optim_{epoch:03d}.pt"),  # injective in the epoch
    "const": ("model.pt", "optim.pt"),  # no epoch field
    "mixed_m": ("model_{epoch:03d}.pt", "optim.pt"),  # optimizer name lacks the epoch
    "mixed_o": ("model.pt", "optim_{epoch:03d}.pt"),  # model name lacks the epoch
}
SETTINGS = {
    "plain": {},  # no early stopping, no learning-rate reduction (library defaults)
    "es_rlr": {"early_stopping_threshold": 0.5, "early_stopping_patience": 2, "reduce_lr_threshold": 0.5,
               "reduce_lr_patience": 1, "reduce_lr_factor": 0.5, "reduce_lr_cooldown": 1},
    "burn": {"early_stopping_threshold": 1.0, "early_stopping_patience": 1, "early_stopping_burnin": 1, "reduce_lr_threshold": 1.0,
             "reduce_lr_patience": 2, "reduce_lr_factor": 0.25, "reduce_lr_burnin": 1},
    "rlr_only": {"reduce_lr_threshold": 0.5, "reduce_lr_patience": 1, "reduce_lr_factor": 0.5},
}


class Crash(BaseException):
    """the process died here"""


# ---------------------------------------------------------------------------------------------
# the independent spec


def spec_best(mets, n):
    """earliest epoch among 1..n with the smallest validation metric; 0 when nothing is recorded"""
    if n <= 0:
        return 0
    head = list(mets[:n])
    return head.index(min(head)) + 1


def kept_mets(case):
    """the metric series the kept `best` checkpoint is chosen by: the training metrics when the update is asked to (best_is_train)"""
    return case["train"] if case.get("bit") else case["mets"]


def spec_weight(e):
    return [e * (e + 1) / 2.0, -float(e)]


def spec_momentum(e):
    """None for the initial state, else b(e)"""
    if e <= 0:
        return None
    b = 1.0
    for j in range(2, e + 1):
        b = b / 2 + j
    return b


def spec_names(fmt, epochs):
    mf, of = FMTS[fmt]
    out = set()
    for e in epochs:
        if e > 0:
            out.add(mf.format(epoch=e))
            out.add(of.format(epoch=e))
    return out


def fmt_unique(fmt):
    """(model name injective in epoch, optimizer name injective in epoch)"""
    mf, of = FMTS[fmt]
    return "{epoch" in mf, "{epoch" in of


def spec_may_refuse(case, n):
    """updating to epoch n may legitimately be refused (ValueError): only last and best are kept, some
    name lacks the epoch field, and epoch n is not the best epoch itself (writing it would overwrite
    the best checkpoint)"""
    return case["keep"] and not all(fmt_unique(case["fmt"])) and spec_best(kept_mets(case), n) != n


# ---------------------------------------------------------------------------------------------
# fault injection from outside


class Injector:
    def __init__(self, target=None):
        self.events = []  # names of the mutating calls that were executed
        self.target = tuple(target) if target else None  # (k, "before" | "after")
        self.dead = False
        self.inside = False

    def call(self, name, fn, *a, **kw):
        if self.inside:  # a mutator used by another mutator's implementation: same event
            return fn(*a, **kw)
        if self.dead:
            raise Crash("dead process")
        k = len(self.events)
        if self.target == (k, "before"):
            self.dead = True
            raise Crash("before event %d (%s)" % (k, name))
        self.inside = True
        try:
            r = fn(*a, **kw)
        finally:
            self.inside = False
        self.events.append(name)
        if self.target == (k, "after"):
            self.dead = True
            if hasattr(r, "close"):
                try:
                    r.close()
                except Exception:
                    pass
            raise Crash("after event %d (%s)" % (k, name))
        return r


class _TextFile:
    """text file opened for writing by the code under contract: every write() is one mutating event and
    reaches the disk at once"""

    def __init__(self, f, inj):
        self._f, self._inj = f, inj

    def write(self, s):
        def do():
            n = self._f.write(s)
            self._f.flush()
            return n

        return self._inj.call("write", do)

    def writelines(self, lines):
        for line in lines:
            self.write(line)

    def __enter__(self):
        return self

    def __exit__(self, *a):
        self._f.close()
        return False

    def __iter__(self):
        return iter(self._f)

    def __getattr__(self, name):
        return getattr(self._f, name)


@contextlib.contextmanager
def patched(inj):
    import torch
    import pydrobert.torch.training as tr

    real_save, real_ntf = torch.save, tempfile.NamedTemporaryFile
    real_replace, real_rename, real_remove, real_unlink, real_makedirs = os.replace, os.rename, os.remove, os.unlink, os.makedirs
    had_open = "open" in tr.__dict__
    old_open = tr.__dict__.get("open")

    def p_makedirs(path, *a, **kw):
        if os.path.isdir(path):
            return real_makedirs(path, *a, **kw)
        return inj.call("mkdir", real_makedirs, path, *a, **kw)

    def p_open(file, mode="r", *a, **kw):
        if not any(c in mode for c in "wax+"):
            return builtins.open(file, mode, *a, **kw)
        mutates = "w" in mode or not os.path.exists(file)
        f = inj.call("open", builtins.open, file, mode, *a, **kw) if mutates else builtins.open(file, mode, *a, **kw)
        return f if "b" in mode else _TextFile(f, inj)

    torch.save = lambda *a, **kw: inj.call("save", real_save, *a, **kw)
    tempfile.NamedTemporaryFile = lambda *a, **kw: inj.call("tmp", real_ntf, *a, **kw)
    os.replace = lambda *a, **kw: inj.call("replace", real_replace, *a, **kw)
    os.rename = lambda *a, **kw: inj.call("replace", real_rename, *a, **kw)
    os.remove = lambda *a, **kw: inj.call("remove", real_remove, *a, **kw)
    os.unlink = lambda *a, **kw: inj.call("remove", real_unlink, *a, **kw)
    os.makedirs = p_makedirs
    tr.open = p_open
    try:
        yield inj
    finally:
        torch.save, tempfile.NamedTemporaryFile = real_save, real_ntf
        os.replace, os.rename, os.remove, os.unlink, os.makedirs = real_replace, real_rename, real_remove, real_unlink, real_makedirs
        if had_open:
            tr.open = old_open
        else:
            del tr.open


# ---------------------------------------------------------------------------------------------
# the training script (what a user of the controller runs)

_TINY = []


def _mk_model_opt():
    import torch

    if not _TINY:
        class Tiny(torch.nn.Module):
            def __init__(self):
                super().__init__()
                self.weight = torch.nn.Parameter(torch.full((2,), 7.0))

            def reset_parameters(self):
                with torch.no_grad():
                    self.weight.zero_()

        _TINY.append(Tiny)
    m = _TINY[0]()
    return m, torch.optim.SGD(m.parameters(), lr=1.0, momentum=0.5)


def _train_epoch(model, opt, e):
    """one 'epoch' of training: a real momentum step (so the optimizer carries state), then the weights
    are set from the previous weights"""
    import torch

    p = model.weight
    prev = p.detach().clone()
    p.grad = torch.full_like(p, float(e))
    opt.step()
    with torch.no_grad():
        p.copy_(prev + torch.tensor([float(e), -1.0]))
    p.grad = None


def _controller(d, case):
    from pydrobert.torch import training

    mf, of = FMTS[case["fmt"]]
    kw = dict(SETTINGS[case["setting"]]) if isinstance(case.get("setting"), str) else dict(case.get("setting") or {})
    params = training.TrainingStateParams(num_epochs=len(case["mets"]), keep_last_and_best_only=bool(case["keep"]),
                                          saved_model_fmt=mf, saved_optimizer_fmt=of, **kw)
    return training.TrainingStateController(params, os.path.join(d, "hist.csv"), os.path.join(d, "states"), warn=False)


def _snap(sd):
    import copy

    return copy.deepcopy(sd)


def _read_csv(d):
    p = os.path.join(d, "hist.csv")
    if not os.path.exists(p):
        return None
    with open(p) as f:
        return f.read()


def _listing(d):
    p = os.path.join(d, "states")
    return sorted(os.listdir(p)) if os.path.isdir(p) else []


def run_script(d, case, crash=None, on_update=None):
    """Start (or resume) training in directory d and run to the end of case['mets'].
    crash = (epoch, k, when): die at that cut of that epoch's update (Crash propagates).
    Returns dict(n=last completed epoch, refused=epoch or None, updates=number of completed updates,
    model=..., opt=..., events={epoch: [...]})."""
    mets = case["mets"]
    ctrl = _controller(d, case)
    model, opt = _mk_model_opt()
    ctrl.load_model_and_optimizer_for_epoch(model, opt)  # last recorded epoch, or initialisation
    e = ctrl.get_last_epoch()
    out = {"n": e, "refused": None, "updates": 0, "model": model, "opt": opt, "events": {}, "start": e}
    cont = ctrl.continue_training()
    while cont and e < len(mets):
        e += 1
        _train_epoch(model, opt, e)
        inj = Injector((crash[1], crash[2]) if crash is not None and crash[0] == e else None)
        out["events"][e] = inj.events
        with patched(inj):
            try:
                train = case.get("train", mets)
                cont = ctrl.update_for_epoch(model, opt, float(train[e - 1]), float(mets[e - 1]), **({"best_is_train": True} if case.get("bit") else {}))
            except ValueError as ex:
                if "would overwrite" in str(ex):
                    out["refused"] = e
                    out["refusal_events"] = list(inj.events)
                    return out
                raise
        out["n"] = e
        out["updates"] += 1
        if on_update is not None:
            on_update(e, ctrl, model, opt, inj)
    return out


# ---------------------------------------------------------------------------------------------
# comparing states


def _sd_equal(a, b):
    import torch

    if isinstance(a, torch.Tensor) or isinstance(b, torch.Tensor):
        return isinstance(a, torch.Tensor) and isinstance(b, torch.Tensor) and a.dtype == b.dtype and a.shape == b.shape and torch.equal(a, b)
    if isinstance(a, dict) and isinstance(b, dict):
        return list(a.keys()) == list(b.keys()) and all(_sd_equal(a[k], b[k]) for k in a)
    if isinstance(a, (list, tuple)) and isinstance(b, (list, tuple)):
        return len(a) == len(b) and all(_sd_equal(x, y) for x, y in zip(a, b))
    return a == b


def _which_epoch_model(model):
    w = model.weight.detach().tolist()
    for e in range(0, 64):
        if w == spec_weight(e):
            return "epoch %d" % e
    return "no epoch (weight=%s)" % w


def _which_epoch_opt(opt):
    st = opt.state_dict()["state"]
    if not st:
        return "epoch 0"
    try:
        b = st[0]["momentum_buffer"].tolist()
    except Exception:
        return "no epoch (state=%r)" % (st,)
    for e in range(1, 64):
        if b == [spec_momentum(e)] * 2:
            return "epoch %d" % e
    return "no epoch (momentum=%s)" % b


def _model_problem(model, e, ref):
    """None if the model holds exactly the parameters of epoch e (closed form and the reference run's snapshot)"""
    if model.weight.detach().tolist() != spec_weight(e):
        return "model holds parameters of %s" % _which_epoch_model(model)
    if ref is not None and e in ref["model_sd"] and not _sd_equal(model.state_dict(), ref["model_sd"][e]):
        return "model state differs from what the uninterrupted run saved"
    return None


def _opt_problem(opt, e, ref):
    if _which_epoch_opt(opt) != "epoch %d" % e:
        return "optimizer holds state of %s" % _which_epoch_opt(opt)
    if ref is not None and e in ref["opt_sd"] and not _sd_equal(opt.state_dict(), ref["opt_sd"][e]):
        return "optimizer state differs from what the uninterrupted run saved (%r vs %r)" % (opt.state_dict(), ref["opt_sd"][e])
    return None


def _exc(ex):
    return "%s: %s" % (type(ex).__name__, str(ex).replace("\n", " ")[:160])


def loadable_checks(d, case, ref, n_want=None):
    """What a controller started now on directory d must be able to do. Returns (messages, n) with n the
    last recorded epoch it sees (None when it cannot even start)."""
    mets, keep, fmt = case["mets"], case["keep"], case["fmt"]
    mu, ou = fmt_unique(fmt)
    msgs = []
    try:
        ctrl = _controller(d, case)
        n = ctrl.get_last_epoch()
        best = ctrl.get_best_epoch(train_met=True) if case.get("bit") else ctrl.get_best_epoch()
        epochs = sorted(ctrl.cache_hist)
    except Exception as ex:
        return ["restart-failed: a fresh controller cannot read the history (%s)" % _exc(ex)], None
    if epochs != list(range(0, n + 1)):
        msgs.append("hist-not-prefix: recorded epochs %s are not 1..%d" % (epochs[1:], n))
    if n_want is not None and n != n_want:
        msgs.append("hist-length: %d epochs recorded, expected %d" % (n, n_want))
    if best != spec_best(kept_mets(case), n):
        msgs.append("best-epoch: controller says %d, earliest minimum of %s is %d" % (best, kept_mets(case)[:n], spec_best(kept_mets(case), n)))
        return msgs, n
    # last recorded epoch: model and optimizer
    m, o = _mk_model_opt()
    try:
        ctrl.load_model_and_optimizer_for_epoch(m, o)
        for pb in (_model_problem(m, n, ref), _opt_problem(o, n, ref)):
            if pb:
                msgs.append("last-wrong-params: last recorded epoch %d: %s" % (n, pb))
    except Exception as ex:
        msgs.append("last-unloadable: last recorded epoch %d: %s" % (n, _exc(ex)))
    # best epoch
    need_m = keep or mu or best == n
    need_o = keep or ou or best == n
    if need_m:
        m, o = _mk_model_opt()
        try:
            if case.get("bit"):
                ctrl.load_model_for_epoch(m, best)  # the kept best is the one by training metric (the default would pick by validation metric)
            else:
                ctrl.load_model_for_epoch(m)  # default: best
            pb = _model_problem(m, best, ref)
            if pb:
                msgs.append("best-wrong-params: best epoch %d (load_model_for_epoch): %s" % (best, pb))
        except Exception as ex:
            msgs.append("best-unloadable: best epoch %d (load_model_for_epoch): %s" % (best, _exc(ex)))
    if need_m and need_o:
        m, o = _mk_model_opt()
        try:
            ctrl.load_model_and_optimizer_for_epoch(m, o, best)
            for pb in (_model_problem(m, best, ref), _opt_problem(o, best, ref)):
                if pb:
                    msgs.append("best-wrong-params: best epoch %d: %s" % (best, pb))
        except Exception as ex:
            msgs.append("best-unloadable: best epoch %d: %s" % (best, _exc(ex)))
    # everything kept: every recorded epoch
    if not keep and mu and ou:
        for e in range(1, n + 1):
            if e in (n, best):
                continue
            m, o = _mk_model_opt()
            try:
                ctrl.load_model_and_optimizer_for_epoch(m, o, e)
                for pb in (_model_problem(m, e, ref), _opt_problem(o, e, ref)):
                    if pb:
                        msgs.append("epoch-wrong-params: recorded epoch %d: %s" % (e, pb))
            except Exception as ex:
                msgs.append("epoch-unloadable: recorded epoch %d: %s" % (e, _exc(ex)))
    return msgs, n


_TMPNAME = re.compile(r"^tmp[a-z0-9_]{8}$")


def _disp(name):
    """temporary files have random names; show them alike so that messages are reproducible"""
    return "tmp????????" if _TMPNAME.match(name) else name


def dir_exact(d, case, n):
    """keep_last_and_best_only: the state directory lists exactly the files of last(n) and best(n)"""
    want = spec_names(case["fmt"], {n, spec_best(kept_mets(case), n)})
    have = set(_disp(x) for x in _listing(d))
    if have != want:
        return "dir-not-exact: after completed update %d the state directory holds extra=%s missing=%s (exactly %s expected)" % (
            n, sorted(have - want), sorted(want - have), sorted(want))
    return None


# ---------------------------------------------------------------------------------------------
# the uninterrupted run (reference) with the no-crash contracts


def _tmpdir():
    base = "/dev/shm" if os.path.isdir("/dev/shm") and os.access("/dev/shm", os.W_OK) else None
    return tempfile.TemporaryDirectory(prefix="c16_", dir=base)


_REF_CACHE = {}


def _key(case):
    s = case.get("setting")
    return (tuple(case["mets"]), bool(case["keep"]), case["fmt"], s if isinstance(s, str) else repr(sorted((s or {}).items())), bool(case.get("bit")), tuple(case.get("train", ())))


def reference(case):
    """Run the script without faults. Pure function of (mets, keep, fmt, setting); cached per process."""
    k = _key(case)
    if k in _REF_CACHE:
        return _REF_CACHE[k]
    ref = {"events": {}, "csv": {0: None}, "model_sd": {}, "opt_sd": {}, "problems": [], "n": 0, "refused": None}
    with _tmpdir() as d, warnings.catch_warnings():
        warnings.simplefilter("ignore")

        def on_update(e, ctrl, model, opt, inj):
            ref["events"][e] = list(inj.events)
            ref["csv"][e] = _read_csv(d)
            ref["model_sd"][e] = _snap(model.state_dict())
            ref["opt_sd"][e] = _snap(opt.state_dict())
            if case["keep"]:
                pb = dir_exact(d, case, e)
                if pb:
                    ref["problems"].append("nocrash " + pb)
            msgs, _ = loadable_checks(d, case, ref, n_want=e)
            ref["problems"].extend("nocrash after update %d: %s" % (e, m) for m in msgs)

        try:
            out = run_script(d, case, on_update=on_update)
        except Exception as ex:
            ref["problems"].append("nocrash script-raised: %s" % _exc(ex))
            out = {"n": max(ref["events"], default=0), "refused": None, "model": None, "opt": None}
        ref["n"], ref["refused"] = out["n"], out["refused"]
        if out["refused"] is not None:
            e = out["refused"]
            if not spec_may_refuse(case, e):
                ref["problems"].append("nocrash refusal-unjustified: update %d refused although it does not overwrite the best checkpoint" % e)
            if out.get("refusal_events"):
                ref["problems"].append("nocrash refusal-mutated: the refused update %d made file-system calls %s" % (e, out["refusal_events"]))
            if _read_csv(d) != ref["csv"][e - 1]:
                ref["problems"].append("nocrash refusal-mutated: history changed by the refused update %d" % e)
            msgs, _ = loadable_checks(d, case, ref, n_want=e - 1)
            ref["problems"].extend("nocrash after refused update %d: %s" % (e, m) for m in msgs)
        elif out.get("model") is not None:
            for pb in (_model_problem(out["model"], out["n"], None), _opt_problem(out["opt"], out["n"], None)):
                if pb:
                    ref["problems"].append("nocrash driver-error: script state at the end: %s" % pb)
        ref["final_csv"] = _read_csv(d)
        ref["final_listing"] = _listing(d)
        ref["problems"] = [p.replace(d, "<dir>") for p in ref["problems"]]
    if len(_REF_CACHE) > 64:
        _REF_CACHE.clear()
    _REF_CACHE[k] = ref
    return ref


def check_keep(case):
    """C16.keep.runtime: no fault. case: {mets, keep, fmt, setting}"""
    ref = reference(case)
    if ref["problems"]:
        return " ;; ".join(ref["problems"][:4])
    return None


# ---------------------------------------------------------------------------------------------
# the crash contract

_LAST = {"vacuous": True}


def check_crash(case):
    """C16.crash.runtime. case: {mets, keep, fmt, setting, upd (1-based epoch whose update is interrupted),
    k (index of the mutating call), when ("before" | "after")}"""
    _LAST["vacuous"] = True
    upd, k, when = case["upd"], case["k"], case["when"]
    ref = reference(case)
    ev = ref["events"].get(upd)
    if ev is None:
        return None  # that update never happens (training stopped or was refused earlier): vacuous
    if len(ev) > KMAX and k == 0 and when == "before":
        return "driver-bound: update %d makes %d mutating calls %s, more than the enumerated KMAX=%d" % (upd, len(ev), ev, KMAX)
    if k >= len(ev):
        return None  # vacuous: the update has fewer mutating calls
    _LAST["vacuous"] = False
    done = ev[: k + (1 if when == "after" else 0)]
    pending = ev[len(done):]
    row_written = "write" in done and "write" not in pending  # the history row of this epoch is on disk
    where = " | cut: update %d died %s call %d; executed=%s pending=%s hist_row_written=%s" % (
        upd, when, k, ",".join(done) or "-", ",".join(pending) or "-", row_written)
    with _tmpdir() as d, warnings.catch_warnings():
        warnings.simplefilter("ignore")
        try:
            run_script(d, case, crash=(upd, k, when))
            return "driver-error: the injected fault did not fire (event sequence not deterministic?)" + where
        except Crash:
            pass
        except Exception as ex:
            return "driver-error: crashed run raised %s" % _exc(ex) + where
        # ---- recovery: a fresh controller on the same files
        csv_now = _read_csv(d)
        full = ref["final_csv"] or ""
        msgs = []
        if csv_now and not (full.startswith(csv_now) and csv_now.endswith("\n")):
            msgs.append("hist-not-prefix: history file after the crash is not a line-prefix of the uninterrupted one: %r" % csv_now[-120:])
        lm, n = loadable_checks(d, case, ref)
        msgs.extend(lm)
        if n is not None and n not in (upd - 1, upd):
            msgs.append("hist-length: %d epochs recorded after a crash in update %d" % (n, upd))
        if n is not None and n >= 1 and csv_now != ref["csv"].get(n):
            msgs.append("hist-not-prefix: history text differs from the uninterrupted history at epoch %d" % n)
        if msgs:
            return ("recover: " + " ;; ".join(msgs[:6]) + where).replace(d, "<dir>")
        # ---- continue training to the end
        try:
            out = run_script(d, case)
        except Exception as ex:
            return ("continue-raised: %s" % _exc(ex) + where).replace(d, "<dir>")
        if out["refused"] != ref["refused"]:
            msgs.append("continue-refusal: resumed run refused update %s, uninterrupted run %s" % (out["refused"], ref["refused"]))
        final = _read_csv(d)
        full = ref["final_csv"] or ""
        if final and final != full and full.endswith("\n" + final) and full[: -len(final)].count("\n") == 1:
            msgs.append("final-history-headerless: the resumed run's history file has the uninterrupted rows but no header line")
        elif final != ref["final_csv"]:
            msgs.append("final-history-differs: resumed run ends with %r, uninterrupted with %r" % ((final or "")[-160:], (ref["final_csv"] or "")[-160:]))
        if out["n"] != ref["n"]:
            msgs.append("final-history-differs: resumed run ends at epoch %d, uninterrupted at %d" % (out["n"], ref["n"]))
        elif out["refused"] is None:
            for pb in (_model_problem(out["model"], out["n"], ref), _opt_problem(out["opt"], out["n"], ref)):
                if pb:
                    msgs.append("final-params-differ: at the end of the resumed run: %s" % pb)
        if case["keep"] and out["updates"] >= 1:
            pb = dir_exact(d, case, out["n"])
            if pb:
                msgs.append(pb)
        lm, _ = loadable_checks(d, case, ref, n_want=out["n"])
        msgs.extend("end: " + m for m in lm)
        if msgs:
            return ("continue: " + " ;; ".join(msgs[:6]) + where).replace(d, "<dir>")
    return None


def _nontrivial_crash(case):
    return not _LAST["vacuous"]


# ---------------------------------------------------------------------------------------------
# case generators


def _histories(full, two):
    """every metric sequence over GRID of length 1..full, and over the first two grid values of length full+1..two"""
    for L in range(1, full + 1):
        for m in itertools.product(GRID, repeat=L):
            yield list(m)
    for L in range(full + 1, two + 1):
        for m in itertools.product(GRID[:2], repeat=L):
            yield list(m)


def _blocks(ctx):
    """(formats, settings, full, two) blocks of the exhaustive part"""
    if ctx.quick:
        return [(("epoch", "const"), ("plain", "es_rlr"), 3, 4)]
    return [(("epoch", "const"), ("plain", "es_rlr", "burn", "rlr_only"), 4, 5),
            (("mixed_m", "mixed_o"), ("plain", "es_rlr"), 3, 4)]


def _random_cases(ctx, count):
    rng = random.Random(1000003 * ctx.seed + 16)
    grid = (0.5, 1.0, 1.5, 2.0, 3.0)
    for _ in range(count):
        L = rng.randint(5, 7)
        mets = [rng.choice(grid) for _ in range(L)]
        setting = {}
        if rng.random() < 0.7:
            setting.update(early_stopping_threshold=rng.choice([0.5, 1.0]), early_stopping_patience=rng.randint(1, 3), early_stopping_burnin=rng.randint(0, 2))
        if rng.random() < 0.7:
            setting.update(reduce_lr_threshold=rng.choice([0.5, 1.0]), reduce_lr_patience=rng.randint(1, 3), reduce_lr_cooldown=rng.randint(0, 2),
                           reduce_lr_burnin=rng.randint(0, 2), reduce_lr_factor=0.5)  # 0.5^k, k <= 7, prints without loss
        yield {"mets": mets, "keep": rng.random() < 0.6, "fmt": rng.choice(["epoch", "epoch", "const", "mixed_m", "mixed_o"]), "setting": setting}


N_RANDOM = 400  # thorough tier: random (history, setting) pairs, every cut of every update of each


def cases_keep(ctx):
    for fmts, settings, full, two in _blocks(ctx):
        for keep in (True, False):
            for fmt in fmts:
                for s in settings:
                    for mets in _histories(full, two):
                        yield {"mets": mets, "keep": keep, "fmt": fmt, "setting": s}
    # the kept `best` chosen by the TRAINING metric (update_for_epoch(..., best_is_train=True)); series whose two optima differ
    for keep in (True, False):
        for fmt in ("epoch", "const"):
            for train, mets in (([0.5, 2.0, 3.0, 0.25, 1.5], [3.0, 1.0, 2.0, 2.5, 0.5]), ([1.0, 0.5, 2.0], [0.5, 1.0, 0.25]), ([2.0, 1.0], [1.0, 2.0])):
                yield {"mets": mets, "train": train, "bit": True, "keep": keep, "fmt": fmt, "setting": "plain"}
    if not ctx.quick:
        for c in _random_cases(ctx, N_RANDOM):
            yield c


def cases_crash(ctx):
    for base in cases_keep(ctx):
        for upd in range(1, len(base["mets"]) + 1):
            for k in range(KMAX):
                for when in ("before", "after"):
                    c = dict(base)
                    c.update(upd=upd, k=k, when=when)
                    yield c


# ---------------------------------------------------------------------------------------------
# genuine defects of the unchanged tree (see the final report of the builder)

_CUT = re.compile(r"\| cut: update (\d+) died (before|after) call (\d+); executed=(\S+) pending=(\S+) hist_row_written=(True|False)")
_CKPT = re.compile(r"^(model|optim)_(\d{3})\.pt$")


def _cut(msg):
    m = _CUT.search(msg)
    if not m:
        return None
    return {"upd": int(m.group(1)), "done": [] if m.group(4) == "-" else m.group(4).split(","), "pending": [] if m.group(5) == "-" else m.group(5).split(","),
            "row": m.group(6) == "True"}


def _parts(msg):
    body = msg.split(" | cut:")[0]
    body = body.split(": ", 1)[1] if body.startswith(("recover: ", "continue: ")) else body
    return [p.strip() for p in body.split(" ;; ")]


def _known_stale_checkpoints(case, msg):
    """KF-C16-1: only last+best kept, names with the epoch field (in at least one format), death after the history row of epoch e was appended
    and before the clean-up of update e finished (only removals were still pending); the ONLY thing wrong afterwards is
    that completed later updates leave extra checkpoint files of epochs < e behind (nothing missing, nothing else extra)."""
    c = _cut(msg)
    if not (case.get("keep") and case.get("fmt") in ("epoch", "mixed_m", "mixed_o") and c and msg.startswith("continue: ")):
        return False
    if not (c["row"] and c["pending"] and all(p == "remove" for p in c["pending"])):
        return False
    parts = _parts(msg)
    if len(parts) != 1 or not parts[0].startswith("dir-not-exact:"):
        return False
    m = re.search(r"extra=\[(.*?)\] missing=\[(.*?)\]", parts[0])
    if not m or m.group(2).strip():
        return False
    extra = [x.strip().strip("'") for x in m.group(1).split(",") if x.strip()]
    return bool(extra) and all(_CKPT.match(x) and int(_CKPT.match(x).group(2)) < c["upd"] for x in extra)


def _known_history_ahead(case, msg):
    """KF-C16-2: some file name lacks the epoch field, death after the history row of epoch e was appended and before
    the last rename of epoch e's checkpoint files: the history names e as last epoch while the files on disk are those of
    e-1 (or do not exist yet for the first save)."""
    c = _cut(msg)
    if not (case.get("fmt") in ("const", "mixed_m", "mixed_o") and c and msg.startswith("recover: ")):
        return False
    if not (c["row"] and "replace" in c["pending"]):
        return False
    e = c["upd"]
    ok = 0
    for p in _parts(msg):
        if re.match(r"(last|best)-wrong-params: (last recorded|best) epoch %d\b.*: (model holds parameters|optimizer holds state) of epoch %d$" % (e, e - 1), p):
            ok += 1
        elif re.match(r"(last|best)-unloadable: (last recorded|best) epoch %d\b.*: FileNotFoundError" % e, p):
            ok += 1
        else:
            return False
    return ok > 0


def _known_stale_tempfiles(case, msg):
    """KF-C16-3: only last+best kept; death between the creation of a temporary checkpoint file and the last rename of
    that update: the randomly named temporary file(s) stay in the state directory after every later completed update.
    Nothing else is wrong (nothing missing, no other extra file, history and parameters as uninterrupted)."""
    c = _cut(msg)
    if not (case.get("keep") and c and msg.startswith("continue: ")):
        return False
    if not ("tmp" in c["done"] and "replace" in c["pending"] and not c["row"]):
        return False
    parts = _parts(msg)
    if len(parts) != 1 or not parts[0].startswith("dir-not-exact:"):
        return False
    m = re.search(r"extra=\[(.*?)\] missing=\[(.*?)\]", parts[0])
    if not m or m.group(2).strip():
        return False
    extra = [x.strip().strip("'") for x in m.group(1).split(",") if x.strip()]
    return 1 <= len(extra) <= 2 and all(x == "tmp????????" for x in extra)


def _known_headerless_history(case, msg):
    """KF-C16-4: death in the first update after the history file was created (open for append) and before its header
    line was written: the empty file makes every later save_info_to_hist skip the header, so the resumed run's history has
    the right rows but no header and later controllers mis-read it (first row taken as header)."""
    c = _cut(msg)
    if not (c and msg.startswith("continue: ") and c["upd"] == 1):
        return False
    if not (c["done"] and c["done"][-1] == "open" and c["pending"][:2] == ["write", "write"]):
        return False
    parts = _parts(msg)
    if not parts or not parts[0].startswith("final-history-headerless:"):
        return False
    return all(p.startswith(("end: hist-length:", "end: restart-failed:", "end: hist-not-prefix:", "end: best-epoch:")) for p in parts[1:])


KNOWN_MATCH = {
    "KF-C16-1": _known_stale_checkpoints,
    "KF-C16-2": _known_history_ahead,
    "KF-C16-3": _known_stale_tempfiles,
    "KF-C16-4": _known_headerless_history,
}

FINDINGS = [
    {"id": "KF-C16-1", "property": "C16", "clause": "C16.crash.runtime",
     "what": "a crash after the history row of an epoch is appended and before that update's clean-up finishes leaves checkpoint files of older epochs that no later completed update removes "
             "(keep_last_and_best_only: directory is not 'exactly last and best'); last and best stay loadable and the history is unaffected",
     "class": "keep_last_and_best_only, file names with the epoch field, process death after the history append of update e and before the last os.remove of its clean-up, at least one later completed update; "
              "only symptom: extra model_/optim_ files of epochs < e",
     "witness": {"mets": [2.0, 1.0, 1.0], "keep": True, "fmt": "epoch", "setting": "plain", "upd": 2, "k": 6, "when": "after"}},
    {"id": "KF-C16-2", "property": "C16", "clause": "C16.crash.runtime",
     "what": "file-name formats without the epoch field: the history row is appended before the checkpoint files are replaced, so a crash in between leaves a history whose last (and best) epoch e "
             "loads the parameters of epoch e-1, or FileNotFoundError when e is the first saved epoch",
     "class": "saved_model_fmt or saved_optimizer_fmt lacks the epoch field, process death after the history append of update e and before the last os.replace of that update; "
              "only symptom: last/best epoch e loads model or optimizer state of epoch e-1 or raises FileNotFoundError",
     "witness": {"mets": [1.0], "keep": True, "fmt": "const", "setting": "plain", "upd": 1, "k": 2, "when": "after"}},
    {"id": "KF-C16-3", "property": "C16", "clause": "C16.crash.runtime",
     "what": "a crash between tempfile.NamedTemporaryFile(delete=False) and the os.replace calls of save_model_and_optimizer_with_info leaves randomly named temporary files in the state directory "
             "forever (keep_last_and_best_only: directory is not 'exactly last and best' after later completed updates)",
     "class": "keep_last_and_best_only, process death after a temporary checkpoint file was created and before the last os.replace of that update (history row not yet written); only symptom: 1-2 extra tmp* files",
     "witness": {"mets": [1.0], "keep": True, "fmt": "epoch", "setting": "plain", "upd": 1, "k": 1, "when": "after"}},
    {"id": "KF-C16-4", "property": "C16", "clause": "C16.crash.runtime",
     "what": "a crash after save_info_to_hist created the history file and before its first write leaves an empty file; write_header = not os.path.exists(...) is then False forever, the resumed run "
             "writes rows without a header and the next controller mis-reads the history (first row taken as header: KeyError 'epoch' or epochs missing)",
     "class": "first update (history file does not exist yet), process death after open(state_csv_path, 'a') and before the header line reaches the file",
     "witness": {"mets": [1.0], "keep": True, "fmt": "epoch", "setting": "plain", "upd": 1, "k": 7, "when": "after"}},
]

CHECKERS = {"C16.keep.runtime": check_keep, "C16.crash.runtime": check_crash}


def _either(first, second):
    if first is None or first is second:
        return second

    def match(case, msg):
        for fn in (first, second):
            try:
                if fn(case, msg):
                    return True
            except Exception:
                pass
        return False

    return match


def _wanted(ctx, name):
    only = getattr(ctx, "only", None)
    return not only or any(name.startswith(o) for o in only)


def run_bounded(ctx):
    import torch  # noqa: F401  (imported before the pool forks)
    import pydrobert.torch  # noqa: F401
    import pydrobert.torch.training  # noqa: F401

    for kid, fn in KNOWN_MATCH.items():  # the same finding id may already carry a predicate for the deductive clauses
        ctx.known_match[kid] = _either(ctx.known_match.get(kid), fn)
    if ctx.quick:
        hb = "every validation-metric sequence over {1,2,3} of length 1..3 and over {1,2} of length 4"
        cb = "keep_last_and_best_only in {True,False} x file names {with epoch field, without} x settings {no early stopping/lr reduction; early stopping thr .5 patience 2 + lr reduction thr .5 patience 1 cooldown 1 factor .5}"
    else:
        hb = ("every validation-metric sequence over {1,2,3} of length 1..4 and over {1,2} of length 5 (names with epoch field in both / in neither format, 4 early-stopping/lr-reduction settings); "
              "every sequence over {1,2,3} of length 1..3 and over {1,2} of length 4 (epoch field in the model name only / optimizer name only, 2 settings); "
              "plus %d seeded random (sequence of length 5..7 over {.5,1,1.5,2,3}, early-stopping/lr-reduction setting, format) pairs" % N_RANDOM)
        cb = "keep_last_and_best_only in {True,False}"
    funcs = ["training.TrainingStateController.update_for_epoch", "training.TrainingStateController.save_model_and_optimizer_with_info",
             "training.TrainingStateController.save_info_to_hist", "training.TrainingStateController._clean_up_files",
             "training.TrainingStateController.load_model_and_optimizer_for_epoch", "training.TrainingStateController.load_model_for_epoch",
             "training.TrainingStateController.update_cache"]
    if _wanted(ctx, "C16.keep.runtime"):
        ctx.bounded("C16.keep.runtime", check_keep, cases_keep(ctx), bound="%s; %s; no fault" % (hb, cb),
                    text="no fault: after every completed update a fresh controller loads last and best (every recorded epoch when all are kept) with bit-identical closed-form parameters; "
                         "with keep_last_and_best_only the state directory lists exactly the files of last and best; a refused update (would overwrite best) touches nothing",
                    nontrivial=lambda c: len(c["mets"]) >= 2, chunk=8, functions=funcs)
    if _wanted(ctx, "C16.crash.runtime"):
        ctx.bounded("C16.crash.runtime", check_crash, cases_crash(ctx),
                    bound="%s; %s; process death before and after each of the first %d file-system mutating calls (torch.save, NamedTemporaryFile, os.replace/rename, os.remove/unlink, "
                          "creating makedirs, creating/truncating open, each write of the history file) of every update (no update makes more: checked)" % (hb, cb, KMAX),
                    text="after the death a fresh controller sees a line-prefix of the uninterrupted history, loads last and best (all recorded epochs when all are kept) bit-identical to the "
                         "uninterrupted run and the closed form, resumes to the uninterrupted history text and final parameters, and (last+best only, after a completed update) the directory "
                         "lists exactly last and best",
                    nontrivial=_nontrivial_crash, chunk=2 * KMAX, functions=funcs)
    ctx.replay_known_witnesses()
    ctx.not_applicable.append("C16 fault sequences other than one process death at a call boundary: torn writes inside torch.save or inside one write() of the history file, "
                              "loss of un-fsynced data, a second death during recovery, concurrent writers (distributed ranks)")
    ctx.assume(
        "a process death is an abort before or after a whole file-system call; os.replace is atomic; each write() of the history file is all-or-nothing",
        "the training script is deterministic (weights and momentum are closed-form functions of the epoch) and metrics lie on a grid the history file prints without loss",
        "'uninterrupted history' is the history file text produced by the same script on the real controller without a fault (relational reading); which epoch is best is recomputed independently",
        "file-name formats without the epoch field: the best epoch is required only with keep_last_and_best_only (where the controller refuses to overwrite it; the refusal is a legitimate outcome) "
        "or when best == last; 'every recorded epoch stays loadable' is required for epoch-unique names only (the library warns that otherwise only the last epoch persists)",
        "'exactly those two epochs' files' is required after updates that ran to completion, not after the interrupted one",
        "single-process controller (rank -1); the resumed script loads the last recorded epoch and continues while continue_training()/update_for_epoch() say so",
    )
