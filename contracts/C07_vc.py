"""C07, engine A part (S rung): greedy CTC decoding on symbolic frame scores.

The real `ctc_greedy_search` source (frame-wise max/argmax, blank and repeat removal, length masking, boolean-mask
selection + masked scatter, score product) is executed over symbolic probabilities of concrete small shape
(is_probs=True; the log-softmax normalisation of the other mode is left to the bounded driver). `max(dim)` returns the
maximum and SOME index attaining it (no tie rule). Proved for all contents, lengths and blank indices: the kept labels
are the frame-wise best labels within the valid length with blanks and repeats removed, in order; out_lens counts them;
the score is the product of the frame maxima within the valid length.
"""
import z3

from vf.pyvc import api, ctensor as ct, interp as ip
from vf.pyvc.api import VC

M = "pydrobert.torch._decoding"


def greedy_vc(N, T, V, batch_first, with_lens):
    import pydrobert.torch._decoding as D

    name = "N%dT%dV%d[bf=%s,in_lens=%s]" % (N, T, V, batch_first, "given" if with_lens else "omitted")
    BLANK = z3.Int("blank_idx")

    def thunk(I):
        probs = ct.CT.symbolic("p", (N, T, V), "float")
        lens = ct.CT.symbolic("len", (N,), "long") if with_lens else None
        I.ex.ghost.update(probs=probs, lens=lens)
        x = probs if batch_first else ct.CT(ct.np.swapaxes(probs.a, 0, 1).copy(), "float")
        # blank index: enumerate the legal range concretely inside one VC by branching
        for b in range(-V, V):
            if I.ex.branch(BLANK == b):
                I.ex.ghost["blank"] = (b + V) % V
                return I.call(D.ctc_greedy_search, [x, lens, b, batch_first, True], {})
        raise ip.PathAbort()

    def post(p):
        if not api.returns(p) or not isinstance(p.value, tuple) or len(p.value) != 3:
            return False
        score, paths, out_lens = p.value
        probs, lens, blank = p.ghost["probs"], p.ghost["lens"], p.ghost["blank"]
        arg = [a for a in p.ghost.get("argext", []) if a[2].shape == (N, T)]
        if not arg:
            return False
        best = arg[0][2]  # the frame-wise labels the reduction reported (each attains the frame maximum by max's contract)
        goals = []
        for n in range(N):
            L = lens.a[n] if lens is not None else z3.IntVal(T)
            keep, before = [], []
            acc = z3.IntVal(0)
            for t in range(T):
                a_t = ip.to_z3(best[n, t])
                k = z3.And(t < L, a_t != blank)
                if t > 0:
                    k = z3.And(k, a_t != ip.to_z3(best[n, t - 1]))
                # and the reported label really is a best label of its frame
                goals.append(("n%d.t%d.best" % (n, t), z3.And([z3.Implies(a_t == v, z3.And([probs.a[n, t, v] >= probs.a[n, t, w] for w in range(V)])) for v in range(V)] + [a_t >= 0, a_t < V])))
                keep.append(k)
                before.append(acc)
                acc = acc + z3.If(k, 1, 0)
            goals.append(("n%d.len" % n, ip.to_z3(out_lens.a[n]) == acc))
            for q in range(T):
                got = paths.a[(n, q) if batch_first else (q, n)]
                for t in range(T):
                    goals.append(("n%d.slot%d.from%d" % (n, q, t), z3.Implies(z3.And(keep[t], before[t] == q), ip.to_z3(got) == ip.to_z3(best[n, t]))))
            prod = z3.RealVal(1)
            for t in range(T):
                mx = probs.a[n, t, 0]
                for v in range(1, V):
                    mx = z3.If(probs.a[n, t, v] > mx, probs.a[n, t, v], mx)
                prod = prod * z3.If(t < L, mx, z3.RealVal(1))
            goals.append(("n%d.score" % n, ip.to_z3(score.a[n]) == prod))
        return goals

    pre = [z3.Int("blank_idx") >= -V, z3.Int("blank_idx") < V]
    if with_lens:
        pre += [z3.And(z3.Int("len_%d" % n) >= 0, z3.Int("len_%d" % n) <= T) for n in range(N)]
    return VC("C07.S.greedy_ctc", name, M, "ctc_greedy_search", thunk, pre=pre, posts=[("best_labels_collapsed", post)],
              inputs={"blank_idx": BLANK}, timeout_ms=60000,
              assumptions=["max(dim) returns the maximum and SOME index attaining it (no tie rule assumed)", "is_probs=True; float arithmetic as real arithmetic",
                           "boolean-mask selection + masked_scatter = stable row-major compaction (vf/pyvc/ctensor.py)"])


def slp_p_vc(eos_set):
    """P rung: sequence_log_probs (tensor input, sequence dimension 0) for SYMBOLIC sequence length T, batch size B and vocabulary V.
    log_softmax is an uninterpreted element function LS(t, b, v) (only its values at the chosen tokens matter); `_lens_from_eos`
    is replaced by its contract (first-eos length, C01.P.lens_first_eos); the final reduction has the assumed partial-sum contract.
    Proved for a skolem position (t0, b0): the result is the sum over t of
        LS(t, b, hyp[t, b])  if 0 <= hyp[t, b] < V and t <= first eos position (eos configured) else 0."""
    import pydrobert.torch._decoding as D
    from vf.pyvc import symtensor as stn

    T, B, V, T0, B0, EOSV = z3.Ints("T B V t0 b0 eos")
    HYPF = z3.Function("hyp", z3.IntSort(), z3.IntSort(), z3.IntSort())
    LS = z3.Function("log_softmax", z3.IntSort(), z3.IntSort(), z3.IntSort(), z3.RealSort())
    LOGIT = z3.Function("logit", z3.IntSort(), z3.IntSort(), z3.IntSort(), z3.RealSort())
    FE = z3.Function("first_eos_len", z3.IntSort(), z3.IntSort())  # b -> index of the first eos in column b, T if none
    name = "sequence_log_probs[symbolic T, B, V; dim=0; eos=%s]" % ("set" if eos_set else "unset")
    b_ = z3.Int("b_q")

    def thunk(I):
        I.stubs.update(stn.stubs())
        logits = stn.ST((T, B, V), lambda t, b, v: LOGIT(ip.to_z3(t), ip.to_z3(b), ip.to_z3(v)), "float")
        hyp = stn.ST((T, B), lambda t, b: HYPF(ip.to_z3(t), ip.to_z3(b)), "long")

        def log_softmax(I2, x, dim=-1, **k):
            I2.ex.oblige("log_softmax.over_the_class_dimension_of_the_logits", z3.And(z3.BoolVal(dim in (-1, 2) and x is logits)))
            return stn.ST((T, B, V), lambda t, b, v: LS(ip.to_z3(t), ip.to_z3(b), ip.to_z3(v)), "float")

        I.stubs["torch.nn.functional.log_softmax"] = I.stubs["torch.log_softmax"] = log_softmax

        def lens_contract(I2, a, k):
            tok, e, d = a[0], a[1], a[2]
            I2.ex.oblige("lens.called_on_hyp_eos_dim0", z3.And(z3.BoolVal(d == 0 and tok is hyp), ip.to_z3(e) == EOSV))
            bound = lambda bb: z3.Implies(z3.And(0 <= bb, bb < B), z3.And(0 <= FE(bb), FE(bb) <= T))
            I2.ex.assume(z3.ForAll([b_], bound(b_)))
            I2.ex.instance(bound(B0))
            return stn.ST((B,), lambda bb: FE(ip.to_z3(bb)), "long")

        I.contracts["pydrobert.torch._string._lens_from_eos"] = lens_contract
        out = I.call(D.sequence_log_probs, [logits, hyp, 0, EOSV if eos_set else None], {})
        sums = [x for x in I.ex.ghost.get("sums", []) if x.get("kind") == "sum"]
        I.ex.ghost["the_sum"] = sums[-1] if sums else None
        return out

    def post(p):
        if not api.returns(p) or not hasattr(p.value, "elem") or p.ghost.get("the_sum") is None:
            return False
        sm = p.ghost["the_sum"]
        tok = HYPF(T0, B0)
        counted = z3.And(0 <= tok, tok < V)
        if eos_set:
            counted = z3.And(counted, T0 <= FE(B0))  # up to and including the first eos
        want = z3.If(counted, LS(T0, B0, tok), z3.RealVal(0))
        return [("result_is_the_sum_over_the_sequence_dimension", z3.And(z3.BoolVal(len(p.value.shape) == 1), ip.to_z3(p.value.shape[0]) == B, sm["T"] == T, ip.to_z3(p.value.elem(B0)) == sm["S"](B0, T))),
                ("summand_is_the_log_softmax_of_the_chosen_token_or_zero", ip.to_z3(sm["val"]([B0], T0)) == want)]

    return VC("C07.P.slp_summand", name, M, "_sequence_log_probs_tensor", thunk, pre=[T >= 0, B >= 1, V >= 1, 0 <= T0, T0 < T, 0 <= B0, B0 < B], posts=[("sum_of_chosen_log_softmax_values", post)],
              inputs={"T": T, "B": B, "V": V}, timeout_ms=30000,
              twins=[("eos_itself_excluded", lambda p: (ip.to_z3(p.ghost["the_sum"]["val"]([B0], T0)) == z3.If(z3.And(0 <= HYPF(T0, B0), HYPF(T0, B0) < V, T0 < FE(B0)), LS(T0, B0, HYPF(T0, B0)), z3.RealVal(0))) if api.returns(p) and p.ghost.get("the_sum") else None)] if eos_set else [],
              assumptions=["log_softmax over the class dimension is an uninterpreted element function; sum over a symbolic extent = partial sums (assumed contract); callee contract of _lens_from_eos (C01.P.lens_first_eos)",
                           "tensor input with the sequence dimension first and one batch dimension; other layouts and packed input: bounded driver; float arithmetic treated as real arithmetic"])


def p_vcs(ctx):
    return [slp_p_vc(True), slp_p_vc(False)]


def vcs(ctx):
    out = []
    shapes = [(1, 2, 2), (2, 2, 2), (1, 3, 2)] if ctx.quick else [(1, 1, 2), (1, 2, 2), (2, 2, 2), (1, 3, 2), (1, 3, 3), (2, 3, 2)]
    for (N, T, V) in shapes:
        for bf in (False, True):
            for wl in (True, False):
                if ctx.quick and (bf != wl):
                    continue
                out.append(greedy_vc(N, T, V, bf, wl))
    return out
