"""C07, engine A part (S rung): greedy CTC decoding on symbolic frame scores.

The real `ctc_greedy_search` source (frame-wise max/argmax, blank and repeat removal, length masking, boolean-mask
selection + masked scatter, score product) is executed over symbolic probabilities of concrete small shape
(is_probs=True; the log-softmax normalisation of the other mode is left to the bounded driver). `max(dim)` returns the
maximum and SOME index attaining it (no tie rule). Proved for all contents, lengths and blank indices: the kept labels
are the frame-wise best labels within the valid length with blanks and repeats removed, in order; out_lens counts them;
the score is the product of the frame maxima within the valid length.
"""
import z3

from vf.pyvc import api, ctensor as ct, interp as ip
from vf.pyvc.api import VC

M = "pydrobert.torch._decoding"


def greedy_vc(N, T, V, batch_first, with_lens):
    import pydrobert.torch._decoding as D

    name = "N%dT%dV%d[bf=%s,in_lens=%s]" % (N, T, V, batch_first, "given" if with_lens else "omitted")
    BLANK = z3.Int("blank_idx")

    def thunk(I):
        probs = ct.CT.symbolic("p", (N, T, V), "float")
        lens = ct.CT.symbolic("len", (N,), "long") if with_lens else None
        I.ex.ghost.update(probs=probs, lens=lens)
        x = probs if batch_first else ct.CT(ct.np.swapaxes(probs.a, 0, 1).copy(), "float")
        # blank index: enumerate the legal range concretely inside one VC by branching
        for b in range(-V, V):
            if I.ex.branch(BLANK == b):
                I.ex.ghost["blank"] = (b + V) % V
                return I.call(D.ctc_greedy_search, [x, lens, b, batch_first, True], {})
        raise ip.PathAbort()

    def post(p):
        if not api.returns(p) or not isinstance(p.value, tuple) or len(p.value) != 3:
            return False
        score, paths, out_lens = p.value
        probs, lens, blank = p.ghost["probs"], p.ghost["lens"], p.ghost["blank"]
        arg = [a for a in p.ghost.get("argext", []) if a[2].shape == (N, T)]
        if not arg:
            return False
        best = arg[0][2]  # the frame-wise labels the reduction reported (each attains the frame maximum by max's contract)
        goals = []
        for n in range(N):
            L = lens.a[n] if lens is not None else z3.IntVal(T)
            keep, before = [], []
            acc = z3.IntVal(0)
            for t in range(T):
                a_t = ip.to_z3(best[n, t])
                k = z3.And(t < L, a_t != blank)
                if t > 0:
                    k = z3.And(k, a_t != ip.to_z3(best[n, t - 1]))
                # and the reported label really is a best label of its frame
                goals.append(("n%d.t%d.best" % (n, t), z3.And([z3.Implies(a_t == v, z3.And([probs.a[n, t, v] >= probs.a[n, t, w] for w in range(V)])) for v in range(V)] + [a_t >= 0, a_t < V])))
                keep.append(k)
                before.append(acc)
                acc = acc + z3.If(k, 1, 0)
            goals.append(("n%d.len" % n, ip.to_z3(out_lens.a[n]) == acc))
            for q in range(T):
                got = paths.a[(n, q) if batch_first else (q, n)]
                for t in range(T):
                    goals.append(("n%d.slot%d.from%d" % (n, q, t), z3.Implies(z3.And(keep[t], before[t] == q), ip.to_z3(got) == ip.to_z3(best[n, t]))))
            prod = z3.RealVal(1)
            for t in range(T):
                mx = probs.a[n, t, 0]
                for v in range(1, V):
                    mx = z3.If(probs.a[n, t, v] > mx, probs.a[n, t, v], mx)
                prod = prod * z3.If(t < L, mx, z3.RealVal(1))
            goals.append(("n%d.score" % n, ip.to_z3(score.a[n]) == prod))
        return goals

    pre = [z3.Int("blank_idx") >= -V, z3.Int("blank_idx") < V]
    if with_lens:
        pre += [z3.And(z3.Int("len_%d" % n) >= 0, z3.Int("len_%d" % n) <= T) for n in range(N)]
    return VC("C07.S.greedy_ctc", name, M, "ctc_greedy_search", thunk, pre=pre, posts=[("best_labels_collapsed", post)],
              inputs={"blank_idx": BLANK}, timeout_ms=60000,
              assumptions=["max(dim) returns the maximum and SOME index attaining it (no tie rule assumed)", "is_probs=True; float arithmetic as real arithmetic",
                           "boolean-mask selection + masked_scatter = stable row-major compaction (vf/pyvc/ctensor.py)"])


def vcs(ctx):
    out = []
    shapes = [(1, 2, 2), (2, 2, 2), (1, 3, 2)] if ctx.quick else [(1, 1, 2), (1, 2, 2), (2, 2, 2), (1, 3, 2), (1, 3, 3), (2, 3, 2)]
    for (N, T, V) in shapes:
        for bf in (False, True):
            for wl in (True, False):
                if ctx.quick and (bf != wl):
                    continue
                out.append(greedy_vc(N, T, V, bf, wl))
    return out
