"""C07, engine A part (S rung): greedy CTC decoding on symbolic frame scores.

The real `ctc_greedy_search` source (frame-wise max/argmax, blank and repeat removal, length masking, boolean-mask
selection + masked scatter, score product) is executed over symbolic probabilities of concrete small shape
(is_probs=True; the log-softmax normalisation of the other mode is left to the bounded driver). `max(dim)` returns the
maximum and SOME index attaining it (no tie rule). Proved for all contents, lengths and blank indices: the kept labels
are the frame-wise best labels within the valid length with blanks and repeats removed, in order; out_lens counts them;
the score is the product of the frame maxima within the valid length.
"""
import z3

from vf.pyvc import api, ctensor as ct, interp as ip
from vf.pyvc.api import VC

M = "pydrobert.torch._decoding"


def greedy_vc(N, T, V, batch_first, with_lens):
    import pydrobert.torch._decoding as D

    name = "N%dT%dV%d[bf=%s,in_lens=%s]" % (N, T, V, batch_first, "given" if with_lens else "omitted")
    BLANK = z3.Int("blank_idx")

    def thunk(I):
        probs = ct.CT.symbolic("p", (N, T, V), "float")
        lens = ct.CT.symbolic("len", (N,), "long") if with_lens else None
        I.ex.ghost.update(probs=probs, lens=lens)
        x = probs if batch_first else ct.CT(ct.np.swapaxes(probs.a, 0, 1).copy(), "float")
        # blank index: enumerate the legal range concretely inside one VC by branching
        for b in range(-V, V):
            if I.ex.branch(BLANK == b):
                I.ex.ghost["blank"] = (b + V) % V
                return I.call(D.ctc_greedy_search, [x, lens, b, batch_first, True], {})
        raise ip.PathAbort()

    def post(p):
        if not api.returns(p) or not isinstance(p.value, tuple) or len(p.value) != 3:
            return False
        score, paths, out_lens = p.value
        probs, lens, blank = p.ghost["probs"], p.ghost["lens"], p.ghost["blank"]
        arg = [a for a in p.ghost.get("argext", []) if a[2].shape == (N, T)]
        if not arg:
            return False
        best = arg[0][2]  # the frame-wise labels the reduction reported (each attains the frame maximum by max's contract)
        goals = []
        for n in range(N):
            L = lens.a[n] if lens is not None else z3.IntVal(T)
            keep, before = [], []
            acc = z3.IntVal(0)
            for t in range(T):
                a_t = ip.to_z3(best[n, t])
                k = z3.And(t < L, a_t != blank)
                if t > 0:
                    k = z3.And(k, a_t != ip.to_z3(best[n, t - 1]))
                # and the reported label really is a best label of its frame
                goals.append(("n%d.t%d.best" % (n, t), z3.And([z3.Implies(a_t == v, z3.And([probs.a[n, t, v] >= probs.a[n, t, w] for w in range(V)])) for v in range(V)] + [a_t >= 0, a_t < V])))
                keep.append(k)
                before.append(acc)
                acc = acc + z3.If(k, 1, 0)
            goals.append(("n%d.len" % n, ip.to_z3(out_lens.a[n]) == acc))
            for q in range(T):
                got = paths.a[(n, q) if batch_first else (q, n)]
                for t in range(T):
                    goals.append(("n%d.slot%d.from%d" % (n, q, t), z3.Implies(z3.And(keep[t], before[t] == q), ip.to_z3(got) == ip.to_z3(best[n, t]))))
            prod = z3.RealVal(1)
            for t in range(T):
                mx = probs.a[n, t, 0]
                for v in range(1, V):
                    mx = z3.If(probs.a[n, t, v] > mx, probs.a[n, t, v], mx)
                prod = prod * z3.If(t < L, mx, z3.RealVal(1))
            goals.append(("n%d.score" % n, ip.to_z3(score.a[n]) == prod))
        return goals

    pre = [z3.Int("blank_idx") >= -V, z3.Int("blank_idx") < V]
    if with_lens:
        pre += [z3.And(z3.Int("len_%d" % n) >= 0, z3.Int("len_%d" % n) <= T) for n in range(N)]
    return VC("C07.S.greedy_ctc", name, M, "ctc_greedy_search", thunk, pre=pre, posts=[("best_labels_collapsed", post)],
              inputs={"blank_idx": BLANK}, timeout_ms=60000,
              assumptions=["max(dim) returns the maximum and SOME index attaining it (no tie rule assumed)", "is_probs=True; float arithmetic as real arithmetic",
                           "boolean-mask selection + masked_scatter = stable row-major compaction (vf/pyvc/ctensor.py)"])


def slp_p_vc(eos_set):
    """P rung: sequence_log_probs (tensor input, sequence dimension 0) for SYMBOLIC sequence length T, batch size B and vocabulary V.
    log_softmax is an uninterpreted element function LS(t, b, v) (only its values at the chosen tokens matter); `_lens_from_eos`
    is replaced by its contract (first-eos length, C01.P.lens_first_eos); the final reduction has the assumed partial-sum contract.
    Proved for a skolem position (t0, b0): the result is the sum over t of
        LS(t, b, hyp[t, b])  if 0 <= hyp[t, b] < V and t <= first eos position (eos configured) else 0."""
    import pydrobert.torch._decoding as D
    from vf.pyvc import symtensor as stn

    T, B, V, T0, B0, EOSV = z3.Ints("T B V t0 b0 eos")
    HYPF = z3.Function("hyp", z3.IntSort(), z3.IntSort(), z3.IntSort())
    LS = z3.Function("log_softmax", z3.IntSort(), z3.IntSort(), z3.IntSort(), z3.RealSort())
    LOGIT = z3.Function("logit", z3.IntSort(), z3.IntSort(), z3.IntSort(), z3.RealSort())
    FE = z3.Function("first_eos_len", z3.IntSort(), z3.IntSort())  # b -> index of the first eos in column b, T if none
    name = "sequence_log_probs[symbolic T, B, V; dim=0; eos=%s]" % ("set" if eos_set else "unset")
    b_ = z3.Int("b_q")

    def thunk(I):
        I.stubs.update(stn.stubs())
        logits = stn.ST((T, B, V), lambda t, b, v: LOGIT(ip.to_z3(t), ip.to_z3(b), ip.to_z3(v)), "float")
        hyp = stn.ST((T, B), lambda t, b: HYPF(ip.to_z3(t), ip.to_z3(b)), "long")

        def log_softmax(I2, x, dim=-1, **k):
            I2.ex.oblige("structure.log_softmax.over_the_class_dimension_of_the_logits", z3.And(z3.BoolVal(dim in (-1, 2) and x is logits)))
            return stn.ST((T, B, V), lambda t, b, v: LS(ip.to_z3(t), ip.to_z3(b), ip.to_z3(v)), "float")

        I.stubs["torch.nn.functional.log_softmax"] = I.stubs["torch.log_softmax"] = log_softmax

        def lens_contract(I2, a, k):
            tok, e, d = a[0], a[1], a[2]
            I2.ex.oblige("structure.lens.called_on_hyp_eos_dim0", z3.And(z3.BoolVal(d == 0 and tok is hyp), ip.to_z3(e) == EOSV))
            bound = lambda bb: z3.Implies(z3.And(0 <= bb, bb < B), z3.And(0 <= FE(bb), FE(bb) <= T))
            I2.ex.assume(z3.ForAll([b_], bound(b_)))
            I2.ex.instance(bound(B0))
            return stn.ST((B,), lambda bb: FE(ip.to_z3(bb)), "long")

        I.contracts["pydrobert.torch._string._lens_from_eos"] = lens_contract
        out = I.call(D.sequence_log_probs, [logits, hyp, 0, EOSV if eos_set else None], {})
        sums = [x for x in I.ex.ghost.get("sums", []) if x.get("kind") == "sum"]
        I.ex.ghost["the_sum"] = sums[-1] if sums else None
        return out

    def post(p):
        if not api.returns(p) or not hasattr(p.value, "elem") or p.ghost.get("the_sum") is None:
            return False
        sm = p.ghost["the_sum"]
        tok = HYPF(T0, B0)
        counted = z3.And(0 <= tok, tok < V)
        if eos_set:
            counted = z3.And(counted, T0 <= FE(B0))  # up to and including the first eos
        want = z3.If(counted, LS(T0, B0, tok), z3.RealVal(0))
        return [("result_is_the_sum_over_the_sequence_dimension", z3.And(z3.BoolVal(len(p.value.shape) == 1), ip.to_z3(p.value.shape[0]) == B, sm["T"] == T, ip.to_z3(p.value.elem(B0)) == sm["S"](B0, T))),
                ("summand_is_the_log_softmax_of_the_chosen_token_or_zero", ip.to_z3(sm["val"]([B0], T0)) == want)]

    return VC("C07.P.slp_summand", name, M, "_sequence_log_probs_tensor", thunk, pre=[T >= 0, B >= 1, V >= 1, 0 <= T0, T0 < T, 0 <= B0, B0 < B], posts=[("sum_of_chosen_log_softmax_values", post)],
              inputs={"T": T, "B": B, "V": V}, timeout_ms=30000,
              twins=[("eos_itself_excluded", lambda p: (ip.to_z3(p.ghost["the_sum"]["val"]([B0], T0)) == z3.If(z3.And(0 <= HYPF(T0, B0), HYPF(T0, B0) < V, T0 < FE(B0)), LS(T0, B0, HYPF(T0, B0)), z3.RealVal(0))) if api.returns(p) and p.ghost.get("the_sum") else None)] if eos_set else [],
              assumptions=["log_softmax over the class dimension is an uninterpreted element function; sum over a symbolic extent = partial sums (assumed contract); callee contract of _lens_from_eos (C01.P.lens_first_eos)",
                           "tensor input with the sequence dimension first and one batch dimension; other layouts and packed input: bounded driver; float arithmetic treated as real arithmetic"])


def greedy_p_vc(batch_first):
    """P rung: ctc_greedy_search (log-domain, lengths given) for SYMBOLIC batch size N, frames T >= 1, vocabulary V and blank index.
    log_softmax is an uninterpreted element function (the specification is over the normalised scores themselves); max along the class
    dimension has the assumed contract `upper bound, attained at the reported label` (no tie rule); masked_select / masked_scatter_ the
    row-major compaction contract; sums the partial-sum contract. With best(n, t) the label max reports for frame t and
        keep(n, t) = t < in_len[n] and best(n, t) != blank and (t = 0 or best(n, t) != best(n, t - 1)),
        cnt(n, t) = number of kept frames of sequence n before t (partial sums of the code's own count):
      - best(n, t) is a label of maximal normalised score in its frame;
      - out_lens[n] = cnt(n, T);  a kept frame t puts best(n, t) at position cnt(n, t) of the path (blanks and repeats removed, order kept);
      - the reported score is the sum over t < in_len[n] of the frame maxima (summand checked element-wise).
    Compaction reasoning as in C09 for rank-2 tensors: the source counter equals cnt by induction over t, the destination is the
    prefix window [0, out_lens[n]), equal totals per sequence by induction over n."""
    import pydrobert.torch._decoding as D
    from vf.pyvc import symtensor as stn

    z = ip.to_z3
    N, T, V, BLANK, N0, T0, N1, T1, Q0, V0 = z3.Ints("N T V blank_idx n0 t0 n1 t1 q0 v0")
    Iz, Rz = z3.IntSort(), z3.RealSort()
    LOGIT, LENS = z3.Function("logit", Iz, Iz, Iz, Rz), z3.Function("in_lens", Iz, Iz)
    blank = z3.If(BLANK < 0, BLANK + V, BLANK)
    a_, b_ = z3.Ints("a_q b_q")
    clamp = lambda v, lo, hi: z3.If(v < lo, lo, z3.If(v > hi, hi, v))

    def thunk(I):
        I.stubs.update(stn.stubs())
        le = (lambda n, t, v: LOGIT(z(n), z(t), z(v))) if batch_first else (lambda t, n, v: LOGIT(z(n), z(t), z(v)))
        logits = stn.ST((N, T, V) if batch_first else (T, N, V), le, "float")
        lens = stn.ST((N,), lambda n: LENS(z(n)), "long")
        # (b + V) mod V for -V <= b < V: proved as the raw lemma `blank_index_normalised`, stated here as a fact
        I.ex.assume((BLANK + V) % V == blank)

        def hook(rec2, src):
            rec1 = getattr(src, "compaction", None)
            sums = [s_ for s_ in I.ex.ghost.get("sums", []) if s_.get("kind") == "sum"]
            dm, ls = I.ex.ghost.get("dim_maxes", []), I.ex.ghost.get("log_softmaxes", [])
            if rec1 is None or rec1["rank_"] != 2 or rec2["rank_"] != 2 or len(sums) != 2 or len(dm) != 1 or len(ls) != 1 or "cnt" in I.ex.ghost:
                raise ip.Unsupported("ctc_greedy_search: one log_softmax, one max over the classes, the count of the kept frames, the score sum and then one scatter of the selected labels expected")
            sm, mx = sums[0], dm[0]
            PS, AR = sm["S"], mx["AR"]
            KEEP = lambda n, t: z3.And(t < LENS(n), AR(n, t) != blank, z3.Or(t == 0, AR(n, t) != AR(n, t - 1)))
            I.ex.ghost.update(cnt=PS, best=AR, frame_max=mx["MX"], LS=ls[0]["LS"], ls_dim=ls[0]["dim"], mx=mx)
            for y in (mx["att"]([N1, T1]), mx["att"]([N1, T1 - 1]), mx["att"]([N0, T0]), mx["att"]([N0, T0 - 1]), mx["ub"]([N0, T0], V0)):
                I.ex.instance(y)
            I.ex.oblige("structure.compaction.extents", z3.And(sm["T"] == T, rec1["dims"][0] == N, rec1["dims"][1] == T, rec2["dims"][0] == N, rec2["dims"][1] == T, mx["n"] == V))
            cv = lambda n, t: z3.Implies(z3.And(0 <= n, n < N, 0 <= t, t < T), sm["val"]([n], t) == z3.If(KEEP(n, t), 1, 0))
            I.ex.oblige("compaction.counted_value_is_the_keep_rule", cv(N1, T1))
            I.ex.assume(z3.ForAll([a_, b_], cv(a_, b_)))
            for y in (sm["base"](N1), sm["step"](N1, T1), cv(N1, T1), sm["base"](N0), cv(N0, T0), sm["step"](N0, T0), sm["step"](N0, T1), cv(N0, T1)):
                I.ex.instance(y)
            rng = lambda n, t: z3.Implies(z3.And(0 <= n, n < N, 0 <= t, t <= T), z3.And(0 <= PS(n, t), PS(n, t) <= t))
            I.ex.oblige("count.range.base", rng(N1, z3.IntVal(0)))
            I.ex.oblige("count.range.step", z3.Implies(z3.And(0 <= T1, T1 < T, rng(N1, T1)), rng(N1, T1 + 1)))
            I.ex.assume(z3.ForAll([a_, b_], rng(a_, b_)))
            later = lambda t: z3.Implies(z3.And(0 <= N0, N0 < N, 0 <= T0, T0 < t, t <= T, KEEP(N0, T0)), PS(N0, t) >= PS(N0, T0) + 1)
            I.ex.oblige("count.grows_after_a_kept_frame.base", later(T0 + 1))
            I.ex.oblige("count.grows_after_a_kept_frame.step", z3.Implies(z3.And(T0 < T1, T1 < T, later(T1)), later(T1 + 1)))
            I.ex.assume(z3.ForAll([b_], later(b_)))
            for y in (later(T), rng(N0, T0), rng(N0, T), rng(N1, T), rng(N1, T1)):
                I.ex.instance(y)
            m1 = lambda n, t: z3.Implies(z3.And(0 <= n, n < N, 0 <= t, t < T), rec1["mask"]([n, t]) == KEEP(n, t))
            m2 = lambda n, t: z3.Implies(z3.And(0 <= n, n < N, 0 <= t, t < T), rec2["mask"]([n, t]) == (t < PS(n, T)))
            I.ex.oblige("compaction.source.mask_is_the_keep_rule", m1(N1, T1))
            I.ex.oblige("compaction.destination.mask_is_the_prefix_window", m2(N1, T1))
            I.ex.assume(z3.ForAll([a_, b_], m1(a_, b_)))
            I.ex.assume(z3.ForAll([a_, b_], m2(a_, b_)))
            c1, c2 = rec1["CNT"], rec2["CNT"]
            cl1 = lambda n, t: z3.Implies(z3.And(0 <= n, n < N, 0 <= t, t <= T), c1[1](n, t) == PS(n, t))
            cl2 = lambda n, t: z3.Implies(z3.And(0 <= n, n < N, 0 <= t, t <= T), c2[1](n, t) == clamp(t, 0, PS(n, T)))
            for tag, rec, cl, mm in (("source", rec1, cl1, m1), ("destination", rec2, cl2, m2)):
                for y in (rec["base"](1, [N1]), rec["step"](1, [N1], T1), mm(N1, T1)):
                    I.ex.instance(y)
                I.ex.oblige("compaction.%s.frames.base" % tag, cl(N1, z3.IntVal(0)))
                I.ex.oblige("compaction.%s.frames.step" % tag, z3.Implies(z3.And(0 <= T1, T1 < T, cl(N1, T1)), cl(N1, T1 + 1)))
                I.ex.assume(z3.ForAll([a_, b_], cl(a_, b_)))
            same = lambda n: z3.Implies(z3.And(0 <= n, n <= N), c1[0](n) == c2[0](n))
            for y in (rec1["base"](0, []), rec2["base"](0, []), rec1["step"](0, [], N1), rec2["step"](0, [], N1), cl1(N1, T), cl2(N1, T)):
                I.ex.instance(y)
            I.ex.oblige("compaction.sequences.base", same(z3.IntVal(0)))
            I.ex.oblige("compaction.sequences.step", z3.Implies(z3.And(0 <= N1, N1 < N, same(N1)), same(N1 + 1)))
            I.ex.assume(z3.ForAll([a_], same(a_)))
            q = PS(N0, T0)
            for y in (same(N), same(N0), cl1(N0, T0), cl2(N0, q), rec1["inj"]([N0, T0]), m1(N0, T0), m2(N0, q)):
                I.ex.instance(y)
            I.ex.ghost["KEEP"] = KEEP

        I.ex.ghost["scatter_hooks"] = [hook]
        return I.call(D.ctc_greedy_search, [logits, lens, BLANK, batch_first, False], {})

    def post(p):
        if not api.returns(p) or not isinstance(p.value, tuple) or len(p.value) != 3 or "cnt" not in p.ghost:
            return False
        score, paths, out_lens = p.value
        g = p.ghost
        PS, AR, MX, LS, KEEP = g["cnt"], g["best"], g["frame_max"], g["LS"], g["KEEP"]
        sums = [s_ for s_ in g.get("sums", []) if s_.get("kind") == "sum"]
        if len(sums) != 2:
            return [("one_count_and_one_score_sum", z3.BoolVal(False))]
        ssum = sums[1]
        pe = (lambda n, q: z(paths.elem(n, q))) if batch_first else (lambda n, q: z(paths.elem(q, n)))
        ls = (lambda n, t, v: LS(n, t, v)) if batch_first else (lambda n, t, v: LS(t, n, v))
        at = z3.And(0 <= N0, N0 < N, 0 <= T0, T0 < T)
        return [("result_shapes", z3.And(z3.BoolVal(len(score.shape) == 1 and len(paths.shape) == 2 and len(out_lens.shape) == 1), z(score.shape[0]) == N, z(out_lens.shape[0]) == N,
                                         z(paths.shape[0 if batch_first else 1]) == N, z(paths.shape[1 if batch_first else 0]) == T, z3.BoolVal(g["ls_dim"] == 2))),
                ("frame_label_has_the_maximal_normalised_score", z3.Implies(z3.And(at, 0 <= V0, V0 < V), z3.And(0 <= AR(N0, T0), AR(N0, T0) < V, ls(N0, T0, AR(N0, T0)) == MX(N0, T0), ls(N0, T0, V0) <= MX(N0, T0)))),
                ("reported_length_is_the_number_of_kept_frames", z3.Implies(z3.And(0 <= N0, N0 < N), z(out_lens.elem(N0)) == PS(N0, T))),
                ("kept_frame_puts_its_label_at_its_count", z3.Implies(z3.And(at, KEEP(N0, T0)), z3.And(PS(N0, T0) < PS(N0, T), pe(N0, PS(N0, T0)) == AR(N0, T0)))),
                ("score_is_the_sum_of_the_frame_maxima_within_the_length", z3.And(ssum["T"] == T, z3.Implies(z3.And(0 <= N0, N0 < N), z(score.elem(N0)) == ssum["S"](N0, T)),
                                                                                  z3.Implies(at, ssum["val"]([N0], T0) == z3.If(T0 < LENS(N0), MX(N0, T0), z3.RealVal(0)))))]

    bb, vv = z3.Ints("b_l v_l")
    lemmas = [("blank_index_normalised", [vv >= 1, -vv <= bb, bb < vv], (bb + vv) % vv == z3.If(bb < 0, bb + vv, bb), "raw")]
    pre = [N >= 1, T >= 1, V >= 1, -V <= BLANK, BLANK < V]
    return VC("C07.P.greedy", "ctc_greedy_search[log domain, batch_first=%s; symbolic N, T, V, blank, lengths]" % batch_first, M, "ctc_greedy_search", thunk, pre=pre, posts=[("greedy_path_and_score", post)], lemmas=lemmas,
              inputs={"N": N, "T": T, "V": V, "blank_idx": BLANK}, timeout_ms=40000, max_paths=64, witness_hints=[N == 1, T == 2, V == 2, BLANK == 0],
              assumptions=["log_softmax: uninterpreted element function; max over the classes: upper bound attained at the reported label (no tie rule); masked_select / masked_scatter_: row-major compaction through counters; sum: partial sums (assumed contracts of vf/pyvc/symtensor.py, differentially tested against torch)",
                           "the inductions (count range, count growth, frames, sequences) are applied outside the solver: base and step are obligations; (b + V) mod V by the raw lemma blank_index_normalised",
                           "log domain with lengths given, T >= 1 (probability domain uses prod, omitted lengths and T = 0: S rung and bounded driver); float arithmetic treated as real arithmetic"])


def walk_step_p_vc():
    """P rung: random_walk_advance (prefix lengths given) for SYMBOLIC batch size N, vocabulary V and number of prefix rows S.
    torch.multinomial(weights = exp(step scores), 1 draw) is under CONTRACT: the drawn label of every element is in range and has
    positive weight, i.e. its step score is not -inf (each row has a finite score - precondition; which positive-weight label is drawn
    is arbitrary). Postcondition at a skolem element / row: the drawn label is written at the element's length (rows below it unchanged;
    rows beyond are not part of the path), the path tensor grows by one row exactly when some prefix is full, the new score is the old
    one plus the (finite) step score of the drawn label."""
    import pydrobert.torch._decoding as D
    from vf.pyvc import symtensor as stn

    z = ip.to_z3
    N, V, S, N0, R0, A0 = z3.Ints("N V S n0 r0 a0")
    Iz, Rz, Bz = z3.IntSort(), z3.RealSort(), z3.BoolSort()
    LTF, LT, LP, Y, LEN, DRAW = (z3.Function(nm, *so) for nm, so in (("step_score_is_minus_inf", (Iz, Iz, Bz)), ("step_score", (Iz, Iz, Rz)), ("score", (Iz, Rz)), ("y_prev", (Iz, Iz, Iz)), ("y_prev_lens", (Iz, Iz)), ("drawn", (Iz, Iz))))
    n_ = z3.Int("n_q")
    len_ok = lambda n: z3.Implies(z3.And(0 <= n, n < N), z3.And(0 <= LEN(n), LEN(n) <= S))
    draw_ok = lambda n: z3.Implies(z3.And(0 <= n, n < N), z3.And(0 <= DRAW(n), DRAW(n) < V, z3.Not(LTF(n, DRAW(n)))))

    def thunk(I):
        I.stubs.update(stn.stubs())
        lt = stn.ST((N, V), lambda n, v: ct.NegGuarded(LTF(z(n), z(v)), LT(z(n), z(v))), "float")
        lp = stn.ST((N,), lambda n: LP(z(n)), "float")
        y = stn.ST((S, N), lambda r, n: Y(z(r), z(n)), "long")
        lens = stn.ST((N,), lambda n: LEN(z(n)), "long")
        weights = []

        def exp_(I2, t):
            w = stn.ST(t.shape, lambda *idx: z3.RealVal(0), "float")
            w.exp_of = t
            weights.append(w)
            return w

        def multinomial(I2, w, num, replacement=False, **kw):
            I2.ex.oblige("structure.multinomial.one_draw_from_the_exponentiated_step_scores", z3.BoolVal(getattr(w, "exp_of", None) is lt and num == 1))
            I2.ex.assume(z3.ForAll([n_], draw_ok(n_)))
            for a in (N0, A0):
                I2.ex.instance(draw_ok(a))
            return stn.ST((N, 1), lambda n, j: DRAW(z(n)), "long")

        I.ex.ghost["method_overrides"] = {"exp": exp_}
        I.stubs["torch.multinomial"] = multinomial
        I.ex.ghost["skolem_hooks"] = [lambda ii: [len_ok(a) for a in ii] + [draw_ok(a) for a in ii]]
        I.ex.ghost["any_points"] = {1: [(N0,), (A0,)]}
        for a in (N0, A0):
            I.ex.instance(len_ok(a))
        out = I.call(D.random_walk_advance, [lt, lp, y, lens], {})
        for mx in I.ex.ghost.get("maxes", []):
            for a in (N0, A0):
                I.ex.instance(mx["ub"](a))
            if not isinstance(mx["argmax"], list):
                I.ex.instance(len_ok(mx["argmax"]))
        I.ex.ghost["maxes_"] = I.ex.ghost.get("maxes", [])
        return out

    def post(p):
        if not api.returns(p) or not isinstance(p.value, tuple) or len(p.value) != 2:
            return False
        y2, lp2 = p.value
        Bz_ = lambda c: z3.BoolVal(c) if isinstance(c, bool) else c
        rows = z(y2.shape[0])
        mxs = p.ghost.get("maxes_", [])
        at = z3.And(0 <= N0, N0 < N)
        return [("result_shapes", z3.And(z3.BoolVal(len(y2.shape) == 2 and len(lp2.shape) == 1), z(y2.shape[1]) == N, z(lp2.shape[0]) == N, z3.Or(rows == S, rows == S + 1))),
                ("path_tensor_grows_exactly_when_some_prefix_is_full", z3.And(z3.Implies(z3.And(0 <= A0, A0 < N, LEN(A0) == S), rows == S + 1),
                                                                             z3.Implies(rows == S + 1, z3.And([z3.And(0 <= mx["argmax"], mx["argmax"] < N, LEN(mx["argmax"]) == S) for mx in mxs if not isinstance(mx["argmax"], list)] or [S == 0])))),
                ("drawn_label_has_a_finite_step_score_which_is_added", z3.Implies(at, z3.And(0 <= DRAW(N0), DRAW(N0) < V, z3.Not(LTF(N0, DRAW(N0))), z3.Not(Bz_(ct.ng_split(lp2.elem(N0))[0])), z(ct.ng_split(lp2.elem(N0))[1]) == LP(N0) + LT(N0, DRAW(N0))))),
                ("drawn_label_written_at_the_length", z3.Implies(z3.And(at, 0 <= R0, R0 <= LEN(N0)), z3.And(LEN(N0) < rows, z(y2.elem(R0, N0)) == z3.If(R0 == LEN(N0), DRAW(N0), Y(R0, N0)))))]

    pre = [N >= 1, V >= 1, S >= 0, z3.ForAll([n_], len_ok(n_))]
    return VC("C07.P.walk_step", "random_walk_advance[symbolic N, V, rows; prefix lengths given]", M, "random_walk_advance", thunk, pre=pre, posts=[("one_step_of_the_walk", post)], inputs={"N": N, "V": V, "S": S},
              timeout_ms=40000, max_paths=64, witness_hints=[N == 1, V == 2, S == 1],
              assumptions=["torch.multinomial(exp(scores), one draw): the drawn label is in range and has a non -inf score (assumed contract; every row has a finite score); which such label is drawn is arbitrary",
                           "max over the lengths: an attained upper bound; gather / scatter / cat as index functions (vf/pyvc/symtensor.py); float arithmetic treated as real arithmetic, -inf as a flag"])


def walk_p_vcs(ctx):
    return [walk_step_p_vc()]


def greedy_p_vcs(ctx):
    return [greedy_p_vc(True), greedy_p_vc(False)]


def p_vcs(ctx):
    return [slp_p_vc(True), slp_p_vc(False)]


def vcs(ctx):
    out = []
    shapes = [(1, 2, 2), (2, 2, 2), (1, 3, 2)] if ctx.quick else [(1, 1, 2), (1, 2, 2), (2, 2, 2), (1, 3, 2), (1, 3, 3), (2, 3, 2)]
    for (N, T, V) in shapes:
        for bf in (False, True):
            for wl in (True, False):
                if ctx.quick and (bf != wl):
                    continue
                out.append(greedy_vc(N, T, V, bf, wl))
    return out
