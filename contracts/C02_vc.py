"""C02, engine A part (S rung: concrete shapes, symbolic contents).

The real `error_rate` / `prefix_error_rates` source is executed symbolically; for every pair the
reported count is proved to lie between the fewest and the most edits among minimum-cost alignments
(contracts/strspec.py::edits_tables), to equal the unit-cost Levenshtein distance when the three
costs are equal, and to follow the normalisation / empty-reference convention of the statement.
"""
import z3

from contracts import strspec as sp
from contracts.C01_vc import EOS, PAD, col, model_inputs, sym_pair
from vf.pyvc import api, ctensor as ct
from vf.pyvc.api import VC

M = "pydrobert.torch._string"
INS, DEL, SUB = z3.Reals("ins_cost del_cost sub_cost")


def er_vc(R, H, N, eos_set, include_eos, batch_first, norm, variant):
    import pydrobert.torch.functional as F

    name = "R%dH%dN%d[eos=%s,inc=%s,bf=%s,norm=%s,%s]" % (R, H, N, eos_set, include_eos, batch_first, norm, variant)
    eos = EOS if eos_set else None
    excl = variant == "prefix_excl"

    def thunk(I):
        ref_in, hyp_in, ref, hyp = sym_pair(R, H, N, batch_first)
        I.ex.ghost.update(ref=ref, hyp=hyp)
        kw = dict(eos=eos, include_eos=include_eos, norm=norm, batch_first=batch_first, ins_cost=INS, del_cost=DEL, sub_cost=SUB, warn=False)
        if variant == "rate":
            return I.call(F.error_rate, [ref_in, hyp_in], kw)
        return I.call(F.prefix_error_rates, [ref_in, hyp_in], dict(kw, padding=PAD, exclude_last=excl))

    uniform = z3.And(INS == DEL, DEL == SUB)

    def post(p):
        if not api.returns(p) or not isinstance(p.value, ct.CT):
            return False
        out, ref, hyp = p.value, p.ghost["ref"], p.ghost["hyp"]
        want_shape = (N,) if variant == "rate" else ((N, H + (0 if excl else 1)) if batch_first else (H + (0 if excl else 1), N))
        if out.shape != want_shape:
            return False
        goals = []
        one = z3.RealVal(1)
        for n in range(N):
            rc, hc = col(ref, n), col(hyp, n)
            rl, hl = sp.first_eos_len(rc, eos, include_eos), sp.first_eos_len(hc, eos, include_eos)
            D, Emin, Emax = sp.edits_tables(rc, hc, INS, DEL, SUB)
            D1 = sp.lev_table(rc, hc, one, one, one)

            def clause(got, lo, hi, lev1, jlen):
                """got vs [lo, hi] edits, = lev1 when costs equal; jlen = length of the hypothesis (prefix)"""
                lo, hi = z3.ToReal(lo), z3.ToReal(hi)
                if norm:
                    rlr = z3.ToReal(rl)
                    nonempty = z3.And(lo <= got * rlr, got * rlr <= hi, z3.Implies(uniform, got * rlr == lev1))
                    empty = got == z3.If(jlen > 0, one, z3.RealVal(0))  # empty reference: 0 if the hypothesis is empty too, else 1
                    return z3.If(rl > 0, nonempty, empty)
                return z3.And(lo <= got, got <= hi, z3.Implies(uniform, got == lev1))

            if variant == "rate":
                goals.append(clause(out.a[n], sp.sel2(Emin, rl, hl), sp.sel2(Emax, rl, hl), sp.sel2(D1, rl, hl), hl))
            else:
                for j in range(out.shape[1 if batch_first else 0]):
                    got = out.a[(n, j) if batch_first else (j, n)]
                    valid = (j < hl) if excl else (j <= hl)
                    sel = lambda T: sp.ite_select([T[r][j] for r in range(R + 1)], rl)
                    goals.append(z3.If(valid, clause(got, sel(Emin), sel(Emax), sel(D1), z3.IntVal(j)), got == z3.ToReal(PAD)))
        return goals if goals else z3.BoolVal(True)

    def twin(p):  # must fail: "always the FEWEST edits" is stronger than the code's tie-breaking guarantees
        if not api.returns(p) or not isinstance(p.value, ct.CT) or variant != "rate" or norm:
            return None
        ref, hyp = p.ghost["ref"], p.ghost["hyp"]
        gs = []
        for n in range(N):
            rc, hc = col(ref, n), col(hyp, n)
            rl, hl = sp.first_eos_len(rc, eos, include_eos), sp.first_eos_len(hc, eos, include_eos)
            D, Emin, Emax = sp.edits_tables(rc, hc, INS, DEL, SUB)
            gs.append(p.value.a[n] == z3.ToReal(sp.sel2(Emin, rl, hl)) + 1)
        return z3.And(gs)

    twins = [("fewest_plus_one", twin)] if (variant == "rate" and not norm) else []
    return VC("C02.S.edits_of_min_cost_alignment", name, M, "_string_matching", thunk, pre=[INS > 0, DEL > 0, SUB > 0],
              posts=[("between_fewest_and_most_edits_of_min_cost_alignments", post)], twins=twins, inputs=model_inputs(R, H, N),
              replay=lambda m: replay_er(m, R, H, N, eos_set, include_eos, batch_first, norm, variant),
              assumptions=["float arithmetic treated as real arithmetic", "torch primitive contracts in vf/pyvc/ctensor.py (differentially tested)",
                           "minimum-cost alignments characterised by the Wagner-Fischer argmin sets"])


def configs(quick):
    top = 3 if quick else 4
    for R in range(top):
        for H in range(top):
            for eos_set, include_eos in ((False, False), (True, False), (True, True)):
                for batch_first in (False, True):
                    for norm in (False, True):
                        for variant in ("rate", "prefix", "prefix_excl"):
                            if quick and batch_first and variant != "prefix":
                                continue
                            if quick and eos_set and not include_eos and (R + H) % 2:
                                continue
                            yield (R, H, 2 if R + H <= 1 else 1, eos_set, include_eos, batch_first, norm, variant)


def replay_er(m, R, H, N, eos_set, include_eos, batch_first, norm, variant):
    import itertools
    import torch
    import pydrobert.torch.functional as F

    ins, dele, sub = (float(m[k]) for k in ("ins", "del", "sub"))
    if min(ins, dele, sub) <= 0 or max(ins, dele, sub) > 1e4:
        return None
    eos = int(m["eos"]) if eos_set else None
    ref = torch.tensor([[int(m.get("ref_%d_%d" % (r, n), 0)) for n in range(N)] for r in range(R)], dtype=torch.long).reshape(R, N)
    hyp = torch.tensor([[int(m.get("hyp_%d_%d" % (h, n), 0)) for n in range(N)] for h in range(H)], dtype=torch.long).reshape(H, N)
    pad = int(m.get("padding", -1))
    kw = dict(eos=eos, include_eos=include_eos, norm=norm, batch_first=batch_first, ins_cost=ins, del_cost=dele, sub_cost=sub, warn=False)
    a, b = (ref.t(), hyp.t()) if batch_first else (ref, hyp)
    try:
        out = F.error_rate(a, b, **kw) if variant == "rate" else F.prefix_error_rates(a, b, padding=pad, exclude_last=variant == "prefix_excl", **kw)
    except Exception as e:
        return "real function raised %s: %s" % (type(e).__name__, e)

    def ln(c):
        return len(c) if (eos is None or eos not in c) else c.index(eos) + (1 if include_eos else 0)

    def tables(x, y):
        inf = float("inf")
        D = [[0.0] * (len(y) + 1) for _ in range(len(x) + 1)]
        lo = [[0] * (len(y) + 1) for _ in range(len(x) + 1)]
        hi = [[0] * (len(y) + 1) for _ in range(len(x) + 1)]
        for r in range(len(x) + 1):
            for j in range(len(y) + 1):
                if r == 0 or j == 0:
                    D[r][j] = r * dele + j * ins
                    lo[r][j] = hi[r][j] = r + j
                    continue
                ne = x[r - 1] != y[j - 1]
                c = [(D[r][j - 1] + ins, lo[r][j - 1] + 1, hi[r][j - 1] + 1), (D[r - 1][j - 1] + (sub if ne else 0.0), lo[r - 1][j - 1] + ne, hi[r - 1][j - 1] + ne),
                     (D[r - 1][j] + dele, lo[r - 1][j] + 1, hi[r - 1][j] + 1)]
                D[r][j] = min(v[0] for v in c)
                arg = [v for v in c if abs(v[0] - D[r][j]) <= 1e-9 * (1 + abs(D[r][j]))]
                lo[r][j], hi[r][j] = min(v[1] for v in arg), max(v[2] for v in arg)
        return D, lo, hi

    for n in range(N):
        rc, hc = ref[:, n].tolist(), hyp[:, n].tolist()
        rl, hl = ln(rc), ln(hc)
        D, lo, hi = tables(rc[:rl], hc[:hl])
        items = [(float(out[n]), hl, True)] if variant == "rate" else None
        if items is None:
            o = out[n] if batch_first else out[:, n]
            items = [(float(o[j]), j, (j < hl if variant == "prefix_excl" else j <= hl)) for j in range(o.shape[0])]
        for got, j, valid in items:
            if not valid:
                if got != pad:
                    return "pair %d prefix %d beyond the hypothesis: got %g, padding %d" % (n, j, got, pad)
                continue
            if norm and rl == 0:
                want = 1.0 if j > 0 else 0.0
                if got != want:
                    return "pair %d: empty reference, hypothesis length %d: got %g expected %g" % (n, j, got, want)
                continue
            a_, b_ = lo[rl][j] / (rl if norm else 1), hi[rl][j] / (rl if norm else 1)
            if not (a_ - 1e-4 <= got <= b_ + 1e-4):
                return "pair %d ref=%s hyp=%s (prefix %d) costs=(%g,%g,%g): got %g outside [%g, %g]" % (n, rc[:rl], hc[:hl], j, ins, dele, sub, got, a_, b_)
    return None


def vcs(ctx):
    return [er_vc(*c) for c in configs(ctx.quick)]
