"""C02, engine A part (S rung: concrete shapes, symbolic contents).

The real `error_rate` / `prefix_error_rates` source is executed symbolically; for every pair the
reported count is proved to lie between the fewest and the most edits among minimum-cost alignments
(contracts/strspec.py::edits_tables), to equal the unit-cost Levenshtein distance when the three
costs are equal, and to follow the normalisation / empty-reference convention of the statement.
"""
import z3

from contracts import strspec as sp
from contracts.C01_vc import EOS, PAD, col, model_inputs, sym_pair
from vf.pyvc import api, ctensor as ct, interp as ip
from vf.pyvc.api import VC

M = "pydrobert.torch._string"
INS, DEL, SUB = z3.Reals("ins_cost del_cost sub_cost")


def er_vc(R, H, N, eos_set, include_eos, batch_first, norm, variant):
    import pydrobert.torch.functional as F

    name = "R%dH%dN%d[eos=%s,inc=%s,bf=%s,norm=%s,%s]" % (R, H, N, eos_set, include_eos, batch_first, norm, variant)
    eos = EOS if eos_set else None
    excl = variant == "prefix_excl"

    def thunk(I):
        ref_in, hyp_in, ref, hyp = sym_pair(R, H, N, batch_first)
        I.ex.ghost.update(ref=ref, hyp=hyp)
        kw = dict(eos=eos, include_eos=include_eos, norm=norm, batch_first=batch_first, ins_cost=INS, del_cost=DEL, sub_cost=SUB, warn=False)
        if variant == "rate":
            return I.call(F.error_rate, [ref_in, hyp_in], kw)
        return I.call(F.prefix_error_rates, [ref_in, hyp_in], dict(kw, padding=PAD, exclude_last=excl))

    uniform = z3.And(INS == DEL, DEL == SUB)

    def post(p):
        if not api.returns(p) or not isinstance(p.value, ct.CT):
            return False
        out, ref, hyp = p.value, p.ghost["ref"], p.ghost["hyp"]
        want_shape = (N,) if variant == "rate" else ((N, H + (0 if excl else 1)) if batch_first else (H + (0 if excl else 1), N))
        if out.shape != want_shape:
            return False
        goals = []
        one = z3.RealVal(1)
        for n in range(N):
            rc, hc = col(ref, n), col(hyp, n)
            rl, hl = sp.first_eos_len(rc, eos, include_eos), sp.first_eos_len(hc, eos, include_eos)
            D, Emin, Emax = sp.edits_tables(rc, hc, INS, DEL, SUB)
            D1 = sp.lev_table(rc, hc, one, one, one)

            def clause(got, lo, hi, lev1, jlen):
                """got vs [lo, hi] edits, = lev1 when costs equal; jlen = length of the hypothesis (prefix)"""
                lo, hi = z3.ToReal(lo), z3.ToReal(hi)
                if norm:
                    rlr = z3.ToReal(rl)
                    nonempty = z3.And(lo <= got * rlr, got * rlr <= hi, z3.Implies(uniform, got * rlr == lev1))
                    empty = got == z3.If(jlen > 0, one, z3.RealVal(0))  # empty reference: 0 if the hypothesis is empty too, else 1
                    return z3.If(rl > 0, nonempty, empty)
                return z3.And(lo <= got, got <= hi, z3.Implies(uniform, got == lev1))

            if variant == "rate":
                goals.append(clause(out.a[n], sp.sel2(Emin, rl, hl), sp.sel2(Emax, rl, hl), sp.sel2(D1, rl, hl), hl))
            else:
                for j in range(out.shape[1 if batch_first else 0]):
                    got = out.a[(n, j) if batch_first else (j, n)]
                    valid = (j < hl) if excl else (j <= hl)
                    sel = lambda T: sp.ite_select([T[r][j] for r in range(R + 1)], rl)
                    goals.append(z3.If(valid, clause(got, sel(Emin), sel(Emax), sel(D1), z3.IntVal(j)), got == z3.ToReal(PAD)))
        return goals if goals else z3.BoolVal(True)

    def twin(p):  # must fail: "always the FEWEST edits" is stronger than the code's tie-breaking guarantees
        if not api.returns(p) or not isinstance(p.value, ct.CT) or variant != "rate" or norm:
            return None
        ref, hyp = p.ghost["ref"], p.ghost["hyp"]
        gs = []
        for n in range(N):
            rc, hc = col(ref, n), col(hyp, n)
            rl, hl = sp.first_eos_len(rc, eos, include_eos), sp.first_eos_len(hc, eos, include_eos)
            D, Emin, Emax = sp.edits_tables(rc, hc, INS, DEL, SUB)
            gs.append(p.value.a[n] == z3.ToReal(sp.sel2(Emin, rl, hl)) + 1)
        return z3.And(gs)

    twins = [("fewest_plus_one", twin)] if (variant == "rate" and not norm) else []
    return VC("C02.S.edits_of_min_cost_alignment", name, M, "_string_matching", thunk, pre=[INS > 0, DEL > 0, SUB > 0],
              posts=[("between_fewest_and_most_edits_of_min_cost_alignments", post)], twins=twins, inputs=model_inputs(R, H, N),
              replay=lambda m: replay_er(m, R, H, N, eos_set, include_eos, batch_first, norm, variant),
              assumptions=["float arithmetic treated as real arithmetic", "torch primitive contracts in vf/pyvc/ctensor.py (differentially tested)",
                           "minimum-cost alignments characterised by the Wagner-Fischer argmin sets"])


def configs(quick):
    top = 3 if quick else 4
    for R in range(top):
        for H in range(top):
            for eos_set, include_eos in ((False, False), (True, False), (True, True)):
                for batch_first in (False, True):
                    for norm in (False, True):
                        for variant in ("rate", "prefix", "prefix_excl"):
                            if quick and batch_first and variant != "prefix":
                                continue
                            if quick and eos_set and not include_eos and (R + H) % 2:
                                continue
                            yield (R, H, 2 if R + H <= 1 else 1, eos_set, include_eos, batch_first, norm, variant)


def replay_er(m, R, H, N, eos_set, include_eos, batch_first, norm, variant):
    import itertools
    import torch
    import pydrobert.torch.functional as F

    ins, dele, sub = (float(m[k]) for k in ("ins", "del", "sub"))
    if min(ins, dele, sub) <= 0 or max(ins, dele, sub) > 1e4:
        return None
    eos = int(m["eos"]) if eos_set else None
    ref = torch.tensor([[int(m.get("ref_%d_%d" % (r, n), 0)) for n in range(N)] for r in range(R)], dtype=torch.long).reshape(R, N)
    hyp = torch.tensor([[int(m.get("hyp_%d_%d" % (h, n), 0)) for n in range(N)] for h in range(H)], dtype=torch.long).reshape(H, N)
    pad = int(m.get("padding", -1))
    kw = dict(eos=eos, include_eos=include_eos, norm=norm, batch_first=batch_first, ins_cost=ins, del_cost=dele, sub_cost=sub, warn=False)
    a, b = (ref.t(), hyp.t()) if batch_first else (ref, hyp)
    try:
        out = F.error_rate(a, b, **kw) if variant == "rate" else F.prefix_error_rates(a, b, padding=pad, exclude_last=variant == "prefix_excl", **kw)
    except Exception as e:
        return "real function raised %s: %s" % (type(e).__name__, e)

    def ln(c):
        return len(c) if (eos is None or eos not in c) else c.index(eos) + (1 if include_eos else 0)

    def tables(x, y):
        inf = float("inf")
        D = [[0.0] * (len(y) + 1) for _ in range(len(x) + 1)]
        lo = [[0] * (len(y) + 1) for _ in range(len(x) + 1)]
        hi = [[0] * (len(y) + 1) for _ in range(len(x) + 1)]
        for r in range(len(x) + 1):
            for j in range(len(y) + 1):
                if r == 0 or j == 0:
                    D[r][j] = r * dele + j * ins
                    lo[r][j] = hi[r][j] = r + j
                    continue
                ne = x[r - 1] != y[j - 1]
                c = [(D[r][j - 1] + ins, lo[r][j - 1] + 1, hi[r][j - 1] + 1), (D[r - 1][j - 1] + (sub if ne else 0.0), lo[r - 1][j - 1] + ne, hi[r - 1][j - 1] + ne),
                     (D[r - 1][j] + dele, lo[r - 1][j] + 1, hi[r - 1][j] + 1)]
                D[r][j] = min(v[0] for v in c)
                arg = [v for v in c if abs(v[0] - D[r][j]) <= 1e-9 * (1 + abs(D[r][j]))]
                lo[r][j], hi[r][j] = min(v[1] for v in arg), max(v[2] for v in arg)
        return D, lo, hi

    for n in range(N):
        rc, hc = ref[:, n].tolist(), hyp[:, n].tolist()
        rl, hl = ln(rc), ln(hc)
        D, lo, hi = tables(rc[:rl], hc[:hl])
        items = [(float(out[n]), hl, True)] if variant == "rate" else None
        if items is None:
            o = out[n] if batch_first else out[:, n]
            items = [(float(o[j]), j, (j < hl if variant == "prefix_excl" else j <= hl)) for j in range(o.shape[0])]
        for got, j, valid in items:
            if not valid:
                if got != pad:
                    return "pair %d prefix %d beyond the hypothesis: got %g, padding %d" % (n, j, got, pad)
                continue
            if norm and rl == 0:
                want = 1.0 if j > 0 else 0.0
                if got != want:
                    return "pair %d: empty reference, hypothesis length %d: got %g expected %g" % (n, j, got, want)
                continue
            a_, b_ = lo[rl][j] / (rl if norm else 1), hi[rl][j] / (rl if norm else 1)
            if not (a_ - 1e-4 <= got <= b_ + 1e-4):
                return "pair %d ref=%s hyp=%s (prefix %d) costs=(%g,%g,%g): got %g outside [%g, %g]" % (n, rc[:rl], hc[:hl], j, ins, dele, sub, got, a_, b_)
    return None


def vcs(ctx):
    return [er_vc(*c) for c in configs(ctx.quick)]


# ---- minimum_error_rate_loss against error_rate's contract (modular) ------------------------------------------------------------
def mer_vc(N, Mn, R, H, ref3d, batch_first, sub_avg, reduction, norm):
    """The callee `error_rate` is replaced by its contract: it returns one symbolic rate per (element, sample) column and its
    obligations record the arguments it received, so that a dropped option or a reference repeated along the wrong axis is a
    refuted obligation. softmax has its assumed contract (non-negative weights summing to one, a function of the scores)."""
    import pydrobert.torch._string as S

    name = "N%dM%dR%dH%d[ref%s,bf=%s,sub_avg=%s,%s,norm=%s]" % (N, Mn, R, H, "3d" if ref3d else "2d", batch_first, sub_avg, reduction, norm)
    INC = z3.Bool("include_eos")

    def thunk(I):
        lp = ct.CT.symbolic("lp", (N, Mn), "float")
        ref = ct.CT.symbolic("ref", (N, Mn, R) if ref3d else (N, R), "long")
        hyp = ct.CT.symbolic("hyp", (N, Mn, H), "long")
        er = ct.CT.symbolic("er", (N * Mn,), "float")
        I.ex.ghost.update(lp=lp, ref=ref, hyp=hyp, er=er, calls=[])

        def er_contract(I2, a, k):
            I2.ex.ghost["calls"].append((a, dict(k)))
            return er

        I.contracts["pydrobert.torch._string.error_rate"] = er_contract
        to_tm = lambda t: ct.CT(ct.np.moveaxis(t.a, -1, 0).copy(), t.dtype)  # (N,M,T) -> (T,N,M)
        a_ref, a_hyp = (ref, hyp) if batch_first else (to_tm(ref), to_tm(hyp))
        return I.call(S.minimum_error_rate_loss, [lp, a_ref, a_hyp], dict(eos=EOS, include_eos=INC, sub_avg=sub_avg, batch_first=batch_first, norm=norm,
                                                                          ins_cost=INS, del_cost=DEL, sub_cost=SUB, reduction=reduction, warn=False))

    def post(p):
        if not api.returns(p) or not isinstance(p.value, ct.CT):
            return False
        g = p.ghost
        if len(g["calls"]) != 1:
            return False
        a, k = g["calls"][0]
        goals = []
        # -- what error_rate received
        kw = dict(k)
        names = ["ref", "hyp", "eos", "include_eos", "norm", "batch_first", "ins_cost", "del_cost", "sub_cost", "warn"]
        for i, v in enumerate(a):
            kw[names[i]] = v
        same = lambda x, y: (x is y) if not (ct.is_z3(x) or ct.is_z3(y)) else ip.to_z3(x).eq(ip.to_z3(y))
        goals.append(("callee.options", z3.BoolVal(bool(same(kw.get("eos"), EOS) and same(kw.get("include_eos"), INC) and kw.get("norm") is norm and kw.get("batch_first") is batch_first
                                                        and same(kw.get("ins_cost"), INS) and same(kw.get("del_cost"), DEL) and same(kw.get("sub_cost"), SUB)))))
        cref, chyp = kw.get("ref"), kw.get("hyp")
        ok_layout = isinstance(cref, ct.CT) and isinstance(chyp, ct.CT) and cref.shape == ((N * Mn, R) if batch_first else (R, N * Mn)) and chyp.shape == ((N * Mn, H) if batch_first else (H, N * Mn))
        if not ok_layout:
            goals.append(("callee.layout", z3.BoolVal(False)))
        else:
            eqs = []
            for n in range(N):
                for m in range(Mn):
                    c = n * Mn + m  # the column error_rate's result is later viewed at (n, m)
                    for r in range(R):
                        want = g["ref"].a[n, m, r] if ref3d else g["ref"].a[n, r]
                        got = cref.a[c, r] if batch_first else cref.a[r, c]
                        eqs.append(ip.to_z3(got) == want)
                    for h in range(H):
                        got = chyp.a[c, h] if batch_first else chyp.a[h, c]
                        eqs.append(ip.to_z3(got) == g["hyp"].a[n, m, h])
            goals.append(("callee.columns_pair_ref_n_with_sample_nm", z3.And(eqs) if eqs else z3.BoolVal(True)))
        # -- the formula: loss[n,m] = softmax(lp[n])[m] * (er[n,m] - sub_avg * mean_m er[n,.])
        w = ct.f_softmax(_FakeI(p), g["lp"], 1)  # same uninterpreted weights as in the run (functional contract)
        terms = []
        for n in range(N):
            mean = z3.Sum([g["er"].a[n * Mn + m] for m in range(Mn)]) / Mn
            for m in range(Mn):
                e = g["er"].a[n * Mn + m] - (mean if sub_avg else 0)
                terms.append(((n, m), ip.to_z3(w.a[n, m]) * e))
        out = p.value
        if reduction == "none":
            goals.append(("formula.none", z3.And([ip.to_z3(out.a[n, m]) == t for (n, m), t in terms]) if out.shape == (N, Mn) else z3.BoolVal(False)))
        else:
            tot = z3.Sum([t for _, t in terms])
            goals.append(("formula." + reduction, ip.to_z3(out.a[()]) == (tot / (N * Mn) if reduction == "mean" else tot) if out.shape == () else z3.BoolVal(False)))
        return goals

    return VC("C02.mer.formula_vc", name, M, "minimum_error_rate_loss", thunk, pre=[INS > 0, DEL > 0, SUB > 0], posts=[("softmax_weighted_error_rates", post)], inputs={},
              assumptions=["error_rate replaced by its contract (one rate per column; C02.S.* decide the rates themselves)", "softmax contract of vf/pyvc/ctensor.py (weights a function of the scores)"])


class _FakeI:
    """minimal interpreter facade to re-apply the softmax contract in a postcondition (assumptions are already in the path condition)"""

    def __init__(self, p):
        class E:
            def assume(s, c):
                pass
        self.ex = E()


def mer_vcs(ctx):
    out = []
    for ref3d in (False, True):
        for bf in (False, True):
            for sub_avg in (False, True):
                for red in ("mean", "sum", "none"):
                    for norm in (True, False):
                        if ctx.quick and (sub_avg != norm) and red != "none":
                            continue
                        out.append(mer_vc(2, 2, 2, 1, ref3d, bf, sub_avg, red, norm))
    if not ctx.quick:
        out += [mer_vc(1, 3, 1, 2, r3, bf, True, "mean", True) for r3 in (False, True) for bf in (False, True)]
    return out
